//! Builder scenarios: a tape is decoded into protocol parameters, a keyring, a UTxO universe and a
//! sequence of builder operations, applied to the real TransactionBuilder while a ledger-side model
//! (what every outpoint holds, who owns it, which script items exist) is kept in lock-step.
#![allow(dead_code)]

use crate::gen::bn;
use crate::runner::catch;
use crate::tape::*;
use cardano_serialization_lib as csl;
use csl::*;
use std::collections::BTreeMap;

pub type AssetId = (Vec<u8>, Vec<u8>);

#[derive(Clone, Debug)]
pub struct Params {
    pub fee_a: u64,
    pub fee_b: u64,
    pub cpb: u64,
    pub pool_deposit: u64,
    pub key_deposit: u64,
    pub max_value_size: u32,
    pub max_tx_size: u32,
    pub mem_price: (u64, u64),
    pub step_price: (u64, u64),
    pub ref_price: Option<(u64, u64)>,
    pub prefer_pure_change: bool,
    pub do_not_burn_extra_change: bool,
    pub dedup_ref_inputs: bool,
}

pub struct Key {
    pub sk: PrivateKey,
    pub pk: PublicKey,
    pub hash: Ed25519KeyHash,
    pub hash_bytes: Vec<u8>,
}

#[derive(Clone, Debug, PartialEq)]
pub enum Lock {
    Key(usize),
    Byron(usize),
    Native(usize),
    Plutus(usize),
}

#[derive(Clone)]
pub struct Utxo {
    pub input: TransactionInput,
    pub key: Vec<u8>,
    pub output: TransactionOutput,
    pub lock: Lock,
    pub coin: u64,
    pub assets: BTreeMap<AssetId, u64>,
    /// datum carried by the UTxO: hash of datums[i] or inline datums[i]
    pub datum_hash_of: Option<usize>,
    pub inline_datum: Option<usize>,
    /// reference script carried: (is_plutus, pool index)
    pub script_ref: Option<(bool, usize)>,
}

#[derive(Clone, Debug, PartialEq)]
pub enum Purpose {
    Spend,
    Mint,
    Cert,
    Reward,
    Vote,
    Propose,
}

/// marker in `ScriptItem::signer_hint`: the caller declared the empty signer set
pub const DECLARED_NO_SIGNERS: usize = usize::MAX;

#[derive(Clone, Debug)]
pub struct ScriptItem {
    pub purpose: Purpose,
    /// outpoint bytes / policy id / certificate bytes / reward account bytes / voter bytes / proposal bytes
    pub target: Vec<u8>,
    pub plutus: bool,
    pub script_index: usize,
    pub script_hash: Vec<u8>,
    /// reference input supplying the script, if not supplied by value
    pub script_ref_input: Option<Vec<u8>>,
    /// datum supplied in the witness set (bytes of the datum) / by reference input / inline in the UTxO
    pub witness_datum: Option<Vec<u8>>,
    pub datum_ref_input: Option<Vec<u8>>,
    /// unique integer carried by the redeemer payload
    pub marker: Option<u64>,
    /// signer hint given with the script source (key indices)
    pub signer_hint: Vec<usize>,
}

pub struct World {
    pub params: Params,
    pub keys: Vec<Key>,
    pub byron: Vec<(Bip32PrivateKey, ByronAddress)>,
    pub natives: Vec<NativeScript>,
    pub plutus: Vec<PlutusScript>,
    pub datums: Vec<PlutusData>,
    pub utxos: BTreeMap<Vec<u8>, Utxo>,
    pub cost_models: Costmdls,
    pub cost_model_values: BTreeMap<u8, Vec<i128>>,
    counter: u64,
}

#[derive(Clone, Debug, PartialEq)]
pub enum FeeRequest {
    None,
    Exactly(u64),
    NotLess(u64),
}

pub struct Outcome {
    pub world: World,
    pub ops: Vec<String>,
    pub errors: Vec<String>,
    pub script_items: Vec<ScriptItem>,
    pub extra_datums: Vec<Vec<u8>>,
    pub fee_request: FeeRequest,
    pub balancing: String,
    pub balancing_ok: bool,
    pub hash_calculated: bool,
    /// number of inputs in the builder when the hash was calculated (coin selection may add more afterwards)
    pub inputs_at_hash: usize,
    pub tb: TransactionBuilder,
    /// build_tx()
    pub tx: Option<Transaction>,
    pub tx_error: Option<String>,
    /// build() (body only) and build_tx_unsafe()
    pub body: Option<TransactionBody>,
    pub tx_unsafe: Option<Transaction>,
    pub full_size: Option<usize>,
    pub panics: Vec<String>,
    /// a collateral helper returned Ok (which one), for C19
    pub collateral_helper: Option<String>,
    pub collateral_pct: Option<u64>,
    pub required_signer_hints_plain: bool,
    /// markers of redeemers the builder accepted for a certificate that is not script-locked by the ledger's rules
    pub unlocked_markers: Vec<u64>,
    /// certificates that are script-locked by the ledger's rules and were admitted by plain add() (no witness)
    pub unwitnessed_locked: Vec<Vec<u8>>,
    /// keys the caller declared as signers on the inputs builder (TxInputsBuilder::add_required_signer(s)): they are not
    /// written into the body, but the caller announced that they sign, and the size prediction counts them
    pub declared_signers: Vec<usize>,
    /// certificates in the order of their first successful insertion
    pub cert_order: Vec<Vec<u8>>,
}

#[derive(Clone, Copy)]
pub struct Focus {
    pub scripts: u32,
    pub certs: u32,
    pub assets: u32,
    pub many_assets: bool,
    pub governance: u32,
    pub boundaries: bool,
    pub max_ops: usize,
    pub selection: u32,
    /// allow registering an existing input once more with another witness kind (C10 only: elsewhere a re-added
    /// input is an exact repeat, the one precondition on input operations)
    pub re_register: bool,
    /// replaces the tape-decoded max_tx_size (second pass of C07: the same history under a limit just below its size)
    pub max_tx_size_override: Option<u32>,
    /// a script-capable operation (Plutus input, certificate, withdrawal, mint, vote, proposal) is followed by 0-3 more
    /// of its kind, so that several items of one redeemer purpose meet in one transaction (C10)
    pub bursts: bool,
    /// datums may arrive decoded from a non-canonical encoding (entries 4..7 of the datum pool). Off for C03: decoded
    /// values replay their original bytes by design, and C03 speaks about values built through the typed API
    pub alt_datums: bool,
}

impl Focus {
    pub fn general() -> Focus {
        Focus { scripts: 70, certs: 60, assets: 90, many_assets: false, governance: 40, boundaries: true, max_ops: 14, selection: 70, re_register: false, max_tx_size_override: None, bursts: false, alt_datums: true }
    }
}

thread_local! {
    static BYRON: std::cell::RefCell<Vec<(Vec<u8>, ByronAddress)>> = std::cell::RefCell::new(Vec::new());
}

fn byron_pool() -> Vec<(Bip32PrivateKey, ByronAddress)> {
    BYRON.with(|b| {
        let mut b = b.borrow_mut();
        if b.is_empty() {
            for i in 0..2u8 {
                let root = Bip32PrivateKey::from_bip39_entropy(&pool_bytes(i, 16, 70), &[]);
                let magic = if i == 0 { NetworkInfo::mainnet().protocol_magic() } else { NetworkInfo::testnet_preprod().protocol_magic() };
                let addr = ByronAddress::icarus_from_key(&root.to_public(), magic);
                b.push((root.as_bytes(), addr));
            }
        }
        b.iter().map(|(k, a)| (Bip32PrivateKey::from_bytes(k).unwrap(), a.clone())).collect()
    })
}

impl World {
    fn new(params: Params) -> World {
        let keys: Vec<Key> = (0..6u8)
            .map(|k| {
                let sk = PrivateKey::from_normal_bytes(&pool_bytes(k, 32, 60)).unwrap();
                let pk = sk.to_public();
                let hash = pk.hash();
                Key { hash_bytes: hash.to_bytes(), sk, pk, hash }
            })
            .collect();
        let pkh = |i: usize| NativeScript::new_script_pubkey(&ScriptPubkey::new(&keys[i].hash));
        let list = |v: Vec<NativeScript>| {
            let mut l = NativeScripts::new();
            for s in &v {
                l.add(s);
            }
            l
        };
        let natives = vec![
            pkh(0),
            NativeScript::new_script_all(&ScriptAll::new(&list(vec![pkh(1), pkh(2)]))),
            NativeScript::new_script_any(&ScriptAny::new(&list(vec![pkh(0), pkh(3)]))),
            NativeScript::new_script_n_of_k(&ScriptNOfK::new(1, &list(vec![pkh(4), NativeScript::new_timelock_start(&TimelockStart::new_timelockstart(&bn(10)))]))),
            NativeScript::new_timelock_expiry(&TimelockExpiry::new_timelockexpiry(&bn(100_000))),
        ];
        let plutus = vec![
            PlutusScript::new(pool_bytes(1, 40, 71)),
            PlutusScript::new_v2(pool_bytes(2, 120, 71)),
            PlutusScript::new_v3(pool_bytes(3, 300, 71)),
            PlutusScript::new_v2(pool_bytes(1, 40, 71)),
            PlutusScript::new_v3(pool_bytes(4, 26_000, 71)),
        ];
        let mut l = PlutusList::new();
        l.add(&PlutusData::new_integer(&BigInt::from(7u64)));
        l.add(&PlutusData::new_bytes(vec![1, 2, 3]));
        let datums = vec![
            PlutusData::new_integer(&BigInt::from(0u64)),
            PlutusData::new_bytes(pool_bytes(5, 70, 72)),
            PlutusData::new_constr_plutus_data(&ConstrPlutusData::new(&bn(1), &l)),
            PlutusData::new_list(&l),
        ];
        // entries 4..7: the same four values decoded from another legal encoding (non-minimal integer, definite-length
        // byte string over 64 bytes, definite-length lists): equal as values, different bytes and datum hashes
        let mut datums = datums;
        for i in 0..4 {
            let c = datums[i].to_bytes();
            let alt: Vec<u8> = match i {
                0 => vec![0x18, 0x00],
                1 => {
                    let mut v = vec![0x58, 70];
                    v.extend_from_slice(&pool_bytes(5, 70, 72));
                    v
                }
                2 => {
                    let mut v = vec![c[0], c[1], 0x82];
                    v.extend_from_slice(&c[3..c.len() - 1]);
                    v
                }
                _ => {
                    let mut v = vec![0x82];
                    v.extend_from_slice(&c[1..c.len() - 1]);
                    v
                }
            };
            let d = match PlutusData::from_bytes(alt.clone()) {
                Ok(d) if d.to_bytes() == alt && d == datums[i] => d,
                _ => datums[i].clone(),
            };
            datums.push(d);
        }
        World { params, keys, byron: byron_pool(), natives, plutus, datums, utxos: BTreeMap::new(), cost_models: Costmdls::new(), cost_model_values: BTreeMap::new(), counter: 0 }
    }

    pub fn key_address(&self, k: usize, kind: usize, net: u8) -> Address {
        let pay = Credential::from_keyhash(&self.keys[k].hash);
        match kind % 3 {
            0 => EnterpriseAddress::new(net, &pay).to_address(),
            1 => BaseAddress::new(net, &pay, &Credential::from_keyhash(&self.keys[(k + 1) % 6].hash)).to_address(),
            _ => PointerAddress::new(net, &pay, &Pointer::new_pointer(&bn(1 + k as u64 * 1000), &bn(2), &bn(3))).to_address(),
        }
    }
    pub fn native_hash(&self, i: usize) -> ScriptHash {
        self.natives[i].hash()
    }
    pub fn plutus_hash(&self, i: usize) -> ScriptHash {
        self.plutus[i].hash()
    }
    fn script_address(&self, h: &ScriptHash) -> Address {
        EnterpriseAddress::new(1, &Credential::from_scripthash(h)).to_address()
    }

    fn next_input(&mut self) -> TransactionInput {
        self.counter += 1;
        // spread the hashes so that creation order differs from sorted order
        let h = fp64(&self.counter.to_le_bytes());
        let mut bytes = pool_bytes((h % 251) as u8, 32, 73);
        bytes[0] = (h >> 8) as u8;
        bytes[1] = (h >> 16) as u8;
        TransactionInput::new(&TransactionHash::from_bytes(bytes).unwrap(), (self.counter % 3) as u32)
    }

    pub fn mk_value(coin: u64, assets: &BTreeMap<AssetId, u64>) -> Value {
        let mut ma = MultiAsset::new();
        for ((p, n), q) in assets {
            ma.set_asset(&ScriptHash::from_bytes(p.clone()).unwrap(), &AssetName::new(n.clone()).unwrap(), &bn(*q));
        }
        Value::new_with_assets(&bn(coin), &ma)
    }

    pub fn new_utxo(&mut self, lock: Lock, coin: u64, assets: BTreeMap<AssetId, u64>, addr_kind: usize, datum_hash_of: Option<usize>, inline_datum: Option<usize>, script_ref: Option<(bool, usize)>) -> Utxo {
        let addr = match &lock {
            Lock::Key(k) => self.key_address(*k, addr_kind, 1),
            Lock::Byron(i) => self.byron[*i].1.to_address(),
            Lock::Native(i) => self.script_address(&self.native_hash(*i)),
            Lock::Plutus(i) => self.script_address(&self.plutus_hash(*i)),
        };
        let mut out = TransactionOutput::new(&addr, &World::mk_value(coin, &assets));
        if let Some(d) = datum_hash_of {
            out.set_data_hash(&hash_plutus_data(&self.datums[d]));
        }
        if let Some(d) = inline_datum {
            out.set_plutus_data(&self.datums[d]);
        }
        if let Some((pl, i)) = script_ref {
            out.set_script_ref(&if pl { ScriptRef::new_plutus_script(&self.plutus[i]) } else { ScriptRef::new_native_script(&self.natives[i]) });
        }
        let input = self.next_input();
        let u = Utxo { key: input.to_bytes(), input, output: out, lock, coin, assets, datum_hash_of, inline_datum, script_ref };
        self.utxos.insert(u.key.clone(), u.clone());
        u
    }

    /// size of a reference script as the ledger counts it: the bytes inside the #6.24 wrapper
    pub fn script_ref_size(&self, sr: (bool, usize)) -> usize {
        let r = if sr.0 { ScriptRef::new_plutus_script(&self.plutus[sr.1]) } else { ScriptRef::new_native_script(&self.natives[sr.1]) };
        let b = r.to_bytes();
        match crate::cbor::parse_document(&b) {
            Ok(n) => n.as_tag().and_then(|(_, inner)| inner.as_bytes().map(|x| x.len())).unwrap_or(0),
            Err(_) => 0,
        }
    }
}

fn params_from(t: &mut Tape, boundaries: bool) -> Params {
    let fee_a = [44u64, 0, 1, 500, 44][t.choose(5)];
    let fee_b = [155_381u64, 0, 1000, 65_400, 155_381][t.choose(5)];
    let cpb = [4310u64, 1, 34, 4310, 100_000][t.choose(5)];
    let price = |t: &mut Tape| [(577u64, 10_000u64), (0, 1), (1, 3), (721, 10_000_000), (5, 1)][t.choose(5)];
    Params {
        fee_a,
        fee_b,
        cpb,
        pool_deposit: [500_000_000u64, 0, 1][t.choose(3)],
        key_deposit: [2_000_000u64, 0, 400_000][t.choose(3)],
        max_value_size: if boundaries { [5000u32, 300, 1000, 150][t.choose(4)] } else { 5000 },
        max_tx_size: [16_384u32, 100_000, 3000][t.choose(3)],
        mem_price: price(t),
        step_price: price(t),
        ref_price: if t.chance(220) { Some([(15u64, 1u64), (1, 1), (44, 3)][t.choose(3)]) } else { None },
        prefer_pure_change: t.chance(60),
        do_not_burn_extra_change: t.chance(60),
        dedup_ref_inputs: t.chance(100),
    }
}

pub fn config_of(p: &Params) -> Result<TransactionBuilderConfig, JsError> {
    let mut b = TransactionBuilderConfigBuilder::new()
        .fee_algo(&LinearFee::new(&bn(p.fee_a), &bn(p.fee_b)))
        .coins_per_utxo_byte(&bn(p.cpb))
        .pool_deposit(&bn(p.pool_deposit))
        .key_deposit(&bn(p.key_deposit))
        .max_value_size(p.max_value_size)
        .max_tx_size(p.max_tx_size)
        .ex_unit_prices(&ExUnitPrices::new(&UnitInterval::new(&bn(p.mem_price.0), &bn(p.mem_price.1)), &UnitInterval::new(&bn(p.step_price.0), &bn(p.step_price.1))))
        .prefer_pure_change(p.prefer_pure_change)
        .do_not_burn_extra_change(p.do_not_burn_extra_change)
        .deduplicate_explicit_ref_inputs_with_regular_inputs(p.dedup_ref_inputs);
    if let Some((n, d)) = p.ref_price {
        b = b.ref_script_coins_per_byte(&UnitInterval::new(&bn(n), &bn(d)));
    }
    b.build()
}

struct Run<'a> {
    t: Tape<'a>,
    w: World,
    tb: TransactionBuilder,
    ib: TxInputsBuilder,
    cib: TxInputsBuilder,
    cb: CertificatesBuilder,
    wb: WithdrawalsBuilder,
    mb: MintBuilder,
    vb: VotingBuilder,
    pb: VotingProposalBuilder,
    used: (bool, bool, bool, bool, bool),
    ops: Vec<String>,
    errors: Vec<String>,
    panics: Vec<String>,
    items: Vec<ScriptItem>,
    extra_datums: Vec<Vec<u8>>,
    /// reference inputs whose script size the transaction builder was told through add_script_reference_input
    sized_refs: Vec<TransactionInput>,
    marker: u64,
    plutus_used: bool,
    focus: Focus,
    /// assets available from inputs / mint and not yet promised to an output
    spare_assets: BTreeMap<AssetId, u64>,
    /// what the mint operations so far added to `spare_assets` (taken back when the mint builder is removed)
    minted: BTreeMap<AssetId, u64>,
    in_coin: u128,
    out_coin: u128,
    implicit_in: u128,
    deposits: u128,
    cert_seen: Vec<Vec<u8>>,
    cert_history: Vec<(Certificate, usize, u8, usize)>,
    unlocked_markers: Vec<u64>,
    unwitnessed_locked: Vec<Vec<u8>>,
    declared_signers: Vec<usize>,
    hints_plain: bool,
}

impl<'a> Run<'a> {
    fn call<T>(&mut self, what: &str, f: impl FnOnce(&mut Self) -> Result<T, JsError>) -> Option<T> {
        let r = {
            let this: *mut Self = self;
            // the closure needs &mut self; catch_unwind wraps it
            catch(|| f(unsafe { &mut *this }))
        };
        match r {
            Ok(Ok(v)) => Some(v),
            Ok(Err(e)) => {
                self.errors.push(format!("{}: {:?}", what, e).chars().take(160).collect());
                None
            }
            Err(p) => {
                self.panics.push(format!("{}: {} at {}:{}", what, p.msg, p.file, p.line));
                None
            }
        }
    }

    fn next_marker(&mut self) -> u64 {
        self.marker += 1;
        1000 + self.marker
    }

    fn redeemer(&mut self, tag: &RedeemerTag) -> (Redeemer, u64) {
        let m = self.next_marker();
        let mc = self.t.choose(4);
        let sc = self.t.choose(4);
        let mem = [100u64, 0, 14_000_000, 1 << 33][mc];
        let steps = [200u64, 0, 10_000_000_000, 1 << 34][sc];
        // the tag and index of the caller's Redeemer object are placeholders: the builder decides both from the item the
        // redeemer is attached to. Half of the objects carry the purpose's own tag, the others any tag; the index is
        // arbitrary (derived from values already drawn, so that earlier tapes keep their meaning)
        let k = (m as usize) + mc * 2 + sc;
        let tags = [RedeemerTag::new_spend(), RedeemerTag::new_mint(), RedeemerTag::new_cert(), RedeemerTag::new_reward(), RedeemerTag::new_vote(), RedeemerTag::new_voting_proposal()];
        let carried = if k % 2 == 0 { tag.clone() } else { tags[(k / 2) % 6].clone() };
        (Redeemer::new(&carried, &bn((k % 7) as u64), &PlutusData::new_integer(&BigInt::from(m)), &ExUnits::new(&bn(mem), &bn(steps))), m)
    }

    fn signer_hint(&mut self) -> Vec<usize> {
        if self.t.chance(50) {
            let n = 1 + self.t.choose(2);
            (0..n).map(|_| self.t.choose(6)).collect()
        } else {
            vec![]
        }
    }

    fn hint_hashes(&self, hint: &[usize]) -> Ed25519KeyHashes {
        let mut h = Ed25519KeyHashes::new();
        for k in hint {
            h.add(&self.w.keys[*k].hash);
        }
        h
    }

    /// a reference UTxO carrying the script; returns its outpoint and declared size
    fn ref_utxo_for(&mut self, plutus: bool, idx: usize) -> (TransactionInput, usize) {
        // reuse an existing reference UTxO for this script half of the time (same ref input twice)
        let existing: Vec<Utxo> = self.w.utxos.values().filter(|u| u.script_ref == Some((plutus, idx))).cloned().collect();
        if !existing.is_empty() && self.t.bool() {
            let u = &existing[0];
            return (u.input.clone(), self.w.script_ref_size((plutus, idx)));
        }
        let k = self.t.choose(6);
        let u = self.w.new_utxo(Lock::Key(k), 5_000_000, BTreeMap::new(), 0, None, None, Some((plutus, idx)));
        (u.input, self.w.script_ref_size((plutus, idx)))
    }

    fn native_source(&mut self, idx: usize) -> (NativeScriptSource, Option<Vec<u8>>, Vec<usize>) {
        let hint = self.signer_hint();
        if self.t.chance(70) {
            let (inp, size) = self.ref_utxo_for(false, idx);
            let mut s = NativeScriptSource::new_ref_input(&self.w.native_hash(idx), &inp, size);
            // a referenced native script's signers are unknown to the builder unless hinted: always hint them
            let hint = if hint.is_empty() { native_keys(idx) } else { hint };
            s.set_required_signers(&self.hint_hashes(&hint));
            (s, Some(inp.to_bytes()), hint)
        } else {
            let mut s = NativeScriptSource::new(&self.w.natives[idx]);
            if !hint.is_empty() {
                s.set_required_signers(&self.hint_hashes(&hint));
                (s, None, hint)
            } else if self.t.chance(50) {
                // declaring that NO key signs for this script (time-lock branch, 0-of-n) is a declaration too: it is
                // not the same as declaring nothing, where the builder counts every key the script names
                s.set_required_signers(&Ed25519KeyHashes::new());
                (s, None, vec![DECLARED_NO_SIGNERS])
            } else {
                (s, None, hint)
            }
        }
    }

    fn plutus_source(&mut self, idx: usize) -> (PlutusScriptSource, Option<Vec<u8>>, Vec<usize>) {
        let hint = self.signer_hint();
        let (mut s, r) = if self.t.chance(90) {
            let (inp, size) = self.ref_utxo_for(true, idx);
            (PlutusScriptSource::new_ref_input(&self.w.plutus_hash(idx), &inp, &self.w.plutus[idx].language_version(), size), Some(inp.to_bytes()))
        } else {
            (PlutusScriptSource::new(&self.w.plutus[idx]), None)
        };
        if !hint.is_empty() {
            s.set_required_signers(&self.hint_hashes(&hint));
            // a Plutus signer hint is always accompanied by an explicit required signer (see DESIGN C18)
            for k in &hint {
                let h = self.w.keys[*k].hash.clone();
                self.tb.add_required_signer(&h);
            }
        }
        (s, r, hint)
    }

    fn pick_assets(&mut self, from_spare: bool) -> BTreeMap<AssetId, u64> {
        let mut m = BTreeMap::new();
        if !self.t.chance(self.focus.assets) {
            return m;
        }
        if from_spare {
            let keys: Vec<AssetId> = self.spare_assets.keys().cloned().collect();
            for k in keys {
                if self.t.chance(120) {
                    let have = self.spare_assets[&k];
                    if have == 0 {
                        continue;
                    }
                    let q = match self.t.choose(3) {
                        0 => have,
                        1 => 1,
                        _ => 1 + self.t.range_u64(0, have - 1),
                    };
                    *self.spare_assets.get_mut(&k).unwrap() -= q;
                    m.insert(k, q);
                }
            }
        } else {
            let n = if self.focus.many_assets { [1usize, 3, 24, 60, 150][self.t.choose(5)] } else { 1 + self.t.choose(4) };
            for i in 0..n {
                let policy = pool_bytes((i / 8 % 3) as u8 + if self.focus.many_assets { (i / 40) as u8 } else { 0 }, 28, 74);
                let name = if i % 5 == 4 { pool_bytes(i as u8, 32, 75) } else { vec![i as u8] };
                let q = if self.focus.boundaries { self.t.u64_class_max(1 << 40).max(1) } else { 1 + self.t.range_u64(0, 1000) };
                m.insert((policy, name), q);
            }
        }
        m
    }

    fn track_input(&mut self, u: &Utxo) {
        self.in_coin += u.coin as u128;
        for (k, q) in &u.assets {
            *self.spare_assets.entry(k.clone()).or_insert(0) += q;
        }
    }

    // --- operations -------------------------------------------------------------------------

    fn op_key_input(&mut self) {
        let k = self.t.choose(6);
        let kind = self.t.choose(3);
        let coin = if self.focus.boundaries { self.t.u64_class_max(1 << 44).max(1_000_000) } else { 2_000_000 + self.t.range_u64(0, 50_000_000) };
        let assets = self.pick_assets(false);
        let sr = if self.t.chance(25) { Some((self.t.bool(), self.t.choose(3))) } else { None };
        let u = self.w.new_utxo(Lock::Key(k), coin, assets, kind, None, None, sr);
        // a UTxO that carries a reference script can only be declared through the utxo route
        let route = if sr.is_some() { 2 } else { self.t.choose(4) };
        let ok = match route {
            0 => {
                let amt = u.output.amount();
                self.call("ib.add_regular_input", |s| s.ib.add_regular_input(&u.output.address(), &u.input, &amt)).is_some()
            }
            1 => {
                let amt = u.output.amount();
                let h = self.w.keys[k].hash.clone();
                self.ib.add_key_input(&h, &u.input, &amt);
                true
            }
            _ => {
                let tu = TransactionUnspentOutput::new(&u.input, &u.output);
                self.call("ib.add_regular_utxo", |s| s.ib.add_regular_utxo(&tu)).is_some()
            }
        };
        if ok {
            self.track_input(&u);
            self.ops.push(format!("key_input(k{},kind{},route{},{}{})", k, kind, route, coin, if u.assets.is_empty() { String::new() } else { format!("+{}assets", u.assets.len()) }));
        }
        let ib = self.ib.clone();
        self.tb.set_inputs(&ib);
    }

    /// registers an outpoint that is already an input once more: an exact repeat, or as a key input with
    /// another key (the last registration decides how the input is locked)
    fn op_re_add_input(&mut self) {
        let keys: Vec<Vec<u8>> = self.w.utxos.iter().filter(|(k, _)| self.items.iter().any(|it| it.purpose == Purpose::Spend && &it.target == *k) || matches!(self.w.utxos[*k].lock, Lock::Key(_))).map(|(k, _)| k.clone()).collect();
        let in_builder: Vec<Vec<u8>> = {
            let ins = self.ib.inputs();
            (0..ins.len()).map(|i| ins.get(i).to_bytes()).collect()
        };
        let cands: Vec<Vec<u8>> = keys.into_iter().filter(|k| in_builder.contains(k)).collect();
        if cands.is_empty() {
            return;
        }
        let key = cands[self.t.choose(cands.len())].clone();
        let u = self.w.utxos[&key].clone();
        let amt = u.output.amount();
        let k = self.t.choose(6);
        let h = self.w.keys[k].hash.clone();
        self.ib.add_key_input(&h, &u.input, &amt);
        // the model follows the last registration
        self.items.retain(|it| !(it.purpose == Purpose::Spend && it.target == key));
        if let Some(x) = self.w.utxos.get_mut(&key) {
            x.lock = Lock::Key(k);
        }
        self.ops.push(format!("re_add_as_key_input(k{})", k));
        let ib = self.ib.clone();
        self.tb.set_inputs(&ib);
    }

    fn op_byron_input(&mut self) {
        let i = self.t.choose(2);
        let coin = 2_000_000 + self.t.range_u64(0, 30_000_000);
        let u = self.w.new_utxo(Lock::Byron(i), coin, BTreeMap::new(), 0, None, None, None);
        let amt = u.output.amount();
        if self.t.bool() {
            let a = self.w.byron[i].1.clone();
            self.ib.add_bootstrap_input(&a, &u.input, &amt);
        } else {
            let _ = self.call("ib.add_regular_input(byron)", |s| s.ib.add_regular_input(&u.output.address(), &u.input, &amt));
        }
        self.track_input(&u);
        self.ops.push(format!("byron_input({},{})", i, coin));
        let ib = self.ib.clone();
        self.tb.set_inputs(&ib);
    }

    fn op_native_input(&mut self) {
        let idx = self.t.choose(5);
        let coin = 2_000_000 + self.t.range_u64(0, 30_000_000);
        let assets = self.pick_assets(false);
        let u = self.w.new_utxo(Lock::Native(idx), coin, assets, 0, None, None, None);
        let (src, refin, hint) = self.native_source(idx);
        let amt = u.output.amount();
        if self.t.bool() {
            self.ib.add_native_script_input(&src, &u.input, &amt);
        } else {
            let tu = TransactionUnspentOutput::new(&u.input, &u.output);
            if self.call("ib.add_native_script_utxo", |s| s.ib.add_native_script_utxo(&tu, &src)).is_none() {
                return;
            }
        }
        self.track_input(&u);
        self.items.push(ScriptItem { purpose: Purpose::Spend, target: u.key.clone(), plutus: false, script_index: idx, script_hash: self.w.native_hash(idx).to_bytes(), script_ref_input: refin, witness_datum: None, datum_ref_input: None, marker: None, signer_hint: hint });
        self.ops.push(format!("native_input(n{},{})", idx, coin));
        let ib = self.ib.clone();
        self.tb.set_inputs(&ib);
    }

    fn op_plutus_input(&mut self) {
        let idx = self.t.choose(4);
        let coin = 2_000_000 + self.t.range_u64(0, 30_000_000);
        let assets = self.pick_assets(false);
        let d = self.t.choose(4);
        // every other time the value arrives in its other encoding (decided by a value already drawn)
        let d = if self.focus.alt_datums && coin % 2 == 1 { d + 4 } else { d };
        // how the datum travels: hash in the UTxO + datum in the witness set / by reference; or inline in the UTxO
        let mode = self.t.choose(3);
        let (dh, inl) = if mode == 2 { (None, Some(d)) } else { (Some(d), None) };
        let u = self.w.new_utxo(Lock::Plutus(idx), coin, assets, 0, dh, inl, None);
        let (red, marker) = self.redeemer(&RedeemerTag::new_spend());
        let by_value_simple = self.t.chance(90);
        let mut item = ScriptItem { purpose: Purpose::Spend, target: u.key.clone(), plutus: true, script_index: idx, script_hash: self.w.plutus_hash(idx).to_bytes(), script_ref_input: None, witness_datum: None, datum_ref_input: None, marker: Some(marker), signer_hint: vec![] };
        let wit = if by_value_simple && mode != 2 {
            item.witness_datum = Some(self.w.datums[d].to_bytes());
            PlutusWitness::new(&self.w.plutus[idx], &self.w.datums[d], &red)
        } else {
            let (src, refin, hint) = self.plutus_source(idx);
            item.script_ref_input = refin;
            item.signer_hint = hint;
            match mode {
                0 => {
                    item.witness_datum = Some(self.w.datums[d].to_bytes());
                    PlutusWitness::new_with_ref(&src, &DatumSource::new(&self.w.datums[d]), &red)
                }
                1 => {
                    // the datum sits inline in another UTxO that is declared as a reference input
                    let k = self.t.choose(6);
                    let du = self.w.new_utxo(Lock::Key(k), 3_000_000, BTreeMap::new(), 0, None, Some(d), None);
                    item.datum_ref_input = Some(du.key.clone());
                    PlutusWitness::new_with_ref(&src, &DatumSource::new_ref_input(&du.input), &red)
                }
                _ => PlutusWitness::new_with_ref_without_datum(&src, &red),
            }
        };
        let amt = u.output.amount();
        if self.t.bool() {
            self.ib.add_plutus_script_input(&wit, &u.input, &amt);
        } else {
            let tu = TransactionUnspentOutput::new(&u.input, &u.output);
            if self.call("ib.add_plutus_script_utxo", |s| s.ib.add_plutus_script_utxo(&tu, &wit)).is_none() {
                return;
            }
        }
        self.plutus_used = true;
        self.track_input(&u);
        self.items.push(item);
        self.ops.push(format!("plutus_input(p{},datum{},mode{},{})", idx, d, mode, coin));
        let ib = self.ib.clone();
        self.tb.set_inputs(&ib);
    }

    fn op_output(&mut self) {
        let k = self.t.choose(6);
        let kind = self.t.choose(4);
        let addr = if kind == 3 { self.w.byron[self.t.choose(2)].1.to_address() } else { self.w.key_address(k, kind, 1) };
        let assets = self.pick_assets(true);
        let mut out = TransactionOutput::new(&addr, &World::mk_value(0, &assets));
        match self.t.choose(5) {
            1 => out.set_data_hash(&hash_plutus_data(&self.w.datums[self.t.choose(4)])),
            2 => out.set_plutus_data(&self.w.datums[self.t.choose(4)]),
            _ => {}
        }
        if self.t.chance(30) {
            out.set_script_ref(&ScriptRef::new_native_script(&self.w.natives[self.t.choose(5)]));
        }
        let cost = DataCost::new_coins_per_byte(&bn(self.w.params.cpb));
        let min = match catch(|| min_ada_for_output(&out, &cost)) {
            Ok(Ok(m)) => u64::from(m),
            _ => {
                self.give_back(&assets);
                return;
            }
        };
        let coin = match self.t.choose(5) {
            0 => min,
            1 => min.saturating_add(1),
            2 => min.saturating_sub(1),
            3 => min.saturating_add(self.t.u64_class_max(1 << 36)),
            _ => min.saturating_add(1_000_000),
        };
        let out = {
            let mut v = out.amount();
            v.set_coin(&bn(coin));
            let mut o2 = TransactionOutput::new(&addr, &v);
            if let Some(h) = out.data_hash() {
                o2.set_data_hash(&h);
            }
            if let Some(d) = out.plutus_data() {
                o2.set_plutus_data(&d);
            }
            if let Some(s) = out.script_ref() {
                o2.set_script_ref(&s);
            }
            o2
        };
        if self.call("add_output", |s| s.tb.add_output(&out)).is_some() {
            self.out_coin += coin as u128;
            self.ops.push(format!("output(kind{},{}{})", kind, coin, if assets.is_empty() { String::new() } else { format!("+{}assets", assets.len()) }));
        } else {
            self.give_back(&assets);
        }
    }

    fn give_back(&mut self, assets: &BTreeMap<AssetId, u64>) {
        for (k, q) in assets {
            *self.spare_assets.entry(k.clone()).or_insert(0) += q;
        }
    }

    /// credential of a tape-chosen kind: key / native script / plutus script
    fn cred(&mut self) -> (Credential, u8, usize) {
        if self.t.chance(self.focus.scripts) {
            if self.t.bool() {
                let i = self.t.choose(5);
                (Credential::from_scripthash(&self.w.native_hash(i)), 1, i)
            } else {
                let i = self.t.choose(4);
                (Credential::from_scripthash(&self.w.plutus_hash(i)), 2, i)
            }
        } else {
            let k = self.t.choose(6);
            (Credential::from_keyhash(&self.w.keys[k].hash), 0, k)
        }
    }

    fn op_cert(&mut self) {
        // now and then the caller offers a certificate it has added before (same bytes, same credential kind)
        let reuse: Option<(Certificate, usize, u8, usize)> = if !self.cert_history.is_empty() && self.t.chance(40) { Some(self.cert_history[self.t.choose(self.cert_history.len())].clone()) } else { None };
        let (cred, ck, ci) = self.cred();
        let kind = self.t.choose(17);
        let coin = [2_000_000u64, 0, 1, 500_000_000][self.t.choose(4)];
        let pool = self.w.keys[self.t.choose(6)].hash.clone();
        let drep = match self.t.choose(3) {
            0 => DRep::new_always_abstain(),
            1 => DRep::new_key_hash(&self.w.keys[self.t.choose(6)].hash),
            _ => DRep::new_always_no_confidence(),
        };
        let key_cred2 = Credential::from_keyhash(&self.w.keys[self.t.choose(6)].hash);
        let cert = match kind {
            0 => Certificate::new_stake_registration(&StakeRegistration::new(&cred)),
            1 => Certificate::new_stake_registration(&StakeRegistration::new_with_explicit_deposit(&cred, &bn(coin))),
            2 => Certificate::new_stake_deregistration(&StakeDeregistration::new(&cred)),
            3 => Certificate::new_stake_deregistration(&StakeDeregistration::new_with_explicit_refund(&cred, &bn(coin))),
            4 => Certificate::new_stake_delegation(&StakeDelegation::new(&cred, &pool)),
            5 => {
                let mut owners = Ed25519KeyHashes::new();
                for _ in 0..self.t.choose(3) {
                    owners.add(&self.w.keys[self.t.choose(6)].hash);
                }
                let ra = RewardAddress::new(1, &key_cred2);
                let pp = PoolParams::new(&pool, &VRFKeyHash::from_bytes(pool_bytes(1, 32, 76)).unwrap(), &bn(1000), &bn(340_000_000), &UnitInterval::new(&bn(1), &bn(10)), &ra, &owners, &Relays::new(), None);
                Certificate::new_pool_registration(&PoolRegistration::new(&pp))
            }
            6 => Certificate::new_pool_retirement(&PoolRetirement::new(&pool, 100 + self.t.choose(3) as u32)),
            7 => {
                // the hot credential is independent of the cold one (which alone authorises the certificate)
                let hot = match self.t.choose(3) {
                    1 => Credential::from_scripthash(&self.w.plutus_hash(self.t.choose(4))),
                    2 => Credential::from_scripthash(&self.w.native_hash(self.t.choose(5))),
                    _ => key_cred2.clone(),
                };
                Certificate::new_committee_hot_auth(&CommitteeHotAuth::new(&cred, &hot))
            }
            8 => Certificate::new_committee_cold_resign(&CommitteeColdResign::new(&cred)),
            9 => Certificate::new_drep_registration(&DRepRegistration::new(&cred, &bn(coin))),
            10 => Certificate::new_drep_deregistration(&DRepDeregistration::new(&cred, &bn(coin))),
            11 => Certificate::new_drep_update(&DRepUpdate::new(&cred)),
            12 => Certificate::new_vote_delegation(&VoteDelegation::new(&cred, &drep)),
            13 => Certificate::new_stake_and_vote_delegation(&StakeAndVoteDelegation::new(&cred, &pool, &drep)),
            14 => Certificate::new_stake_registration_and_delegation(&StakeRegistrationAndDelegation::new(&cred, &pool, &bn(coin))),
            15 => Certificate::new_vote_registration_and_delegation(&VoteRegistrationAndDelegation::new(&cred, &drep, &bn(coin))),
            _ => Certificate::new_stake_vote_registration_and_delegation(&StakeVoteRegistrationAndDelegation::new(&cred, &pool, &drep, &bn(coin))),
        };
        let (cert, kind, ck, ci) = match reuse {
            Some(x) => x,
            None => (cert, kind, ck, ci),
        };
        let cbytes = cert.to_bytes();
        // the same certificate again: the builder refuses it ("already exists"); should it ever take it, the set must
        // neither grow nor reorder (first-insertion order), and the new witness replaces the old one
        let again = self.cert_seen.contains(&cbytes);
        // Whether the certificate is script-locked is the ledger's rule, not the library's answer: the credential that
        // authorises it (stake / cold / DRep credential) is a script hash. Pool certificates are authorised by keys.
        // A legacy registration (kind 0) needs no witness at all in the ledger; there the library's own answer is used.
        let lib_needs = catch(|| cert.has_required_script_witness()).unwrap_or(false);
        let needs_script = if kind == 0 { lib_needs } else { ck != 0 && kind != 5 && kind != 6 };
        let mut ok;
        if needs_script && ck == 1 {
            let (src, refin, hint) = self.native_source(ci);
            ok = self.call("cb.add_with_native_script", |s| s.cb.add_with_native_script(&cert, &src)).is_some();
            if ok {
                self.items.retain(|it| !(it.purpose == Purpose::Cert && it.target == cbytes));
                self.items.push(ScriptItem { purpose: Purpose::Cert, target: cbytes.clone(), plutus: false, script_index: ci, script_hash: self.w.native_hash(ci).to_bytes(), script_ref_input: refin, witness_datum: None, datum_ref_input: None, marker: None, signer_hint: hint });
            }
        } else if needs_script && ck == 2 {
            let (red, marker) = self.redeemer(&RedeemerTag::new_cert());
            let (src, refin, hint) = self.plutus_source(ci);
            let wit = PlutusWitness::new_with_ref_without_datum(&src, &red);
            ok = self.call("cb.add_with_plutus_witness", |s| s.cb.add_with_plutus_witness(&cert, &wit)).is_some();
            if ok {
                self.plutus_used = true;
                self.items.retain(|it| !(it.purpose == Purpose::Cert && it.target == cbytes));
                self.items.push(ScriptItem { purpose: Purpose::Cert, target: cbytes.clone(), plutus: true, script_index: ci, script_hash: self.w.plutus_hash(ci).to_bytes(), script_ref_input: refin, witness_datum: None, datum_ref_input: None, marker: Some(marker), signer_hint: hint });
            }
        } else {
            ok = self.call("cb.add", |s| s.cb.add(&cert)).is_some();
        }
        // a refused caller follows the builder's advice and takes the other door; whatever gets in that way is recorded
        if !ok && !again && kind != 0 && kind != 5 && kind != 6 {
            if needs_script {
                if self.call("cb.add(after the script route was refused)", |s| s.cb.add(&cert)).is_some() {
                    ok = true;
                    self.unwitnessed_locked.push(cbytes.clone());
                }
            } else {
                let (red, marker) = self.redeemer(&RedeemerTag::new_cert());
                let (src, _refin, _hint) = self.plutus_source(0);
                let wit = PlutusWitness::new_with_ref_without_datum(&src, &red);
                if self.call("cb.add_with_plutus_witness(after add was refused)", |s| s.cb.add_with_plutus_witness(&cert, &wit)).is_some() {
                    ok = true;
                    self.plutus_used = true;
                    self.unlocked_markers.push(marker);
                }
            }
        }
        if ok {
            if !again {
                self.cert_seen.push(cbytes);
                self.cert_history.push((cert.clone(), kind, ck, ci));
            }
            self.used.0 = true;
            let cb = self.cb.clone();
            self.tb.set_certs_builder(&cb);
            self.ops.push(format!("cert(kind{},cred{}/{}{})", kind, ck, ci, if again { ",accepted again" } else { "" }));
        }
    }

    fn op_withdrawal(&mut self) {
        let (cred, ck, ci) = self.cred();
        let ra = RewardAddress::new(1, &cred);
        let coin = [0u64, 1, 5_000_000, 1 << 33][self.t.choose(4)];
        let ok;
        if ck == 1 {
            let (src, refin, hint) = self.native_source(ci);
            ok = self.call("wb.add_with_native_script", |s| s.wb.add_with_native_script(&ra, &bn(coin), &src)).is_some();
            if ok {
                self.items.push(ScriptItem { purpose: Purpose::Reward, target: ra.to_address().to_bytes(), plutus: false, script_index: ci, script_hash: self.w.native_hash(ci).to_bytes(), script_ref_input: refin, witness_datum: None, datum_ref_input: None, marker: None, signer_hint: hint });
            }
        } else if ck == 2 {
            let (red, marker) = self.redeemer(&RedeemerTag::new_reward());
            let (src, refin, hint) = self.plutus_source(ci);
            let wit = PlutusWitness::new_with_ref_without_datum(&src, &red);
            ok = self.call("wb.add_with_plutus_witness", |s| s.wb.add_with_plutus_witness(&ra, &bn(coin), &wit)).is_some();
            if ok {
                self.plutus_used = true;
                self.items.push(ScriptItem { purpose: Purpose::Reward, target: ra.to_address().to_bytes(), plutus: true, script_index: ci, script_hash: self.w.plutus_hash(ci).to_bytes(), script_ref_input: refin, witness_datum: None, datum_ref_input: None, marker: Some(marker), signer_hint: hint });
            }
        } else {
            ok = self.call("wb.add", |s| s.wb.add(&ra, &bn(coin))).is_some();
        }
        if ok {
            // adding the same reward account again replaces the earlier entry (and its witness)
            let target = ra.to_address().to_bytes();
            let n_same = self.items.iter().filter(|it| it.purpose == Purpose::Reward && it.target == target).count();
            if n_same >= 1 {
                let mut kept_last = false;
                let mut i = self.items.len();
                while i > 0 {
                    i -= 1;
                    if self.items[i].purpose == Purpose::Reward && self.items[i].target == target {
                        if ck != 0 && !kept_last {
                            kept_last = true;
                        } else {
                            self.items.remove(i);
                        }
                    }
                }
            }
            self.used.1 = true;
            self.implicit_in += coin as u128;
            let wb = self.wb.clone();
            self.tb.set_withdrawals_builder(&wb);
            self.ops.push(format!("withdrawal(cred{}/{},{})", ck, ci, coin));
        }
    }

    fn op_mint(&mut self) {
        let plutus = self.t.chance(self.focus.scripts);
        let name = AssetName::new(vec![b'm', self.t.choose(3) as u8]).unwrap();
        let mag = [1u64, 5, 1000, 1 << 40][self.t.choose(4)];
        let neg = self.t.chance(70);
        let amount = if neg { Int::new_negative(&bn(mag)) } else { Int::new(&bn(mag)) };
        let set = self.t.chance(40);
        if !plutus && mag == 5 {
            // the deprecated helpers on the transaction builder itself (native script by value, no signer hint): they work on
            // the builder's own mint builder, which the scenario then continues with
            let i = self.t.choose(5);
            let script = self.w.natives[i].clone();
            let r = if set {
                let mut ma = MintAssets::new();
                let _ = ma.insert(&name, &amount);
                self.call("tb.set_mint_asset", |s| s.tb.set_mint_asset(&script, &ma))
            } else {
                self.call("tb.add_mint_asset", |s| s.tb.add_mint_asset(&script, &name, &amount))
            };
            if r.is_some() {
                if let Some(mb) = self.tb.get_mint_builder() {
                    self.mb = mb;
                }
                self.used.2 = true;
                let pid = self.w.native_hash(i).to_bytes();
                // the first witness given for a policy stays (the mint builder keeps the entry it has)
                if !self.items.iter().any(|it| it.purpose == Purpose::Mint && it.target == pid) {
                    self.items.push(ScriptItem { purpose: Purpose::Mint, target: pid.clone(), plutus: false, script_index: i, script_hash: pid.clone(), script_ref_input: None, witness_datum: None, datum_ref_input: None, marker: None, signer_hint: vec![] });
                }
                if !neg {
                    *self.spare_assets.entry((pid.clone(), name.name())).or_insert(0) += mag;
                    *self.minted.entry((pid, name.name())).or_insert(0) += mag;
                }
                self.ops.push(format!("mint(n{},{}{},{},deprecated helper)", i, if neg { "-" } else { "+" }, mag, if set { "set" } else { "add" }));
            }
            return;
        }
        let (wit, policy, idx, refin, hint, marker) = if plutus {
            let i = self.t.choose(4);
            let (red, marker) = self.redeemer(&RedeemerTag::new_mint());
            let (src, refin, hint) = self.plutus_source(i);
            (MintWitness::new_plutus_script(&src, &red), self.w.plutus_hash(i), i, refin, hint, Some(marker))
        } else {
            let i = self.t.choose(5);
            let (src, refin, hint) = self.native_source(i);
            (MintWitness::new_native_script(&src), self.w.native_hash(i), i, refin, hint, None)
        };
        let r = if set { self.call("mb.set_asset", |s| s.mb.set_asset(&wit, &name, &amount)) } else { self.call("mb.add_asset", |s| s.mb.add_asset(&wit, &name, &amount)) };
        if r.is_some() {
            self.used.2 = true;
            if plutus {
                self.plutus_used = true;
            }
            let pid = policy.to_bytes();
            if !self.items.iter().any(|it| it.purpose == Purpose::Mint && it.target == pid) {
                self.items.push(ScriptItem { purpose: Purpose::Mint, target: pid.clone(), plutus, script_index: idx, script_hash: pid.clone(), script_ref_input: refin, witness_datum: None, datum_ref_input: None, marker, signer_hint: hint });
            }
            if !neg {
                *self.spare_assets.entry((pid.clone(), name.name())).or_insert(0) += mag;
                *self.minted.entry((pid, name.name())).or_insert(0) += mag;
            }
            let mb = self.mb.clone();
            self.tb.set_mint_builder(&mb);
            self.ops.push(format!("mint({}{},{}{},{})", if plutus { "p" } else { "n" }, idx, if neg { "-" } else { "+" }, mag, if set { "set" } else { "add" }));
        }
    }

    fn op_vote(&mut self) {
        let (cred, ck, ci) = self.cred();
        let voter = match self.t.choose(3) {
            0 => Voter::new_drep_credential(&cred),
            1 => Voter::new_constitutional_committee_hot_credential(&cred),
            _ => {
                if ck != 0 {
                    Voter::new_drep_credential(&cred)
                } else {
                    Voter::new_stake_pool_key_hash(&self.w.keys[ci].hash)
                }
            }
        };
        let gid = GovernanceActionId::new(&TransactionHash::from_bytes(pool_bytes(self.t.choose(3) as u8, 32, 77)).unwrap(), self.t.choose(3) as u32);
        let proc_ = VotingProcedure::new(VoteKind::Yes);
        let vbytes = voter.to_bytes();
        let already = self.items.iter().any(|it| it.purpose == Purpose::Vote && it.target == vbytes);
        let ok;
        if ck == 1 {
            let (src, refin, hint) = self.native_source(ci);
            ok = self.call("vb.add_with_native_script", |s| s.vb.add_with_native_script(&voter, &gid, &proc_, &src)).is_some();
            if ok && !already {
                self.items.push(ScriptItem { purpose: Purpose::Vote, target: vbytes, plutus: false, script_index: ci, script_hash: self.w.native_hash(ci).to_bytes(), script_ref_input: refin, witness_datum: None, datum_ref_input: None, marker: None, signer_hint: hint });
            }
        } else if ck == 2 {
            let (red, marker) = self.redeemer(&RedeemerTag::new_vote());
            let (src, refin, hint) = self.plutus_source(ci);
            let wit = PlutusWitness::new_with_ref_without_datum(&src, &red);
            ok = self.call("vb.add_with_plutus_witness", |s| s.vb.add_with_plutus_witness(&voter, &gid, &proc_, &wit)).is_some();
            if ok {
                self.plutus_used = true;
                if !already {
                    self.items.push(ScriptItem { purpose: Purpose::Vote, target: vbytes, plutus: true, script_index: ci, script_hash: self.w.plutus_hash(ci).to_bytes(), script_ref_input: refin, witness_datum: None, datum_ref_input: None, marker: Some(marker), signer_hint: hint });
                }
            }
        } else {
            ok = self.call("vb.add", |s| s.vb.add(&voter, &gid, &proc_)).is_some();
        }
        if ok {
            self.used.3 = true;
            let vb = self.vb.clone();
            self.tb.set_voting_builder(&vb);
            self.ops.push(format!("vote(cred{}/{})", ck, ci));
        }
    }

    fn op_proposal(&mut self) {
        let anchor = Anchor::new(&URL::new("https://x".into()).unwrap(), &AnchorDataHash::from_bytes(pool_bytes(1, 32, 78)).unwrap());
        let ra = RewardAddress::new(1, &Credential::from_keyhash(&self.w.keys[self.t.choose(6)].hash));
        let deposit = [100_000_000_000u64, 0, 1, 7][self.t.choose(4)];
        let with_policy = self.t.chance(self.focus.scripts / 2);
        let pi = self.t.choose(4);
        let action = if with_policy {
            let mut w = TreasuryWithdrawals::new();
            w.insert(&ra, &bn(1 + self.t.choose(5) as u64));
            GovernanceAction::new_treasury_withdrawals_action(&TreasuryWithdrawalsAction::new_with_policy_hash(&w, &self.w.plutus_hash(pi)))
        } else if self.t.bool() {
            GovernanceAction::new_info_action(&InfoAction::new())
        } else {
            GovernanceAction::new_no_confidence_action(&NoConfidenceAction::new())
        };
        let prop = VotingProposal::new(&action, &anchor, &ra, &bn(deposit));
        let prop_bytes = prop.to_bytes();
        let ok;
        if with_policy {
            let (red, marker) = self.redeemer(&RedeemerTag::new_voting_proposal());
            let (src, refin, hint) = self.plutus_source(pi);
            let wit = PlutusWitness::new_with_ref_without_datum(&src, &red);
            ok = self.call("pb.add_with_plutus_witness", |s| s.pb.add_with_plutus_witness(&prop, &wit)).is_some();
            if ok {
                // the proposal builder is a map keyed by the proposal: adding the same proposal again replaces its witness
                self.items.retain(|it| !(it.purpose == Purpose::Propose && it.target == prop_bytes));
                self.plutus_used = true;
                self.items.push(ScriptItem { purpose: Purpose::Propose, target: prop.to_bytes(), plutus: true, script_index: pi, script_hash: self.w.plutus_hash(pi).to_bytes(), script_ref_input: refin, witness_datum: None, datum_ref_input: None, marker: Some(marker), signer_hint: hint });
            }
        } else {
            ok = self.call("pb.add", |s| s.pb.add(&prop)).is_some();
            if ok {
                self.items.retain(|it| !(it.purpose == Purpose::Propose && it.target == prop_bytes));
            }
        }
        if ok {
            self.used.4 = true;
            self.deposits += deposit as u128;
            let pb = self.pb.clone();
            self.tb.set_voting_proposal_builder(&pb);
            self.ops.push(format!("proposal(deposit {},{})", deposit, if with_policy { "policy" } else { "plain" }));
        }
    }

    fn op_misc(&mut self) {
        match self.t.choose(9) {
            0 => {
                let k = self.t.choose(6);
                let h = self.w.keys[k].hash.clone();
                match self.ops.len() % 4 {
                    // declared on the inputs builder instead (one key / a set of one): counted as a signer, not written
                    // into the body
                    2 => {
                        self.ib.add_required_signer(&h);
                        let ib = self.ib.clone();
                        self.tb.set_inputs(&ib);
                        self.declared_signers.push(k);
                        self.ops.push(format!("inputs_builder.add_required_signer(k{})", k));
                    }
                    3 => {
                        let mut set = Ed25519KeyHashes::new();
                        set.add(&h);
                        self.ib.add_required_signers(&set);
                        let ib = self.ib.clone();
                        self.tb.set_inputs(&ib);
                        self.declared_signers.push(k);
                        self.ops.push(format!("inputs_builder.add_required_signers(k{})", k));
                    }
                    _ => {
                        self.tb.add_required_signer(&h);
                        self.ops.push(format!("required_signer(k{})", k));
                    }
                }
            }
            1 => {
                let k = self.t.choose(6);
                let dsel = self.t.choose(4);
                // (decided by values already drawn) the same reference input registered twice, once plainly and once with
                // the size of the script it carries, in either order: the declared size must survive
                let existing: Vec<TransactionInput> = self.sized_refs.clone();
                match (k + dsel) % 4 {
                    3 if !existing.is_empty() => {
                        let inp = &existing[k % existing.len()];
                        self.tb.add_reference_input(inp);
                        self.ops.push("reference_input(plain, after its script size was declared)".into());
                    }
                    2 => {
                        let u = self.w.new_utxo(Lock::Key(k), 5_000_000, BTreeMap::new(), 0, None, None, Some((true, dsel)));
                        let size = self.w.script_ref_size((true, dsel));
                        self.tb.add_reference_input(&u.input);
                        self.tb.add_script_reference_input(&u.input, size);
                        self.sized_refs.push(u.input.clone());
                        self.ops.push(format!("reference_input(plain, then script_reference_input(p{},{}))", dsel, size));
                    }
                    _ => {
                        let u = self.w.new_utxo(Lock::Key(k), 2_000_000, BTreeMap::new(), 0, None, Some(dsel), None);
                        self.tb.add_reference_input(&u.input);
                        self.ops.push("reference_input".into());
                    }
                }
            }
            2 => {
                let idx = self.t.choose(4);
                let (inp, size) = self.ref_utxo_for(true, idx);
                self.tb.add_script_reference_input(&inp, size);
                self.sized_refs.push(inp.clone());
                self.ops.push(format!("script_reference_input(p{},{})", idx, size));
                // now and then the same UTxO is spent as well, through an adder that has no parameter for the script size
                // (it was declared above): its script still has its price, whether or not the builder then drops the
                // outpoint from the reference inputs (deduplicate_explicit_ref_inputs_with_regular_inputs)
                if self.ops.len() % 3 == 0 {
                    if let Some(u) = self.w.utxos.values().find(|u| u.input == inp).cloned() {
                        let amt = u.output.amount();
                        if self.call("ib.add_regular_input(sized reference input)", |s| s.ib.add_regular_input(&u.output.address(), &u.input, &amt)).is_some() {
                            self.track_input(&u);
                            let ib = self.ib.clone();
                            self.tb.set_inputs(&ib);
                            self.ops.push("key_input(the sized reference input is spent too)".into());
                        }
                    }
                }
            }
            3 => {
                let d = self.t.choose(4) + if self.focus.alt_datums && self.ops.len() % 2 == 1 { 4 } else { 0 };
                let dat = self.w.datums[d].clone();
                self.tb.add_extra_witness_datum(&dat);
                self.extra_datums.push(dat.to_bytes());
                self.ops.push(format!("extra_datum({})", d));
            }
            4 => {
                let mut md = GeneralTransactionMetadata::new();
                // an empty metadata map is still auxiliary data: it is attached and hashed like any other
                let empty = self.t.chance(50);
                let mut route = 0;
                if !empty {
                    route = self.t.choose(3);
                    md.insert(&bn(route as u64), &TransactionMetadatum::new_text("hello".into()).unwrap());
                }
                // label 0: the whole map is set; 1 / 2: one entry is added to whatever auxiliary data is there
                match route {
                    1 => self.tb.add_metadatum(&bn(1), &TransactionMetadatum::new_text("hello".into()).unwrap()),
                    2 => {
                        let schema = if self.ops.len() % 2 == 0 { MetadataJsonSchema::NoConversions } else { MetadataJsonSchema::DetailedSchema };
                        let doc = if self.ops.len() % 2 == 0 { "{\"k\":[1,\"two\"]}" } else { "{\"map\":[{\"k\":{\"int\":1},\"v\":{\"bytes\":\"00ff\"}}]}" };
                        let _ = self.call("add_json_metadatum_with_schema", |s| s.tb.add_json_metadatum_with_schema(&bn(2), doc.to_string(), schema));
                    }
                    _ => self.tb.set_metadata(&md),
                }
                self.ops.push(if empty { "metadata(empty)".into() } else { ["metadata", "metadata(add_metadatum)", "metadata(add_json_metadatum)"][route].into() });
            }
            5 => {
                let mut aux = AuxiliaryData::new();
                // 0: bare AuxiliaryData::new(); 1: empty metadata map and empty script list; otherwise: content
                let shape = match self.t.choose(6) {
                    1 => 0,
                    2 => 1,
                    _ => 2,
                };
                if shape >= 1 {
                    let mut md = GeneralTransactionMetadata::new();
                    if shape == 2 {
                        md.insert(&bn(674), &TransactionMetadatum::new_int(&Int::new_i32(7)));
                    }
                    aux.set_metadata(&md);
                    if self.t.bool() {
                        let mut ns = NativeScripts::new();
                        if shape == 2 {
                            ns.add(&self.w.natives[self.t.choose(5)]);
                        }
                        aux.set_native_scripts(&ns);
                    }
                }
                if self.t.chance(60) {
                    aux.set_prefer_alonzo_format(true);
                }
                self.tb.set_auxiliary_data(&aux);
                self.ops.push(["auxiliary_data(bare)", "auxiliary_data(empty collections)", "auxiliary_data"][shape].into());
            }
            6 => {
                self.tb.set_ttl_bignum(&bn(self.t.u64_class()));
                self.ops.push("ttl".into());
            }
            7 => {
                self.tb.set_validity_start_interval_bignum(bn(self.t.u64_class_max(1 << 40)));
                self.ops.push("validity_start".into());
            }
            _ => {
                let d = [1u64, 1_000_000, 1 << 33][self.t.choose(3)];
                self.tb.set_donation(&bn(d));
                let tv = bn(self.t.u64_class().max(1));
                let _ = self.call("set_current_treasury_value", |s| s.tb.set_current_treasury_value(&tv));
                self.deposits += d as u128;
                self.ops.push(format!("donation({})", d));
            }
        }
    }

    /// the caller takes something back: the builder (and the model) must forget it completely
    fn op_removal(&mut self) {
        match self.t.choose(6) {
            0 => {
                self.tb.remove_certs();
                self.cb = CertificatesBuilder::new();
                self.items.retain(|it| it.purpose != Purpose::Cert);
                self.cert_seen.clear();
                self.cert_history.clear();
                self.unwitnessed_locked.clear();
                // markers of redeemers that went away with the certificates can no longer appear
                self.used.0 = false;
                self.ops.push("remove_certs".into());
            }
            1 => {
                self.tb.remove_withdrawals();
                self.wb = WithdrawalsBuilder::new();
                self.items.retain(|it| it.purpose != Purpose::Reward);
                self.implicit_in = 0;
                self.used.1 = false;
                self.ops.push("remove_withdrawals".into());
            }
            2 => {
                self.tb.remove_mint_builder();
                self.mb = MintBuilder::new();
                self.items.retain(|it| it.purpose != Purpose::Mint);
                for (k, q) in std::mem::take(&mut self.minted) {
                    if let Some(have) = self.spare_assets.get_mut(&k) {
                        *have = have.saturating_sub(q);
                    }
                }
                self.used.2 = false;
                self.ops.push("remove_mint_builder".into());
            }
            3 => {
                self.tb.remove_auxiliary_data();
                self.ops.push("remove_auxiliary_data".into());
            }
            4 => {
                self.tb.remove_ttl();
                self.tb.remove_validity_start_interval();
                self.ops.push("remove_ttl+validity_start".into());
            }
            _ => {
                // nothing computed yet at this point of a staged history: must be harmless
                self.tb.remove_script_data_hash();
                self.ops.push("remove_script_data_hash".into());
            }
        }
    }

    fn add_collateral(&mut self) {
        let n = 1 + self.t.choose(2);
        for _ in 0..n {
            let k = self.t.choose(6);
            let assets = if self.t.chance(40) { self.pick_assets(false) } else { BTreeMap::new() };
            let u = self.w.new_utxo(Lock::Key(k), 5_000_000 + self.t.range_u64(0, 5_000_000), assets, 0, None, None, None);
            let amt = u.output.amount();
            let _ = self.call("cib.add_regular_input", |s| s.cib.add_regular_input(&u.output.address(), &u.input, &amt));
        }
        let cib = self.cib.clone();
        self.tb.set_collateral(&cib);
        self.ops.push(format!("collateral({})", n));
    }
}

fn native_keys(idx: usize) -> Vec<usize> {
    match idx {
        0 => vec![0],
        1 => vec![1, 2],
        2 => vec![0, 3],
        3 => vec![4],
        _ => vec![],
    }
}

pub fn native_script_keys(idx: usize) -> Vec<usize> {
    native_keys(idx)
}

/// runs one scenario
pub fn run(tape: &[u8], focus: Focus) -> Option<Outcome> {
    let (plan, content) = split_plan(tape, 48);
    let mut pt = Tape::new(plan);
    let mut params = params_from(&mut pt, focus.boundaries);
    if let Some(m) = focus.max_tx_size_override {
        params.max_tx_size = m;
    }
    let cfg = match catch(|| config_of(&params)) {
        Ok(Ok(c)) => c,
        _ => return None,
    };
    let n_ops = 1 + pt.choose(focus.max_ops);
    let fee_req = pt.choose(10);
    let balancing = pt.choose(8);
    let strategy_k = pt.choose(4);
    let fund = pt.chance(230);
    // classes 0..7 as documented at the funding step; 8 and 9 put the leftover at a CBOR width border of the change coin
    let fund_extra = pt.choose(10);
    let skip_hash = pt.chance(12);
    let collateral_route = pt.choose(5);
    let cm_variant = pt.choose(3);
    let bursts = focus.bursts && pt.bool();
    let tb = TransactionBuilder::new(&cfg);
    let mut r = Run {
        t: Tape::new(content),
        w: World::new(params),
        tb,
        ib: TxInputsBuilder::new(),
        cib: TxInputsBuilder::new(),
        cb: CertificatesBuilder::new(),
        wb: WithdrawalsBuilder::new(),
        mb: MintBuilder::new(),
        vb: VotingBuilder::new(),
        pb: VotingProposalBuilder::new(),
        used: (false, false, false, false, false),
        ops: Vec::new(),
        errors: Vec::new(),
        panics: Vec::new(),
        items: Vec::new(),
        extra_datums: Vec::new(),
        sized_refs: Vec::new(),
        marker: 0,
        plutus_used: false,
        focus,
        spare_assets: BTreeMap::new(),
        minted: BTreeMap::new(),
        in_coin: 0,
        out_coin: 0,
        implicit_in: 0,
        deposits: 0,
        cert_seen: Vec::new(),
        cert_history: Vec::new(),
        unlocked_markers: Vec::new(),
        unwitnessed_locked: Vec::new(),
        declared_signers: Vec::new(),
        hints_plain: true,
    };
    // at least one key input first, so that most scenarios have something to balance
    r.op_key_input();
    for _ in 0..n_ops {
        let s = focus.scripts;
        let c = focus.certs;
        let gv = focus.governance;
        // weighted choice of the operation kind
        let weights: [(u32, u8); 13] = [(50, 0), (12, 1), (s / 2, 2), (s, 3), (70, 4), (c, 5), (c / 2, 6), (s / 2 + 20, 7), (gv / 2, 8), (gv / 2, 9), (32, 10), (8, 12), (if focus.re_register { s / 8 + 6 } else { 0 }, 11)];
        let total: u32 = weights.iter().map(|w| w.0).sum();
        let mut x = r.t.choose(total as usize) as u32;
        let mut kind = 0u8;
        for (w, k) in weights.iter() {
            if x < *w {
                kind = *k;
                break;
            }
            x -= w;
        }
        let reps = if bursts && matches!(kind, 3 | 5 | 6 | 7 | 8 | 9) { 1 + [0usize, 0, 1, 2, 3][r.t.choose(5)] } else { 1 };
        for _ in 0..reps {
            match kind {
                0 => r.op_key_input(),
                1 => r.op_byron_input(),
                2 => r.op_native_input(),
                3 => r.op_plutus_input(),
                4 => r.op_output(),
                5 => r.op_cert(),
                6 => r.op_withdrawal(),
                7 => r.op_mint(),
                8 => r.op_vote(),
                9 => r.op_proposal(),
                11 => r.op_re_add_input(),
                12 => r.op_removal(),
                _ => r.op_misc(),
            }
        }
    }
    // deposits / refunds of the certificates, from the scenario's own table (for funding only)
    // (the oracle recomputes them from the built body)
    let fee_request = match fee_req {
        0 => {
            let f = [200_000u64, 170_000, 5_000_000, 0][r.t.choose(4)];
            r.tb.set_min_fee(&bn(f));
            r.ops.push(format!("set_min_fee({})", f));
            FeeRequest::NotLess(f)
        }
        1 => {
            let f = [2_000_000u64, 300_000, 180_000][r.t.choose(3)];
            r.tb.set_fee(&bn(f));
            r.ops.push(format!("set_fee({})", f));
            FeeRequest::Exactly(f)
        }
        _ => FeeRequest::None,
    };
    let mut collateral_helper = None;
    let mut collateral_pct = None;
    if r.plutus_used {
        r.add_collateral();
        match collateral_route {
            0 => {
                // return + total from an explicit return output
                let k = r.t.choose(6);
                let addr = r.w.key_address(k, 0, 1);
                let out = TransactionOutput::new(&addr, &Value::new(&bn(2_000_000)));
                if r.call("set_collateral_return_and_total", |s| s.tb.set_collateral_return_and_total(&out)).is_some() {
                    collateral_helper = Some("set_collateral_return_and_total".to_string());
                }
            }
            1 => {
                let k = r.t.choose(6);
                let addr = r.w.key_address(k, 0, 1);
                if r.call("set_total_collateral_and_return", |s| s.tb.set_total_collateral_and_return(&bn(3_000_000), &addr)).is_some() {
                    collateral_helper = Some("set_total_collateral_and_return".to_string());
                }
            }
            _ => {}
        }
    }
    // cost models for the script data hash: small user-supplied ones; variants with / without unused languages
    let mut cm = Costmdls::new();
    let mut cmv: BTreeMap<u8, Vec<i128>> = BTreeMap::new();
    let langs: Vec<u8> = match cm_variant {
        0 => vec![0, 1, 2],
        1 => vec![1, 2, 0],
        _ => vec![2, 0, 1],
    };
    for l in langs {
        let vals: Vec<i128> = (0..(3 + l as usize * 2)).map(|i| (i as i128 + 1) * (l as i128 + 1) * if i % 3 == 2 { -1 } else { 1 }).collect();
        let mut m = CostModel::new();
        for (i, v) in vals.iter().enumerate() {
            let iv = if *v >= 0 { Int::new(&bn(*v as u64)) } else { Int::new_negative(&bn((-*v) as u64)) };
            let _ = m.set(i, &iv);
        }
        let lang = match l {
            0 => Language::new_plutus_v1(),
            1 => Language::new_plutus_v2(),
            _ => Language::new_plutus_v3(),
        };
        cm.insert(&lang, &m);
        cmv.insert(l, vals);
    }
    r.w.cost_models = cm.clone();
    r.w.cost_model_values = cmv;
    // funding: make most scenarios balance
    let change_k = r.t.choose(6);
    let change_kind = r.t.choose(4);
    // change may go to a long legacy (Daedalus-style, derivation-path attribute) Byron address: such an output is
    // larger than one with the 57-byte base address the library's calculators assume when none is given
    let change_addr = if change_kind == 3 {
        let hd_len = [28usize, 0, 64, 30][r.t.choose(4)];
        let hd: Vec<u8> = pool_bytes(change_k as u8, hd_len.max(1), 79)[..hd_len].to_vec();
        let hd_cbor = crate::cbor::encode(&crate::cbor::bytes(&hd));
        crate::props::c07::byron_with_payload(&pool_bytes(change_k as u8, 28, 78), &hd_cbor, if r.t.bool() { Some(1097911063) } else { None }).unwrap_or_else(|| r.w.key_address(change_k, 0, 1))
    } else {
        r.w.key_address(change_k, change_kind, 1)
    };
    let select = balancing >= 4 && balancing <= 6;
    if fund && !select {
        let est_fee: u128 = catch(|| r.tb.min_fee()).ok().and_then(|x| x.ok()).map(|f| u64::from(f) as u128).unwrap_or(300_000).max(match &fee_request {
            FeeRequest::Exactly(f) | FeeRequest::NotLess(f) => *f as u128,
            _ => 0,
        });
        let dep: u128 = catch(|| r.tb.get_deposit()).ok().and_then(|x| x.ok()).map(|f| u64::from(f) as u128).unwrap_or(0);
        let imp: u128 = catch(|| r.tb.get_implicit_input()).ok().and_then(|x| x.ok()).map(|f| u64::from(f.coin()) as u128).unwrap_or(0);
        let need = r.out_coin + dep + r.deposits.saturating_sub(0) + est_fee + 2000;
        let have = r.in_coin + imp;
        if need > have {
            // thresholds of the change logic, estimated with the library's own min-ADA (generator side only)
            let cost = DataCost::new_coins_per_byte(&bn(r.w.params.cpb));
            let spare: BTreeMap<AssetId, u64> = r.spare_assets.iter().filter(|(_, q)| **q > 0).map(|(k, q)| (k.clone(), *q)).collect();
            let pure_min = catch(|| min_ada_for_output(&TransactionOutput::new(&change_addr, &Value::new(&bn(0))), &cost)).ok().and_then(|x| x.ok()).map(|c| u64::from(c) as u128).unwrap_or(1_000_000);
            let asset_min = catch(|| min_ada_for_output(&TransactionOutput::new(&change_addr, &World::mk_value(0, &spare)), &cost)).ok().and_then(|x| x.ok()).map(|c| u64::from(c) as u128).unwrap_or(pure_min);
            let delta = r.t.range_u64(0, 16_000) as u128;
            let extra: u128 = match fund_extra {
                0 => 0,
                1 => 1_000_000,
                2 => 200,
                3 => 50_000_000,
                4 => (r.w.params.cpb as u128) * 230,
                5 => 3_000_000_000,
                // just around "is a change output viable": min-ADA of the change output +- a little
                6 => (asset_min + delta).saturating_sub(4_000),
                // just around "is a separate pure-ADA change output viable" (prefer_pure_change)
                7 => (asset_min + pure_min + delta).saturating_sub(2_000),
                // the change coin lands within a few thousand lovelace of 2^32: its encoding is one width while the fee
                // is being estimated and may be the other in the end
                8 => ((1u128 << 32) + delta).saturating_sub(8_000),
                // ... or of 2^16 / 2^8 (only viable as change under a small coins-per-byte)
                _ => ([1u128 << 16, 1 << 8, 1 << 16, 1 << 32][r.t.choose(4)] + delta / 8).saturating_sub(1_000),
            };
            let coin = (need - have + extra).min(u64::MAX as u128 / 4) as u64;
            let k = r.t.choose(6);
            let u = r.w.new_utxo(Lock::Key(k), coin, BTreeMap::new(), 1, None, None, None);
            let amt = u.output.amount();
            let _ = r.call("ib.add_regular_input(funding)", |s| s.ib.add_regular_input(&u.output.address(), &u.input, &amt));
            r.track_input(&u);
            let ib = r.ib.clone();
            r.tb.set_inputs(&ib);
            r.ops.push(format!("funding({})", coin));
        }
    }
    let mut hash_calculated = false;
    let want_hash = (r.plutus_used && !skip_hash) || (!r.extra_datums.is_empty() && r.t.chance(128));
    let mut inputs_at_hash = 0usize;
    let strategy = |k: usize| match k {
        0 => CoinSelectionStrategyCIP2::LargestFirst,
        1 => CoinSelectionStrategyCIP2::RandomImprove,
        2 => CoinSelectionStrategyCIP2::LargestFirstMultiAsset,
        _ => CoinSelectionStrategyCIP2::RandomImproveMultiAsset,
    };
    let mk_offered = |r: &mut Run| -> TransactionUnspentOutputs {
        let mut offered = TransactionUnspentOutputs::new();
        let n = 2 + r.t.choose(8);
        for _ in 0..n {
            let k = r.t.choose(6);
            let coin = [3_000_000u64, 50_000_000, 1_000_000_000, 100_000_000_000][r.t.choose(4)];
            let assets = if r.t.chance(50) { r.pick_assets(false) } else { BTreeMap::new() };
            let u = r.w.new_utxo(Lock::Key(k), coin, assets, r.t.choose(3), None, None, None);
            offered.add(&TransactionUnspentOutput::new(&u.input, &u.output));
        }
        offered
    };
    crate::runner::catch(|| ()).ok();
    let mut balancing_ok = false;
    let balancing_name;
    // the random strategies draw from the schedule hook: give them a deterministic stream
    csl::verif_hooks::install_schedule(vec![], fp64(tape));
    if balancing != 4 {
        if want_hash && !hash_calculated {
            if r.call("calc_script_data_hash", |s| s.tb.calc_script_data_hash(&cm)).is_some() {
                hash_calculated = true;
                inputs_at_hash = {
                let mut c = r.tb.clone();
                c.set_fee(&bn(0));
                catch(|| c.build()).ok().and_then(|x| x.ok()).map(|b| b.inputs().len()).unwrap_or(usize::MAX)
            };
            }
        }
    }
    match balancing {
        0 | 1 | 2 => {
            balancing_name = "add_change_if_needed".to_string();
            if let Some(_) = r.call("add_change_if_needed", |s| s.tb.add_change_if_needed(&change_addr)) {
                balancing_ok = true;
            }
        }
        3 => {
            balancing_name = "add_change_if_needed_with_datum".to_string();
            let od = if r.t.bool() { OutputDatum::new_data(&r.w.datums[1]) } else { OutputDatum::new_data_hash(&hash_plutus_data(&r.w.datums[2])) };
            if let Some(_) = r.call("add_change_if_needed_with_datum", |s| s.tb.add_change_if_needed_with_datum(&change_addr, &od)) {
                balancing_ok = true;
            }
        }
        4 => {
            balancing_name = format!("add_inputs_from({})+add_change_if_needed", strategy_k);
            let offered = mk_offered(&mut r);
            if r.call("add_inputs_from", |s| s.tb.add_inputs_from(&offered, strategy(strategy_k))).is_some() {
                if want_hash && !hash_calculated {
                    if r.call("calc_script_data_hash", |s| s.tb.calc_script_data_hash(&cm)).is_some() {
                        hash_calculated = true;
                        inputs_at_hash = {
                let mut c = r.tb.clone();
                c.set_fee(&bn(0));
                catch(|| c.build()).ok().and_then(|x| x.ok()).map(|b| b.inputs().len()).unwrap_or(usize::MAX)
            };
                    }
                }
                if r.call("add_change_if_needed", |s| s.tb.add_change_if_needed(&change_addr)).is_some() {
                    balancing_ok = true;
                }
            }
        }
        5 => {
            balancing_name = format!("add_inputs_from_and_change({})", strategy_k);
            let offered = mk_offered(&mut r);
            let mut cc = ChangeConfig::new(&change_addr);
            if r.t.chance(60) {
                cc = cc.change_plutus_data(&OutputDatum::new_data(&r.w.datums[0]));
            }
            if r.t.chance(40) {
                cc = cc.change_script_ref(&ScriptRef::new_native_script(&r.w.natives[0]));
            }
            if r.call("add_inputs_from_and_change", |s| s.tb.add_inputs_from_and_change(&offered, strategy(strategy_k), &cc)).is_some() {
                balancing_ok = true;
            }
        }
        6 => {
            balancing_name = format!("add_inputs_from_and_change_with_collateral_return({})", strategy_k);
            let offered = mk_offered(&mut r);
            let cc = ChangeConfig::new(&change_addr);
            let pct = [150u64, 0, 100, 1000][r.t.choose(4)];
            if r.cib.len() == 0 {
                r.add_collateral();
            }
            if r.call("add_inputs_from_and_change_with_collateral_return", |s| s.tb.add_inputs_from_and_change_with_collateral_return(&offered, strategy(strategy_k), &cc, &bn(pct))).is_some() {
                balancing_ok = true;
                collateral_helper = Some("percentage".to_string());
                collateral_pct = Some(pct);
            }
        }
        _ => {
            balancing_name = "add_change_if_needed".to_string();
            if let Some(_) = r.call("add_change_if_needed", |s| s.tb.add_change_if_needed(&change_addr)) {
                balancing_ok = true;
            }
        }
    }
    let _ = csl::verif_hooks::remove_schedule();
    // inputs chosen by coin selection are part of the model only through the UTxO map (all offered UTxOs are in it)
    let tb = r.tb.clone();
    let (tx, tx_error) = match catch(|| tb.build_tx()) {
        Ok(Ok(t)) => (Some(t), None),
        Ok(Err(e)) => (None, Some(format!("{:?}", e).chars().take(200).collect())),
        Err(p) => {
            r.panics.push(format!("build_tx: {} at {}:{}", p.msg, p.file, p.line));
            (None, Some("panic".into()))
        }
    };
    let body = catch(|| tb.build()).ok().and_then(|x| x.ok());
    let tx_unsafe = catch(|| tb.build_tx_unsafe()).ok().and_then(|x| x.ok());
    let full_size = catch(|| tb.full_size()).ok().and_then(|x| x.ok());
    Some(Outcome {
        world: r.w,
        ops: r.ops,
        errors: r.errors,
        script_items: r.items,
        extra_datums: r.extra_datums,
        fee_request,
        balancing: balancing_name,
        balancing_ok,
        hash_calculated,
        inputs_at_hash,
        tb,
        tx,
        tx_error,
        body,
        tx_unsafe,
        full_size,
        panics: r.panics,
        collateral_helper,
        collateral_pct,
        required_signer_hints_plain: r.hints_plain,
        unlocked_markers: r.unlocked_markers,
        unwitnessed_locked: r.unwitnessed_locked,
        declared_signers: r.declared_signers,
        cert_order: r.cert_seen,
    })
}
