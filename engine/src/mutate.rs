//! Structure-aware mutation of CBOR documents (tree edits chosen from the tape) and a
//! grammar-based generator of adversarial CBOR independent of any schema.

use crate::cbor::{self, Kind, Node};
use crate::tape::Tape;

fn count(n: &Node) -> usize {
    n.count_nodes()
}

/// visits nodes in preorder; calls f on node number `target`
fn with_node<R>(n: &mut Node, target: &mut usize, f: &mut dyn FnMut(&mut Node) -> R) -> Option<R> {
    if *target == 0 {
        return Some(f(n));
    }
    *target -= 1;
    match &mut n.kind {
        Kind::Array { items, .. } => {
            for x in items.iter_mut() {
                if let Some(r) = with_node(x, target, f) {
                    return Some(r);
                }
            }
            None
        }
        Kind::Map { entries, .. } => {
            for (k, v) in entries.iter_mut() {
                if let Some(r) = with_node(k, target, f) {
                    return Some(r);
                }
                if let Some(r) = with_node(v, target, f) {
                    return Some(r);
                }
            }
            None
        }
        Kind::Tag(_, inner) => with_node(inner, target, f),
        _ => None,
    }
}

const TAGS: [u64; 12] = [2, 3, 24, 30, 102, 121, 127, 258, 259, 1280, 1400, 55799];

fn replacement(t: &mut Tape, original: &Node) -> Node {
    match t.choose(12) {
        0 => cbor::uint(t.u64_class()),
        1 => cbor::nint(t.u64_class()),
        2 => cbor::bytes(&[]),
        3 => {
            let n = [1usize, 4, 28, 29, 32, 57, 64, 65][t.choose(8)];
            cbor::bytes(&t.bytes(n))
        }
        4 => cbor::text(""),
        5 => cbor::array(vec![]),
        6 => cbor::map(vec![]),
        7 => cbor::null(),
        8 => Node { kind: Kind::Simple([20u8, 21, 23, 0, 16, 32, 255][t.choose(7)]), start: 0, end: 0, width: 0 },
        9 => cbor::tag(TAGS[t.choose(TAGS.len())], original.clone()),
        10 => cbor::array(vec![original.clone()]),
        _ => Node { kind: Kind::Float(t.raw_u64(), [2u8, 4, 8][t.choose(3)]), start: 0, end: 0, width: 0 },
    }
}

/// one tree edit
pub fn edit_tree(root: &mut Node, t: &mut Tape) -> &'static str {
    let total = count(root);
    let mut target = t.choose(total);
    let which = t.choose(12);
    let mut tape_copy_bytes = t.bytes(0); // placeholder to keep borrowck simple
    let _ = &mut tape_copy_bytes;
    // decisions needing the tape are drawn up front
    let r1 = t.byte();
    let r2 = t.byte();
    let big = t.u64_class();
    let repl_seed = t.bytes(10);
    let mut label: &'static str = "noop";
    with_node(root, &mut target, &mut |n: &mut Node| {
        let mut t2 = Tape::new(&repl_seed);
        match which {
            0 => {
                // widen the head
                let widths = [1u8, 2, 4, 8];
                n.width = widths[(r1 as usize) % 4];
                label = "widen-head";
            }
            1 => {
                // toggle indefinite
                match &mut n.kind {
                    Kind::Array { indef, .. } | Kind::Map { indef, .. } => {
                        *indef = !*indef;
                        label = "toggle-indefinite";
                    }
                    Kind::Bytes { data, chunks } | Kind::Text { data, chunks } => {
                        if chunks.is_some() {
                            *chunks = None;
                        } else {
                            let c = [1usize, 2, 32, 64, 65][(r1 as usize) % 5];
                            let mut cs = Vec::new();
                            let mut rem = data.len();
                            while rem > 0 {
                                let l = c.min(rem);
                                cs.push((l, if r2 & 1 == 1 { 1 } else { 0 }));
                                rem -= l;
                            }
                            if r2 & 2 == 2 {
                                cs.push((0, 0));
                            }
                            *chunks = Some(cs);
                        }
                        label = "toggle-chunked";
                    }
                    _ => {}
                }
            }
            2 => {
                let orig = n.clone();
                *n = replacement(&mut t2, &orig);
                label = "replace-node";
            }
            3 => {
                match &mut n.kind {
                    Kind::Array { items, .. } if items.len() >= 2 => {
                        let a = (r1 as usize) % items.len();
                        let b = (r2 as usize) % items.len();
                        items.swap(a, b);
                        label = "swap-children";
                    }
                    Kind::Map { entries, .. } if entries.len() >= 2 => {
                        let a = (r1 as usize) % entries.len();
                        let b = (r2 as usize) % entries.len();
                        entries.swap(a, b);
                        label = "swap-entries";
                    }
                    _ => {}
                }
            }
            4 => match &mut n.kind {
                Kind::Array { items, .. } if !items.is_empty() => {
                    let a = (r1 as usize) % items.len();
                    if r2 & 1 == 0 {
                        let x = items[a].clone();
                        items.insert(a, x);
                        label = "duplicate-element";
                    } else {
                        items.remove(a);
                        label = "delete-element";
                    }
                }
                Kind::Map { entries, .. } if !entries.is_empty() => {
                    let a = (r1 as usize) % entries.len();
                    if r2 & 1 == 0 {
                        let x = entries[a].clone();
                        entries.push(x);
                        label = "duplicate-key";
                    } else {
                        entries.remove(a);
                        label = "delete-entry";
                    }
                }
                _ => {}
            },
            5 => {
                let orig = n.clone();
                *n = cbor::tag(TAGS[(r1 as usize) % TAGS.len()], orig);
                label = "wrap-in-tag";
            }
            6 => match &mut n.kind {
                Kind::Bytes { data, .. } | Kind::Text { data, .. } => {
                    match r1 % 5 {
                        0 => data.clear(),
                        1 => data.truncate(1),
                        2 => {
                            data.pop();
                        }
                        3 => data.push(r2),
                        _ => {
                            // an address-like payload: header nibble sweep
                            if !data.is_empty() {
                                data[0] = r2;
                            }
                        }
                    }
                    label = "resize-string";
                }
                _ => {}
            },
            7 => match &mut n.kind {
                Kind::UInt(v) | Kind::NInt(v) => {
                    *v = big;
                    label = "boundary-integer";
                }
                Kind::Tag(tg, _) => {
                    *tg = big;
                    label = "boundary-tag";
                }
                _ => {}
            },
            8 => {
                // unwrap a tag / replace container by its first child
                let repl = match &n.kind {
                    Kind::Tag(_, inner) => Some((**inner).clone()),
                    Kind::Array { items, .. } if !items.is_empty() => Some(items[0].clone()),
                    _ => None,
                };
                if let Some(r) = repl {
                    *n = r;
                    label = "unwrap";
                }
            }
            9 => {
                // insert a foreign element
                let ins = replacement(&mut t2, &cbor::null());
                match &mut n.kind {
                    Kind::Array { items, .. } => {
                        let a = if items.is_empty() { 0 } else { (r1 as usize) % (items.len() + 1) };
                        items.insert(a, ins);
                        label = "insert-element";
                    }
                    Kind::Map { entries, .. } => {
                        entries.push((ins, cbor::null()));
                        label = "insert-entry";
                    }
                    _ => {}
                }
            }
            10 => {
                // array <-> map
                let new = match &n.kind {
                    Kind::Array { items, .. } => {
                        let mut e = Vec::new();
                        let mut it = items.clone().into_iter();
                        while let (Some(a), Some(b)) = (it.next(), it.next()) {
                            e.push((a, b));
                        }
                        Some(cbor::map(e))
                    }
                    Kind::Map { entries, .. } => Some(cbor::array(entries.iter().flat_map(|(k, v)| vec![k.clone(), v.clone()]).collect())),
                    Kind::Bytes { data, .. } => Some(Node { kind: Kind::Text { data: data.clone(), chunks: None }, start: 0, end: 0, width: 0 }),
                    Kind::Text { data, .. } => Some(cbor::bytes(data)),
                    Kind::UInt(v) => Some(cbor::nint(*v)),
                    Kind::NInt(v) => Some(cbor::uint(*v)),
                    _ => None,
                };
                if let Some(x) = new {
                    *n = x;
                    label = "change-major-type";
                }
            }
            _ => {
                // empty the container
                match &mut n.kind {
                    Kind::Array { items, .. } => {
                        items.clear();
                        label = "empty-container";
                    }
                    Kind::Map { entries, .. } => {
                        entries.clear();
                        label = "empty-container";
                    }
                    _ => {}
                }
            }
        }
    });
    label
}

const INTERESTING: [u8; 24] = [0x00, 0x17, 0x18, 0x19, 0x1a, 0x1b, 0x1f, 0x3b, 0x40, 0x5b, 0x5f, 0x7b, 0x7f, 0x80, 0x9b, 0x9f, 0xa0, 0xbf, 0xc2, 0xd8, 0xf6, 0xf7, 0xfb, 0xff];

/// one byte-level edit
pub fn edit_bytes(b: &mut Vec<u8>, t: &mut Tape) -> &'static str {
    if b.is_empty() {
        b.push(t.byte());
        return "insert-byte";
    }
    let p = t.choose(b.len());
    match t.choose(8) {
        0 => {
            b.truncate(p);
            "truncate"
        }
        1 => {
            b[p] ^= 1 << t.choose(8);
            "bit-flip"
        }
        2 => {
            b[p] = INTERESTING[t.choose(INTERESTING.len())];
            "overwrite-interesting"
        }
        3 => {
            b.insert(p, INTERESTING[t.choose(INTERESTING.len())]);
            "insert-interesting"
        }
        4 => {
            b.remove(p);
            "delete-byte"
        }
        5 => {
            b[p] = b[p].wrapping_add(1);
            "increment-byte"
        }
        6 => {
            b[p] = b[p].wrapping_sub(1);
            "decrement-byte"
        }
        _ => {
            // declare a length: a string head with a 4- or 8-byte argument
            let major: u8 = [2u8, 3, 4, 5][t.choose(4)];
            let eight = t.bool();
            let v = t.u64_class();
            let mut ins = vec![(major << 5) | if eight { 27 } else { 26 }];
            if eight {
                ins.extend_from_slice(&v.to_be_bytes());
            } else {
                ins.extend_from_slice(&(v as u32).to_be_bytes());
            }
            let tail = b.split_off(p);
            b.extend_from_slice(&ins);
            b.extend_from_slice(&tail);
            "declare-length"
        }
    }
}

/// random (almost) well-formed CBOR tree, independent of any schema
pub fn grammar(t: &mut Tape, depth: usize) -> Node {
    let leaf = depth == 0 || t.is_dry();
    let k = if leaf { t.choose(6) } else { t.choose(12) };
    match k {
        0 => cbor::uint(t.u64_class()),
        1 => cbor::nint(t.u64_class()),
        2 => {
            let n = [0usize, 1, 28, 32, 64, 65][t.choose(6)];
            let mut x = cbor::bytes(&t.bytes(n));
            if t.chance(40) {
                if let Kind::Bytes { chunks, data } = &mut x.kind {
                    *chunks = Some(vec![(data.len() / 2, 0), (data.len() - data.len() / 2, 0)]);
                }
            }
            x
        }
        3 => cbor::text(["", "a", "self", "0x00", "é"][t.choose(5)]),
        4 => cbor::null(),
        5 => Node { kind: Kind::Simple([20u8, 21, 23][t.choose(3)]), start: 0, end: 0, width: 0 },
        6 | 7 => {
            let n = t.choose(4);
            let items = (0..n).map(|_| grammar(t, depth - 1)).collect();
            if t.chance(60) {
                cbor::array_indef(items)
            } else {
                cbor::array(items)
            }
        }
        8 | 9 => {
            let n = t.choose(3);
            let entries = (0..n).map(|_| (grammar(t, depth - 1), grammar(t, depth - 1))).collect();
            let mut m = cbor::map(entries);
            if t.chance(60) {
                if let Kind::Map { indef, .. } = &mut m.kind {
                    *indef = true;
                }
            }
            m
        }
        10 => cbor::tag(TAGS[t.choose(TAGS.len())], grammar(t, depth - 1)),
        _ => {
            // deep chain: nest arrays / tags to the depth budget cheaply
            let chain = t.range(1, depth.min(250));
            let mut n = grammar(t, 0);
            for i in 0..chain {
                n = if i % 3 == 2 { cbor::tag(24 + (i as u64 % 3) * 117, n) } else if i % 3 == 1 { cbor::map(vec![(cbor::uint(i as u64 % 24), n)]) } else { cbor::array(vec![n]) };
            }
            n
        }
    }
}

/// Re-encodes a tree with non-canonical but equivalent encoding choices drawn from the tape:
/// wider heads, indefinite arrays / maps, rotated map entries, chunked byte strings, stripped set tags.
/// `intensity` (0..=255) is the per-node probability numerator of each kind of change.
pub struct NonCanon {
    pub widen: u32,
    pub indef: u32,
    pub rotate_maps: u32,
    pub chunk: u32,
    pub strip_set_tags: bool,
    pub features: Vec<&'static str>,
}

impl NonCanon {
    pub fn from_tape(t: &mut Tape) -> NonCanon {
        let level = t.choose(5) as u32; // 0 = canonical
        let p = [0u32, 6, 20, 60, 140][level as usize];
        NonCanon {
            widen: if t.bool() { p } else { 0 },
            indef: if t.bool() { p } else { 0 },
            rotate_maps: if t.bool() { p } else { 0 },
            chunk: if t.chance(60) { p / 4 } else { 0 },
            strip_set_tags: t.chance(60),
            features: Vec::new(),
        }
    }
    fn note(&mut self, f: &'static str) {
        if !self.features.contains(&f) {
            self.features.push(f);
        }
    }
    pub fn apply(&mut self, n: &mut Node, t: &mut Tape) {
        // strip tag 258
        if self.strip_set_tags {
            if let Kind::Tag(258, inner) = &n.kind {
                let inner = (**inner).clone();
                *n = inner;
                self.note("untagged-set");
            }
        }
        let arg = match &n.kind {
            Kind::UInt(v) | Kind::NInt(v) => Some(*v),
            Kind::Bytes { data, chunks: None } | Kind::Text { data, chunks: None } => Some(data.len() as u64),
            Kind::Array { items, indef: false } => Some(items.len() as u64),
            Kind::Map { entries, indef: false } => Some(entries.len() as u64),
            Kind::Tag(tg, _) => Some(*tg),
            _ => None,
        };
        if let Some(a) = arg {
            if self.widen > 0 && t.chance(self.widen) {
                let min = cbor::min_width(a);
                let opts: Vec<u8> = [1u8, 2, 4, 8].iter().cloned().filter(|w| *w > min).collect();
                if !opts.is_empty() {
                    n.width = opts[t.choose(opts.len())];
                    self.note("non-minimal-head");
                }
            }
        }
        match &mut n.kind {
            Kind::Array { items, indef } => {
                if self.indef > 0 && t.chance(self.indef) {
                    *indef = !*indef;
                    self.note(if *indef { "indefinite-array" } else { "definite-array" });
                }
                for x in items.iter_mut() {
                    self.apply(x, t);
                }
            }
            Kind::Map { entries, indef } => {
                if self.indef > 0 && t.chance(self.indef) {
                    *indef = !*indef;
                    self.note("indefinite-map");
                }
                if self.rotate_maps > 0 && entries.len() >= 2 && t.chance(self.rotate_maps) {
                    let k = 1 + t.choose(entries.len() - 1);
                    entries.rotate_left(k);
                    self.note("unsorted-map-keys");
                }
                for (k, v) in entries.iter_mut() {
                    self.apply(k, t);
                    self.apply(v, t);
                }
            }
            Kind::Tag(_, inner) => self.apply(inner, t),
            Kind::Bytes { data, chunks } => {
                if self.chunk > 0 && t.chance(self.chunk) {
                    if chunks.is_some() {
                        // different chunking of an already chunked string
                        let c = [1usize, 32, 63, 65, 100][t.choose(5)];
                        let mut cs = Vec::new();
                        let mut rem = data.len();
                        while rem > 0 {
                            let l = c.min(rem);
                            cs.push((l, 0));
                            rem -= l;
                        }
                        *chunks = Some(cs);
                        self.note("odd-chunk-sizes");
                    } else if !data.is_empty() {
                        let half = data.len() / 2;
                        *chunks = Some(vec![(half, 0), (data.len() - half, 0)]);
                        self.note("chunked-bytes");
                    }
                }
            }
            _ => {}
        }
    }
}
