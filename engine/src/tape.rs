//! Choice tape: a byte string decoded into structured choices.
//!
//! Every choice maps the byte 0 to the simplest alternative and is monotone in the byte(s)
//! consumed, so deleting / zeroing tape bytes (what proptest's shrinker and libFuzzer's
//! minimiser do) yields fewer and simpler choices. When the tape runs dry every further choice
//! is 0, so decoding is total and terminates; payload bytes requested from a dry tape are filled
//! from a running counter so that elements of a large collection stay pairwise distinct.

pub struct Tape<'a> {
    data: &'a [u8],
    pos: usize,
    dry_counter: u64,
}

/// Boundary points of the CBOR width classes for unsigned 64-bit quantities.
pub const U64_POINTS: [u64; 14] = [
    0,
    1,
    23,
    24,
    255,
    256,
    65535,
    65536,
    0xFFFF_FFFF,
    0x1_0000_0000,
    0x7FFF_FFFF_FFFF_FFFF,
    0x8000_0000_0000_0000,
    0xFFFF_FFFF_FFFF_FFFE,
    0xFFFF_FFFF_FFFF_FFFF,
];

impl<'a> Tape<'a> {
    pub fn new(data: &'a [u8]) -> Self {
        Tape { data, pos: 0, dry_counter: 0 }
    }

    pub fn is_dry(&self) -> bool {
        self.pos >= self.data.len()
    }

    pub fn consumed(&self) -> usize {
        self.pos
    }

    pub fn remaining(&self) -> usize {
        self.data.len().saturating_sub(self.pos)
    }

    /// next raw byte, 0 when dry
    pub fn byte(&mut self) -> u8 {
        if self.pos < self.data.len() {
            let b = self.data[self.pos];
            self.pos += 1;
            b
        } else {
            0
        }
    }

    /// uniform-ish choice in 0..n (n >= 1), monotone in the consumed byte(s); 0 when dry
    pub fn choose(&mut self, n: usize) -> usize {
        if n <= 1 {
            return 0;
        }
        if n <= 256 {
            (self.byte() as usize * n) >> 8
        } else if n <= 65536 {
            let v = ((self.byte() as usize) << 8) | self.byte() as usize;
            (v * n) >> 16
        } else {
            let v = self.raw_u64();
            ((v as u128 * n as u128) >> 64) as usize
        }
    }

    pub fn bool(&mut self) -> bool {
        self.byte() & 1 == 1
    }

    /// true with probability num/256
    pub fn chance(&mut self, num: u32) -> bool {
        let b = self.byte() as u32;
        // 0 -> false so that a dry tape takes the simple branch
        b != 0 && b <= num
    }

    /// 8 raw bytes big-endian (0 when dry)
    pub fn raw_u64(&mut self) -> u64 {
        let mut v = 0u64;
        for _ in 0..8 {
            v = (v << 8) | self.byte() as u64;
        }
        v
    }

    /// inclusive range, monotone
    pub fn range_u64(&mut self, lo: u64, hi: u64) -> u64 {
        debug_assert!(lo <= hi);
        let span = hi - lo;
        if span == 0 {
            return lo;
        }
        if span < 256 {
            lo + ((self.byte() as u64 * (span + 1)) >> 8)
        } else if span < 65536 {
            let v = ((self.byte() as u64) << 8) | self.byte() as u64;
            lo + ((v * (span + 1)) >> 16)
        } else if span == u64::MAX {
            self.raw_u64()
        } else {
            let v = self.raw_u64();
            lo + ((v as u128 * (span as u128 + 1)) >> 64) as u64
        }
    }

    pub fn range(&mut self, lo: usize, hi: usize) -> usize {
        self.range_u64(lo as u64, hi as u64) as usize
    }

    /// unsigned 64-bit quantity drawn by width class: a boundary point or a value between two
    /// adjacent boundary points. Class 0 is the value 0.
    pub fn u64_class(&mut self) -> u64 {
        let k = self.choose(2 * U64_POINTS.len() - 1);
        if k % 2 == 0 {
            U64_POINTS[k / 2]
        } else {
            let lo = U64_POINTS[k / 2];
            let hi = U64_POINTS[k / 2 + 1];
            if hi - lo <= 1 {
                lo
            } else {
                self.range_u64(lo + 1, hi - 1)
            }
        }
    }

    /// like u64_class but never above `max`
    pub fn u64_class_max(&mut self, max: u64) -> u64 {
        let v = self.u64_class();
        if v <= max {
            v
        } else if max == 0 {
            0
        } else {
            // fold into range keeping boundary flavour: distance below max
            max - (v % (max.min(1 << 20) + 1)).min(max)
        }
    }

    pub fn u32_class(&mut self) -> u32 {
        self.u64_class_max(u32::MAX as u64) as u32
    }

    /// "moderate" amount for things like coin values in scenarios: mostly small classes
    pub fn amount(&mut self, max: u64) -> u64 {
        self.u64_class_max(max)
    }

    /// signed quantity in -2^64 ..= 2^64-1 by width class
    pub fn i128_class(&mut self) -> i128 {
        let neg = self.bool();
        let m = self.u64_class() as i128;
        if neg {
            // -1 - m covers -1 .. -2^64 like CBOR nint
            -1 - m
        } else {
            m
        }
    }

    /// n payload bytes; from the tape while it lasts, then from a running counter
    pub fn bytes(&mut self, n: usize) -> Vec<u8> {
        let mut out = Vec::with_capacity(n);
        let avail = self.remaining().min(n);
        out.extend_from_slice(&self.data[self.pos..self.pos + avail]);
        self.pos += avail;
        if out.len() < n {
            self.dry_counter += 1;
            let c = self.dry_counter;
            let mut i = 0u64;
            while out.len() < n {
                // simple counter-derived filler, distinct per call
                let x = c.wrapping_mul(0x9E37_79B9_7F4A_7C15).wrapping_add(i.wrapping_mul(0xD1B5_4A32_D192_ED03));
                out.push((x >> 32) as u8 ^ (c as u8).wrapping_add(i as u8));
                i += 1;
            }
            // make sure distinct calls differ: stamp counter into the tail
            let l = out.len();
            if l >= 2 && avail + 2 <= l {
                out[l - 1] = c as u8;
                out[l - 2] = (c >> 8) as u8;
            } else if l >= 1 && avail + 1 <= l {
                out[l - 1] = c as u8;
            }
        }
        out
    }

    /// a small hash-like payload picked from a pool of `pool` fixed values (overlaps are common)
    pub fn pooled(&mut self, pool: usize, len: usize, domain: u8) -> Vec<u8> {
        let k = self.choose(pool) as u8;
        pool_bytes(k, len, domain)
    }

    /// collection size from boundary classes, bounded by `max`
    pub fn size(&mut self, max: usize) -> usize {
        const P: [usize; 9] = [0, 1, 2, 3, 5, 23, 24, 25, 40];
        let k = self.choose(P.len());
        P[k].min(max)
    }

    pub fn small_size(&mut self, max: usize) -> usize {
        self.choose(max + 1)
    }

    pub fn rest(&mut self) -> &'a [u8] {
        let r = &self.data[self.pos.min(self.data.len())..];
        self.pos = self.data.len();
        r
    }
}

/// Splits an input tape into a short plan header and the content rest. Decisions that must not
/// starve when the content generator eats the tape (how many operations, which edits) are drawn
/// from the header; a derived pseudo-random tape (pure function of the header) feeds per-node coins.
pub fn split_plan(tape: &[u8], header: usize) -> (&[u8], &[u8]) {
    let h = header.min(tape.len());
    (&tape[..h], &tape[h..])
}

/// `n` pseudo-random bytes that are a pure function of `seed`; an all-zero / empty seed gives zeros,
/// so shrinking the seed shrinks the derived choices to the simplest ones
pub fn expand(seed: &[u8], n: usize) -> Vec<u8> {
    if seed.iter().all(|b| *b == 0) {
        return vec![0; n];
    }
    let mut x = fp64(seed) | 1;
    let mut out = Vec::with_capacity(n);
    for _ in 0..n {
        x ^= x << 13;
        x ^= x >> 7;
        x ^= x << 17;
        out.push((x >> 24) as u8);
    }
    out
}

/// deterministic pool element: `len` bytes derived from (domain, k)
pub fn pool_bytes(k: u8, len: usize, domain: u8) -> Vec<u8> {
    let mut out = Vec::with_capacity(len);
    let mut x = (domain as u64) << 8 | k as u64;
    x = x.wrapping_mul(0x9E37_79B9_7F4A_7C15) ^ 0xA5A5_5A5A_1234_5678;
    for _ in 0..len {
        x ^= x << 13;
        x ^= x >> 7;
        x ^= x << 17;
        out.push((x >> 24) as u8);
    }
    out
}

/// 64-bit fingerprint (FNV-1a with a final avalanche); fixed key, stable across runs
pub fn fp64(data: &[u8]) -> u64 {
    let mut h: u64 = 0xcbf2_9ce4_8422_2325;
    for b in data {
        h ^= *b as u64;
        h = h.wrapping_mul(0x0000_0100_0000_01B3);
    }
    h ^= h >> 33;
    h = h.wrapping_mul(0xff51_afd7_ed55_8ccd);
    h ^= h >> 33;
    h = h.wrapping_mul(0xc4ce_b9fe_1a85_ec53);
    h ^= h >> 33;
    h
}

pub fn fp_mix(a: u64, b: u64) -> u64 {
    let mut buf = [0u8; 16];
    buf[..8].copy_from_slice(&a.to_le_bytes());
    buf[8..].copy_from_slice(&b.to_le_bytes());
    fp64(&buf)
}

#[cfg(test)]
mod tests {
    use super::*;
    #[test]
    fn dry_tape_is_zero() {
        let mut t = Tape::new(&[]);
        assert_eq!(t.choose(10), 0);
        assert_eq!(t.u64_class(), 0);
        assert!(!t.bool());
        let a = t.bytes(28);
        let b = t.bytes(28);
        assert_ne!(a, b);
    }
    #[test]
    fn choose_monotone() {
        for n in 1..300usize {
            let mut last = 0;
            for b in 0..=255u8 {
                let d = [b, 0];
                let mut t = Tape::new(&d);
                let c = t.choose(n);
                assert!(c >= last && c < n);
                last = c;
            }
        }
    }
}
