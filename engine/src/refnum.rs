//! Reference arithmetic helpers (num-bigint / num-rational), independent of the library's types.
use num_bigint::BigInt;
use num_integer::Integer;
use num_traits::{One, Zero};

pub fn big(v: u64) -> BigInt {
    BigInt::from(v)
}

pub fn fits_u64(v: &BigInt) -> Option<u64> {
    use num_traits::ToPrimitive;
    v.to_u64()
}

/// floor(n / d) for d > 0
pub fn floor_div(n: &BigInt, d: &BigInt) -> BigInt {
    n.div_floor(d)
}

/// ceil(n / d) for d > 0
pub fn ceil_div(n: &BigInt, d: &BigInt) -> BigInt {
    let (q, r) = n.div_mod_floor(d);
    if r.is_zero() {
        q
    } else {
        q + BigInt::one()
    }
}

/// Tier-by-tier reference for the Conway reference-script fee, as an exact fraction (num, den):
/// go(acc, p, n) = acc + n*p                      if n < tier
///              = go(acc + tier*p, p*6/5, n-tier)  otherwise
/// computed over the common denominator p_den * 5^k with S_{i+1} = 5*S_i + 6^i.
pub fn ref_script_fee_exact(size: u64, p_num: u64, p_den: u64, tier: u64) -> (BigInt, BigInt) {
    let mut n = size;
    let mut k: u32 = 0;
    // acc_num / 5^k holds sum_{i<k} tier * (6/5)^i  (without the price factor)
    let mut acc = BigInt::zero(); // over 5^k
    let mut pow6 = BigInt::one(); // 6^k
    let mut pow5 = BigInt::one(); // 5^k
    let five = BigInt::from(5);
    let six = BigInt::from(6);
    while n >= tier {
        // acc/5^k + tier*6^k/5^k  -> rescale to 5^(k+1) lazily: keep everything over 5^k and
        // multiply by 5 when k grows
        acc = (&acc + BigInt::from(tier) * &pow6) * &five;
        pow6 = &pow6 * &six;
        pow5 = &pow5 * &five;
        k += 1;
        n -= tier;
    }
    // now acc is over 5^k (because each completed tier was multiplied by 5 once after being added
    // over the previous power). Add the partial tier: n * 6^k / 5^k.
    let total_over_5k = acc + BigInt::from(n) * &pow6;
    let _ = k;
    (BigInt::from(p_num) * total_over_5k, BigInt::from(p_den) * pow5)
}

#[cfg(test)]
mod tests {
    use super::*;
    use num_rational::BigRational;
    #[test]
    fn ref_fee_matches_naive_rational() {
        for &(size, pn, pd) in &[(0u64, 15u64, 1u64), (1, 15, 1), (25599, 15, 1), (25600, 15, 1), (25601, 44, 3), (80000, 15, 1), (204800, 7, 9)] {
            let mut acc = BigRational::zero();
            let mut p = BigRational::new(BigInt::from(pn), BigInt::from(pd));
            let mut n = size;
            while n >= 25600 {
                acc = acc + &p * BigRational::from_integer(BigInt::from(25600));
                p = p * BigRational::new(BigInt::from(6), BigInt::from(5));
                n -= 25600;
            }
            acc = acc + p * BigRational::from_integer(BigInt::from(n));
            let (a, b) = ref_script_fee_exact(size, pn, pd, 25600);
            assert_eq!(BigRational::new(a, b), acc, "size {}", size);
        }
    }
}
