//! Ledger oracle over `cbor.rs` trees of emitted transactions plus the scenario's own model.
//! It never asks the library for a sum, a size or a hash.
#![allow(dead_code)]

use crate::cbor::{self, Kind, Node};
use crate::scenario::{AssetId, Lock, Outcome, Purpose, World};
use cardano_serialization_lib as csl;
use cryptoxide::blake2b::Blake2b;
use num_bigint::BigInt as NBig;
use std::collections::{BTreeMap, BTreeSet};

pub fn blake2b256(data: &[u8]) -> [u8; 32] {
    let mut out = [0u8; 32];
    Blake2b::blake2b(&mut out, data, &[]);
    out
}

pub type Val = (i128, BTreeMap<AssetId, i128>);

pub fn val_add(a: &mut Val, b: &Val, sign: i128) {
    a.0 += sign * b.0;
    for (k, q) in &b.1 {
        *a.1.entry(k.clone()).or_insert(0) += sign * q;
    }
}

pub fn val_is_zero(a: &Val) -> bool {
    a.0 == 0 && a.1.values().all(|q| *q == 0)
}

/// value node: coin / [coin, multiasset]
pub fn value_of(n: &Node) -> Option<Val> {
    match &n.kind {
        Kind::UInt(c) => Some((*c as i128, BTreeMap::new())),
        Kind::Array { items, .. } if items.len() == 2 => {
            let coin = items[0].as_u64()? as i128;
            let mut m = BTreeMap::new();
            for (p, assets) in items[1].as_map()? {
                for (name, q) in assets.as_map()? {
                    *m.entry((p.as_bytes()?.to_vec(), name.as_bytes()?.to_vec())).or_insert(0) += q.as_int()?;
                }
            }
            Some((coin, m))
        }
        _ => None,
    }
}

pub struct OutView<'a> {
    pub node: &'a Node,
    pub address: Vec<u8>,
    pub value: Val,
    pub value_node: &'a Node,
}

pub fn output_view(n: &Node) -> Option<OutView> {
    match &n.kind {
        Kind::Array { items, .. } if items.len() >= 2 => Some(OutView { node: n, address: items[0].as_bytes()?.to_vec(), value: value_of(&items[1])?, value_node: &items[1] }),
        Kind::Map { .. } => {
            let a = n.map_get(0)?;
            let v = n.map_get(1)?;
            Some(OutView { node: n, address: a.as_bytes()?.to_vec(), value: value_of(v)?, value_node: v })
        }
        _ => None,
    }
}

pub struct TxView<'a> {
    pub bytes: &'a [u8],
    pub doc: Node,
}

impl<'a> TxView<'a> {
    pub fn parse(bytes: &'a [u8]) -> Result<TxView<'a>, String> {
        let doc = cbor::parse_document(bytes).map_err(|e| format!("transaction bytes are not well-formed CBOR: {}", e))?;
        match doc.as_array() {
            Some(items) if items.len() == 4 && items[0].as_map().is_some() && items[1].as_map().is_some() => {}
            _ => return Err("transaction is not [body, witness_set, bool, aux]".into()),
        }
        Ok(TxView { bytes, doc })
    }
    pub fn body(&self) -> &Node {
        &self.doc.as_array().unwrap()[0]
    }
    pub fn wits(&self) -> &Node {
        &self.doc.as_array().unwrap()[1]
    }
    pub fn aux(&self) -> &Node {
        &self.doc.as_array().unwrap()[3]
    }
    pub fn slice(&self, n: &Node) -> &[u8] {
        &self.bytes[n.start..n.end]
    }
}

pub fn set_items(n: &Node) -> Vec<&Node> {
    n.untag(258).as_array().map(|a| a.iter().collect()).unwrap_or_default()
}

/// outpoints of a set-typed body field, as canonical outpoint bytes (the library's TransactionInput::to_bytes form)
pub fn outpoints(body: &Node, key: u64, doc: &[u8]) -> Vec<Vec<u8>> {
    body.map_get(key).map(|n| set_items(n).iter().map(|x| doc[x.start..x.end].to_vec()).collect()).unwrap_or_default()
}

pub fn fee_of(body: &Node) -> u128 {
    body.map_get(2).and_then(|n| n.as_u64()).unwrap_or(0) as u128
}

/// Conway deposit / refund table over the body's certificates and proposals
pub fn deposits_and_refunds(body: &Node, key_deposit: u64, pool_deposit: u64) -> (u128, u128) {
    let mut dep = 0u128;
    let mut refund = 0u128;
    if let Some(certs) = body.map_get(4) {
        for c in set_items(certs) {
            let f = match c.as_array() {
                Some(f) if !f.is_empty() => f,
                _ => continue,
            };
            let coin_at = |i: usize| f.get(i).and_then(|n| n.as_u64()).unwrap_or(0) as u128;
            match f[0].as_u64() {
                Some(0) => dep += key_deposit as u128,
                Some(1) => refund += key_deposit as u128,
                Some(3) => dep += pool_deposit as u128,
                Some(7) => dep += coin_at(2),
                Some(8) => refund += coin_at(2),
                Some(11) => dep += coin_at(3),
                Some(12) => dep += coin_at(3),
                Some(13) => dep += coin_at(4),
                Some(16) => dep += coin_at(2),
                Some(17) => refund += coin_at(2),
                _ => {}
            }
        }
    }
    if let Some(props) = body.map_get(20) {
        for p in set_items(props) {
            if let Some(f) = p.as_array() {
                dep += f.first().and_then(|n| n.as_u64()).unwrap_or(0) as u128;
            }
        }
    }
    (dep, refund)
}

/// preservation of value: returns the first imbalance as text
pub fn check_balance(body: &Node, doc: &[u8], w: &World) -> Result<(), String> {
    let mut total: Val = (0, BTreeMap::new());
    for op in outpoints(body, 0, doc) {
        let u = w.utxos.get(&op).ok_or_else(|| format!("input {} is not a UTxO of the scenario", hex::encode(&op)))?;
        let v: Val = (u.coin as i128, u.assets.iter().map(|(k, q)| (k.clone(), *q as i128)).collect());
        val_add(&mut total, &v, 1);
    }
    if let Some(wd) = body.map_get(5).and_then(|n| n.as_map()) {
        for (_, c) in wd {
            total.0 += c.as_u64().unwrap_or(0) as i128;
        }
    }
    let (dep, refund) = deposits_and_refunds(body, w.params.key_deposit, w.params.pool_deposit);
    total.0 += refund as i128;
    total.0 -= dep as i128;
    if let Some(mint) = body.map_get(9).and_then(|n| n.as_map()) {
        for (p, assets) in mint {
            if let Some(a) = assets.as_map() {
                for (name, q) in a {
                    let id = (p.as_bytes().unwrap_or(&[]).to_vec(), name.as_bytes().unwrap_or(&[]).to_vec());
                    *total.1.entry(id).or_insert(0) += q.as_int().unwrap_or(0);
                }
            }
        }
    }
    if let Some(outs) = body.map_get(1).and_then(|n| n.as_array()) {
        for o in outs {
            let ov = output_view(o).ok_or("unreadable output")?;
            val_add(&mut total, &ov.value, -1);
        }
    }
    total.0 -= fee_of(body) as i128;
    total.0 -= body.map_get(22).and_then(|n| n.as_u64()).unwrap_or(0) as i128;
    if total.0 != 0 {
        return Err(format!("lovelace: consumed - produced = {} (fee {}, deposits {}, refunds {})", total.0, fee_of(body), dep, refund));
    }
    for (id, q) in &total.1 {
        if *q != 0 {
            return Err(format!("asset {}.{}: consumed - produced = {}", hex::encode(&id.0[..4]), hex::encode(&id.1), q));
        }
    }
    Ok(())
}

fn cred_key(n: &Node) -> Option<Vec<u8>> {
    let f = n.as_array()?;
    if f.len() == 2 && f[0].as_u64() == Some(0) {
        f[1].as_bytes().map(|b| b.to_vec())
    } else {
        None
    }
}

/// key hashes that must sign (witsVKeyNeeded), and Byron addresses needing a bootstrap witness
pub fn required_witnesses(body: &Node, doc: &[u8], o: &Outcome) -> Result<(BTreeSet<Vec<u8>>, BTreeSet<Vec<u8>>), String> {
    let w = &o.world;
    let mut keys: BTreeSet<Vec<u8>> = BTreeSet::new();
    let mut byron: BTreeSet<Vec<u8>> = BTreeSet::new();
    for field in [0u64, 13] {
        for op in outpoints(body, field, doc) {
            let u = w.utxos.get(&op).ok_or_else(|| format!("outpoint {} unknown", hex::encode(&op)))?;
            match &u.lock {
                Lock::Key(k) => {
                    keys.insert(w.keys[*k].hash_bytes.clone());
                }
                Lock::Byron(i) => {
                    byron.insert(w.byron[*i].1.to_bytes());
                }
                _ => {}
            }
        }
    }
    // certificates
    if let Some(certs) = body.map_get(4) {
        for c in set_items(certs) {
            let f = match c.as_array() {
                Some(f) if !f.is_empty() => f,
                _ => continue,
            };
            let kind = f[0].as_u64().unwrap_or(99);
            match kind {
                0 => {}
                1 | 2 | 7 | 8 | 9 | 10 | 11 | 12 | 13 | 14 | 15 | 16 | 17 | 18 => {
                    if let Some(k) = cred_key(&f[1]) {
                        keys.insert(k);
                    }
                }
                3 => {
                    if let Some(op) = f[1].as_bytes() {
                        keys.insert(op.to_vec());
                    }
                    for owner in set_items(&f[7]) {
                        if let Some(b) = owner.as_bytes() {
                            keys.insert(b.to_vec());
                        }
                    }
                }
                4 => {
                    if let Some(b) = f[1].as_bytes() {
                        keys.insert(b.to_vec());
                    }
                }
                _ => {}
            }
        }
    }
    // withdrawals: key credentials of reward accounts (header bit 4 clear)
    if let Some(wd) = body.map_get(5).and_then(|n| n.as_map()) {
        for (ra, _) in wd {
            if let Some(b) = ra.as_bytes() {
                if b.len() == 29 && b[0] & 0x10 == 0 {
                    keys.insert(b[1..].to_vec());
                }
            }
        }
    }
    // voters: kinds 0 (cc hot key), 2 (drep key), 4 (spo key)
    if let Some(v) = body.map_get(19).and_then(|n| n.as_map()) {
        for (voter, _) in v {
            if let Some(f) = voter.as_array() {
                if matches!(f[0].as_u64(), Some(0) | Some(2) | Some(4)) {
                    if let Some(b) = f[1].as_bytes() {
                        keys.insert(b.to_vec());
                    }
                }
            }
        }
    }
    // explicitly required signers
    if let Some(rs) = body.map_get(14) {
        for k in set_items(rs) {
            if let Some(b) = k.as_bytes() {
                keys.insert(b.to_vec());
            }
        }
    }
    // signers the caller declared on the inputs builder
    for k in &o.declared_signers {
        keys.insert(w.keys[*k].hash_bytes.clone());
    }
    // native scripts: hinted signers, otherwise every key hash in the script
    for it in &o.script_items {
        if !it.plutus {
            let ks = if it.signer_hint.is_empty() {
                crate::scenario::native_script_keys(it.script_index)
            } else if it.signer_hint == [crate::scenario::DECLARED_NO_SIGNERS] {
                Vec::new()
            } else {
                it.signer_hint.clone()
            };
            for k in ks {
                keys.insert(w.keys[k].hash_bytes.clone());
            }
        }
    }
    Ok((keys, byron))
}

/// the transaction really signed by exactly the required set: returns its byte length
pub fn signed_size(view: &TxView, o: &Outcome) -> Result<(usize, usize, usize), String> {
    let body = view.body();
    let (keys, byron) = required_witnesses(body, view.bytes, o)?;
    let body_hash = blake2b256(view.slice(body));
    let mut doc = view.doc.clone();
    let w = &o.world;
    let mut vk_nodes = Vec::new();
    for kh in &keys {
        let key = w.keys.iter().find(|k| &k.hash_bytes == kh);
        let (pk, sig) = match key {
            Some(k) => (k.pk.as_bytes(), k.sk.sign(&body_hash).to_bytes()),
            None => (vec![0u8; 32], vec![0u8; 64]),
        };
        vk_nodes.push(cbor::array(vec![cbor::bytes(&pk), cbor::bytes(&sig)]));
    }
    let mut boot_nodes = Vec::new();
    for addr in &byron {
        let (root, a) = w.byron.iter().find(|(_, a)| &a.to_bytes() == addr).ok_or("byron address without key")?;
        let bw = csl::make_icarus_bootstrap_witness(&csl::TransactionHash::from_bytes(body_hash.to_vec()).unwrap(), a, root);
        boot_nodes.push(cbor::parse_document(&bw.to_bytes()).map_err(|e| e.to_string())?);
    }
    if let Kind::Array { items, .. } = &mut doc.kind {
        if let Kind::Map { entries, .. } = &mut items[1].kind {
            entries.retain(|(k, _)| k.as_u64() != Some(0) && k.as_u64() != Some(2));
            if !vk_nodes.is_empty() {
                entries.insert(0, (cbor::uint(0), cbor::tag(258, cbor::array(vk_nodes))));
            }
            if !boot_nodes.is_empty() {
                entries.push((cbor::uint(2), cbor::tag(258, cbor::array(boot_nodes))));
            }
        }
    }
    // re-encode with canonical heads (the library's own encoding is canonical, checked by C03)
    fn canon(n: &mut Node) {
        n.width = 0;
        match &mut n.kind {
            Kind::Array { items, .. } => items.iter_mut().for_each(canon),
            Kind::Map { entries, .. } => entries.iter_mut().for_each(|(k, v)| {
                canon(k);
                canon(v)
            }),
            Kind::Tag(_, i) => canon(i),
            Kind::Bytes { chunks, .. } | Kind::Text { chunks, .. } => {
                if let Some(cs) = chunks {
                    for c in cs.iter_mut() {
                        c.1 = cbor::min_width(c.0 as u64);
                    }
                }
            }
            _ => {}
        }
    }
    // keep every original node as is (widths are recorded from the parse); only new nodes need widths
    let _ = canon;
    let size = encode_len(&doc);
    Ok((size, keys.len(), byron.len()))
}

fn encode_len(n: &Node) -> usize {
    // original nodes carry their parsed width; nodes built here carry width 0 meaning "minimal"
    cbor::encode(n).len()
}

/// total size of reference scripts over inputs and reference inputs (distinct outpoints)
pub fn ref_scripts_size(body: &Node, doc: &[u8], w: &World) -> usize {
    let mut seen: BTreeSet<Vec<u8>> = BTreeSet::new();
    let mut total = 0;
    for field in [0u64, 18] {
        for op in outpoints(body, field, doc) {
            if !seen.insert(op.clone()) {
                continue;
            }
            if let Some(u) = w.utxos.get(&op) {
                if let Some(sr) = u.script_ref {
                    total += w.script_ref_size(sr);
                }
            }
        }
    }
    total
}

/// ledger minimum fee for a transaction of `size` bytes
pub fn min_fee(view: &TxView, size: usize, o: &Outcome) -> NBig {
    let p = &o.world.params;
    let mut fee = NBig::from(p.fee_a) * NBig::from(size) + NBig::from(p.fee_b);
    // execution units
    let mut mem = NBig::from(0);
    let mut steps = NBig::from(0);
    if let Some(r) = view.wits().map_get(5) {
        let add = |eu: &Node, mem: &mut NBig, steps: &mut NBig| {
            if let Some(f) = eu.as_array() {
                *mem += NBig::from(f[0].as_u64().unwrap_or(0));
                *steps += NBig::from(f[1].as_u64().unwrap_or(0));
            }
        };
        match &r.kind {
            Kind::Map { entries, .. } => {
                for (_, v) in entries {
                    if let Some(f) = v.as_array() {
                        add(&f[1], &mut mem, &mut steps);
                    }
                }
            }
            Kind::Array { items, .. } => {
                for it in items {
                    if let Some(f) = it.as_array() {
                        add(&f[3], &mut mem, &mut steps);
                    }
                }
            }
            _ => {}
        }
    }
    let num = mem * NBig::from(p.mem_price.0) * NBig::from(p.step_price.1) + steps * NBig::from(p.step_price.0) * NBig::from(p.mem_price.1);
    let den = NBig::from(p.mem_price.1) * NBig::from(p.step_price.1);
    fee += crate::refnum::ceil_div(&num, &den);
    if let Some((n, d)) = p.ref_price {
        let rs = ref_scripts_size(view.body(), view.bytes, &o.world) as u64;
        let (a, b) = crate::refnum::ref_script_fee_exact(rs, n, d, 25_600);
        fee += crate::refnum::floor_div(&a, &b);
    }
    fee
}

// ---------------------------------------------------------------------------------------------
// script integrity hash

fn cbor_int(v: i128) -> Vec<u8> {
    cbor::encode(&cbor::int(v))
}

/// language views for the given languages (0 = V1, 1 = V2, 2 = V3) and cost model values
pub fn language_views(langs: &BTreeSet<u8>, models: &BTreeMap<u8, Vec<i128>>) -> Vec<u8> {
    // entries as (key bytes, value bytes), sorted canonically (length first, then bytewise)
    let mut entries: Vec<(Vec<u8>, Vec<u8>)> = Vec::new();
    for l in langs {
        let vals = match models.get(l) {
            Some(v) => v,
            None => continue,
        };
        if *l == 0 {
            // V1: key = bytes(0x00) i.e. 41 00; value = bytes wrapping an indefinite list
            let mut inner = vec![0x9f];
            for v in vals {
                inner.extend(cbor_int(*v));
            }
            inner.push(0xff);
            entries.push((vec![0x41, 0x00], cbor::encode(&cbor::bytes(&inner))));
        } else {
            let items: Vec<Node> = vals.iter().map(|v| cbor::int(*v)).collect();
            entries.push((vec![*l], cbor::encode(&cbor::array(items))));
        }
    }
    entries.sort_by(|a, b| cbor::canonical_key_cmp(&a.0, &b.0));
    let mut out = vec![0xa0 | entries.len() as u8];
    for (k, v) in entries {
        out.extend(k);
        out.extend(v);
    }
    out
}

pub fn script_integrity_hash(view: &TxView, langs: &BTreeSet<u8>, models: &BTreeMap<u8, Vec<i128>>) -> Option<[u8; 32]> {
    let red = view.wits().map_get(5);
    let dat = view.wits().map_get(4);
    let red_empty = red.map(|r| r.as_map().map(|m| m.is_empty()).or(r.as_array().map(|a| a.is_empty())).unwrap_or(true)).unwrap_or(true);
    if red_empty && dat.is_none() {
        return None;
    }
    let mut pre = Vec::new();
    if red_empty {
        pre.push(0xa0);
        if let Some(d) = dat {
            pre.extend_from_slice(view.slice(d));
        }
        pre.push(0xa0);
    } else {
        pre.extend_from_slice(view.slice(red.unwrap()));
        if let Some(d) = dat {
            pre.extend_from_slice(view.slice(d));
        }
        pre.extend(language_views(langs, models));
    }
    Some(blake2b256(&pre))
}

// ---------------------------------------------------------------------------------------------
// redeemer pointers

pub struct Resolved {
    pub tag: u64,
    pub index: u64,
    pub marker: Option<u64>,
    /// candidate targets the pointer designates (several for reward pointers: two candidate orders)
    pub targets: Vec<Vec<u8>>,
}

pub fn redeemer_list(view: &TxView) -> Vec<(u64, u64, Option<u64>)> {
    let mut out = Vec::new();
    if let Some(r) = view.wits().map_get(5) {
        match &r.kind {
            Kind::Map { entries, .. } => {
                for (k, v) in entries {
                    if let (Some(kf), Some(vf)) = (k.as_array(), v.as_array()) {
                        out.push((kf[0].as_u64().unwrap_or(99), kf[1].as_u64().unwrap_or(u64::MAX), vf[0].as_u64()));
                    }
                }
            }
            Kind::Array { items, .. } => {
                for it in items {
                    if let Some(f) = it.as_array() {
                        out.push((f[0].as_u64().unwrap_or(99), f[1].as_u64().unwrap_or(u64::MAX), f[2].as_u64()));
                    }
                }
            }
            _ => {}
        }
    }
    out
}

pub fn resolve(view: &TxView, tag: u64, index: u64) -> Vec<Vec<u8>> {
    let body = view.body();
    let doc = view.bytes;
    let i = index as usize;
    match tag {
        0 => {
            // lexicographically sorted inputs: (tx id bytes, index)
            let mut ins: Vec<(Vec<u8>, u64, Vec<u8>)> = body
                .map_get(0)
                .map(|n| set_items(n).iter().filter_map(|x| x.as_array().map(|f| (f[0].as_bytes().unwrap_or(&[]).to_vec(), f[1].as_u64().unwrap_or(0), doc[x.start..x.end].to_vec()))).collect())
                .unwrap_or_default();
            ins.sort();
            ins.get(i).map(|x| vec![x.2.clone()]).unwrap_or_default()
        }
        1 => {
            let mut pols: Vec<Vec<u8>> = body.map_get(9).and_then(|n| n.as_map()).map(|m| m.iter().filter_map(|(p, _)| p.as_bytes().map(|b| b.to_vec())).collect()).unwrap_or_default();
            pols.sort();
            pols.dedup();
            pols.get(i).map(|x| vec![x.clone()]).unwrap_or_default()
        }
        2 => body.map_get(4).map(|n| set_items(n)).and_then(|c| c.get(i).map(|x| vec![doc[x.start..x.end].to_vec()])).unwrap_or_default(),
        3 => {
            // reward accounts in ledger order; for mixed key/script credentials two candidate total orders are accepted
            let accs: Vec<Vec<u8>> = body.map_get(5).and_then(|n| n.as_map()).map(|m| m.iter().filter_map(|(k, _)| k.as_bytes().map(|b| b.to_vec())).collect()).unwrap_or_default();
            let mut bytewise = accs.clone();
            bytewise.sort();
            // constructor order: network, then script credentials before key credentials, then hash
            let mut ctor = accs.clone();
            ctor.sort_by_key(|a| (a[0] & 0x0f, if a[0] & 0x10 != 0 { 0u8 } else { 1u8 }, a[1..].to_vec()));
            let mut out = Vec::new();
            if let Some(x) = bytewise.get(i) {
                out.push(x.clone());
            }
            if let Some(x) = ctor.get(i) {
                if !out.contains(x) {
                    out.push(x.clone());
                }
            }
            out
        }
        4 => {
            // voters: the voter at that position in any of the plausible orders (only script voters matter)
            let voters: Vec<Vec<u8>> = body.map_get(19).and_then(|n| n.as_map()).map(|m| m.iter().map(|(k, _)| doc[k.start..k.end].to_vec()).collect()).unwrap_or_default();
            let mut sorted = voters.clone();
            sorted.sort();
            let mut out = Vec::new();
            if let Some(x) = voters.get(i) {
                out.push(x.clone());
            }
            if let Some(x) = sorted.get(i) {
                if !out.contains(x) {
                    out.push(x.clone());
                }
            }
            out
        }
        5 => body.map_get(20).map(|n| set_items(n)).and_then(|c| c.get(i).map(|x| vec![doc[x.start..x.end].to_vec()])).unwrap_or_default(),
        _ => vec![],
    }
}

pub fn purpose_tag(p: &Purpose) -> u64 {
    match p {
        Purpose::Spend => 0,
        Purpose::Mint => 1,
        Purpose::Cert => 2,
        Purpose::Reward => 3,
        Purpose::Vote => 4,
        Purpose::Propose => 5,
    }
}
