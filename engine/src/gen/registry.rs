//! Table of the public CBOR-serializable types: generator + every codec entry point, type-erased.

use super::*;
use std::any::Any;

/// uniform view of the entry points the library's macros give a type
pub trait Codec: Sized + Clone + 'static {
    fn enc(&self) -> Vec<u8>;
    fn dec(b: Vec<u8>) -> Result<Self, String>;
    fn enc_hex(&self) -> String;
    fn dec_hex(s: &str) -> Result<Self, String>;
    fn enc_json(&self) -> Option<Result<String, String>> {
        None
    }
    fn dec_json(_s: &str) -> Option<Result<Self, String>> {
        None
    }
    fn same(&self, other: &Self) -> bool;
}

pub trait Val: Any {
    fn to_bytes(&self) -> Vec<u8>;
    fn to_hex(&self) -> String;
    fn to_json(&self) -> Option<Result<String, String>>;
    fn same(&self, other: &dyn Val) -> bool;
    fn as_any(&self) -> &dyn Any;
}

impl<T: Codec> Val for T {
    fn to_bytes(&self) -> Vec<u8> {
        self.enc()
    }
    fn to_hex(&self) -> String {
        self.enc_hex()
    }
    fn to_json(&self) -> Option<Result<String, String>> {
        self.enc_json()
    }
    fn same(&self, other: &dyn Val) -> bool {
        match other.as_any().downcast_ref::<T>() {
            Some(o) => Codec::same(self, o),
            None => false,
        }
    }
    fn as_any(&self) -> &dyn Any {
        self
    }
}

pub struct Entry {
    pub name: &'static str,
    pub make: fn(&mut Gen) -> Box<dyn Val>,
    pub from_bytes: fn(Vec<u8>) -> Result<Box<dyn Val>, String>,
    pub from_hex: fn(&str) -> Result<Box<dyn Val>, String>,
    pub from_json: fn(&str) -> Option<Result<Box<dyn Val>, String>>,
    pub has_json: bool,
    /// schema rule name for the Conway validator ("" = none)
    pub rule: &'static str,
}

impl Entry {
    /// to_bytes is CBOR (hash, signature and address types expose their raw bytes instead)
    pub fn is_cbor(&self) -> bool {
        !matches!(self.rule, "hash28" | "hash32" | "address_raw") && self.name != "Ed25519Signature" && self.name != "KESSignature"
    }
}

fn fb<T: Codec>(b: Vec<u8>) -> Result<Box<dyn Val>, String> {
    T::dec(b).map(|v| Box::new(v) as Box<dyn Val>)
}
fn fh<T: Codec>(s: &str) -> Result<Box<dyn Val>, String> {
    T::dec_hex(s).map(|v| Box::new(v) as Box<dyn Val>)
}
fn fj<T: Codec>(s: &str) -> Option<Result<Box<dyn Val>, String>> {
    T::dec_json(s).map(|r| r.map(|v| Box::new(v) as Box<dyn Val>))
}

macro_rules! codec_full {
    ($($T:ident),* $(,)?) => { $(
        impl Codec for $T {
            fn enc(&self) -> Vec<u8> { self.to_bytes() }
            fn dec(b: Vec<u8>) -> Result<Self, String> { $T::from_bytes(b).map_err(|e| format!("{:?}", e)) }
            fn enc_hex(&self) -> String { self.to_hex() }
            fn dec_hex(s: &str) -> Result<Self, String> { $T::from_hex(s).map_err(|e| format!("{:?}", e)) }
            fn enc_json(&self) -> Option<Result<String, String>> { Some(self.to_json().map_err(|e| format!("{:?}", e))) }
            fn dec_json(s: &str) -> Option<Result<Self, String>> { Some($T::from_json(s).map_err(|e| format!("{:?}", e))) }
            fn same(&self, other: &Self) -> bool { self == other }
        }
    )* };
}
macro_rules! codec_bytes {
    ($($T:ident),* $(,)?) => { $(
        impl Codec for $T {
            fn enc(&self) -> Vec<u8> { self.to_bytes() }
            fn dec(b: Vec<u8>) -> Result<Self, String> { $T::from_bytes(b).map_err(|e| format!("{:?}", e)) }
            fn enc_hex(&self) -> String { self.to_hex() }
            fn dec_hex(s: &str) -> Result<Self, String> { $T::from_hex(s).map_err(|e| format!("{:?}", e)) }
            fn same(&self, other: &Self) -> bool { self == other }
        }
    )* };
}

codec_full!(
    Anchor, AssetName, AssetNames, Assets, BigInt, BigNum, BootstrapWitness, BootstrapWitnesses, Certificate, Certificates,
    Committee, CommitteeColdResign, CommitteeHotAuth, Constitution, CostModel, Costmdls, Credential, Credentials, DNSRecordAorAAAA, DNSRecordSRV,
    DRep, DRepDeregistration, DRepRegistration, DRepUpdate, DRepVotingThresholds, Ed25519KeyHashes, ExUnitPrices, ExUnits,
    GeneralTransactionMetadata, GenesisHashes, GenesisKeyDelegation, GovernanceAction, GovernanceActionId, HardForkInitiationAction, Header,
    HeaderBody, Int, Ipv4, Ipv6, Language, MIRToStakeCredentials, Mint, MoveInstantaneousReward, MoveInstantaneousRewardsCert, MultiAsset,
    MultiHostName, NativeScript, NativeScripts, NetworkId, NewConstitutionAction, NoConfidenceAction, Nonce, OperationalCert,
    ParameterChangeAction, PlutusScripts, PoolMetadata, PoolParams, PoolRegistration, PoolRetirement, PoolVotingThresholds,
    ProposedProtocolParameterUpdates, ProtocolParamUpdate, ProtocolVersion, Redeemer, RedeemerTag, Redeemers, Relay, Relays, RewardAddresses,
    ScriptAll, ScriptAny, ScriptHashes, ScriptNOfK, ScriptPubkey, ScriptRef, SingleHostAddr, SingleHostName, StakeAndVoteDelegation,
    StakeDelegation, StakeDeregistration, StakeRegistration, StakeRegistrationAndDelegation, StakeVoteRegistrationAndDelegation, TimelockExpiry,
    TimelockStart, TransactionInput, TransactionInputs, TransactionOutput, TransactionOutputs,
    TreasuryWithdrawalsAction, URL, UnitInterval, Update,
    UpdateCommitteeAction, VRFCert, Value, Vkey, Vkeywitness, Vkeywitnesses, VoteDelegation, VoteRegistrationAndDelegation, Voter,
    VotingProcedure, VotingProcedures, VotingProposal, VotingProposals, Withdrawals,
);

macro_rules! codec_full_cmp {
    ($($T:ident => $cmp:path),* $(,)?) => { $(
        impl Codec for $T {
            fn enc(&self) -> Vec<u8> { self.to_bytes() }
            fn dec(b: Vec<u8>) -> Result<Self, String> { $T::from_bytes(b).map_err(|e| format!("{:?}", e)) }
            fn enc_hex(&self) -> String { self.to_hex() }
            fn dec_hex(s: &str) -> Result<Self, String> { $T::from_hex(s).map_err(|e| format!("{:?}", e)) }
            fn enc_json(&self) -> Option<Result<String, String>> { Some(self.to_json().map_err(|e| format!("{:?}", e))) }
            fn dec_json(s: &str) -> Option<Result<Self, String>> { Some($T::from_json(s).map_err(|e| format!("{:?}", e))) }
            fn same(&self, other: &Self) -> bool { $cmp(self, other) }
        }
    )* };
}

codec_full_cmp!(
    AuxiliaryData => cmp::aux_eq,
    Block => cmp::block_eq,
    Transaction => cmp::tx_eq,
    TransactionBodies => cmp::bodies_eq,
    TransactionBody => cmp::body_eq,
    TransactionWitnessSet => cmp::wits_eq,
    TransactionWitnessSets => cmp::wit_sets_eq,
    VersionedBlock => cmp::vblock_eq,
);

/// Equality "where an empty optional collection counts as absent": the library's PartialEq on every
/// field, after mapping Some(empty collection) to None for the fields the wire format omits when empty.
pub mod cmp {
    use super::*;
    fn ne<T>(o: Option<T>, len: impl Fn(&T) -> usize) -> Option<T> {
        o.filter(|x| len(x) > 0)
    }
    pub fn body_eq(a: &TransactionBody, b: &TransactionBody) -> bool {
        a.inputs() == b.inputs()
            && a.outputs() == b.outputs()
            && a.fee() == b.fee()
            && a.ttl_bignum() == b.ttl_bignum()
            && ne(a.certs(), |c| c.len()) == ne(b.certs(), |c| c.len())
            && ne(a.withdrawals(), |c| c.len()) == ne(b.withdrawals(), |c| c.len())
            && a.update() == b.update()
            && a.auxiliary_data_hash() == b.auxiliary_data_hash()
            && a.validity_start_interval_bignum() == b.validity_start_interval_bignum()
            && ne(a.mint(), |c| c.len()) == ne(b.mint(), |c| c.len())
            && a.script_data_hash() == b.script_data_hash()
            && ne(a.collateral(), |c| c.len()) == ne(b.collateral(), |c| c.len())
            && ne(a.required_signers(), |c| c.len()) == ne(b.required_signers(), |c| c.len())
            && a.network_id() == b.network_id()
            && a.collateral_return() == b.collateral_return()
            && a.total_collateral() == b.total_collateral()
            && ne(a.reference_inputs(), |c| c.len()) == ne(b.reference_inputs(), |c| c.len())
            && ne(a.voting_procedures(), |c| c.get_voters().len()) == ne(b.voting_procedures(), |c| c.get_voters().len())
            && ne(a.voting_proposals(), |c| c.len()) == ne(b.voting_proposals(), |c| c.len())
            && a.donation() == b.donation()
            && a.current_treasury_value() == b.current_treasury_value()
    }
    pub fn wits_eq(a: &TransactionWitnessSet, b: &TransactionWitnessSet) -> bool {
        ne(a.vkeys(), |c| c.len()) == ne(b.vkeys(), |c| c.len())
            && ne(a.native_scripts(), |c| c.len()) == ne(b.native_scripts(), |c| c.len())
            && ne(a.bootstraps(), |c| c.len()) == ne(b.bootstraps(), |c| c.len())
            && ne(a.plutus_scripts(), |c| c.len()) == ne(b.plutus_scripts(), |c| c.len())
            && ne(a.plutus_data(), |c| c.len()) == ne(b.plutus_data(), |c| c.len())
            && ne(a.redeemers(), |c| c.len()) == ne(b.redeemers(), |c| c.len())
    }
    pub fn aux_eq(a: &AuxiliaryData, b: &AuxiliaryData) -> bool {
        ne(a.metadata(), |c| c.len()) == ne(b.metadata(), |c| c.len())
            && ne(a.native_scripts(), |c| c.len()) == ne(b.native_scripts(), |c| c.len())
            && ne(a.plutus_scripts(), |c| c.len()) == ne(b.plutus_scripts(), |c| c.len())
    }
    pub fn opt_aux_eq(a: &Option<AuxiliaryData>, b: &Option<AuxiliaryData>) -> bool {
        match (a, b) {
            (None, None) => true,
            (Some(x), Some(y)) => aux_eq(x, y),
            _ => false,
        }
    }
    pub fn tx_eq(a: &Transaction, b: &Transaction) -> bool {
        body_eq(&a.body(), &b.body()) && wits_eq(&a.witness_set(), &b.witness_set()) && a.is_valid() == b.is_valid() && opt_aux_eq(&a.auxiliary_data(), &b.auxiliary_data())
    }
    pub fn bodies_eq(a: &TransactionBodies, b: &TransactionBodies) -> bool {
        a.len() == b.len() && (0..a.len()).all(|i| body_eq(&a.get(i), &b.get(i)))
    }
    pub fn wit_sets_eq(a: &TransactionWitnessSets, b: &TransactionWitnessSets) -> bool {
        a.len() == b.len() && (0..a.len()).all(|i| wits_eq(&a.get(i), &b.get(i)))
    }
    pub fn block_eq(a: &Block, b: &Block) -> bool {
        a.header() == b.header()
            && bodies_eq(&a.transaction_bodies(), &b.transaction_bodies())
            && wit_sets_eq(&a.transaction_witness_sets(), &b.transaction_witness_sets())
            && a.auxiliary_data_set().indices() == b.auxiliary_data_set().indices()
            && a.auxiliary_data_set().indices().iter().all(|i| opt_aux_eq(&a.auxiliary_data_set().get(*i), &b.auxiliary_data_set().get(*i)))
            && a.invalid_transactions() == b.invalid_transactions()
    }
    pub fn vblock_eq(a: &VersionedBlock, b: &VersionedBlock) -> bool {
        a.era() == b.era() && block_eq(&a.block(), &b.block())
    }
}

codec_bytes!(ConstrPlutusData, MetadataList, MetadataMap, PlutusList, PlutusMap, TransactionMetadatum, TransactionMetadatumLabels);

// types whose codec deviates from the macros ------------------------------------------------

impl Codec for PlutusData {
    fn enc(&self) -> Vec<u8> {
        self.to_bytes()
    }
    fn dec(b: Vec<u8>) -> Result<Self, String> {
        PlutusData::from_bytes(b).map_err(|e| format!("{:?}", e))
    }
    fn enc_hex(&self) -> String {
        self.to_hex()
    }
    fn dec_hex(s: &str) -> Result<Self, String> {
        PlutusData::from_hex(s).map_err(|e| format!("{:?}", e))
    }
    fn same(&self, other: &Self) -> bool {
        self == other
    }
}

impl Codec for TransactionUnspentOutput {
    fn enc(&self) -> Vec<u8> {
        self.to_bytes()
    }
    fn dec(b: Vec<u8>) -> Result<Self, String> {
        TransactionUnspentOutput::from_bytes(b).map_err(|e| format!("{:?}", e))
    }
    fn enc_hex(&self) -> String {
        self.to_hex()
    }
    fn dec_hex(s: &str) -> Result<Self, String> {
        TransactionUnspentOutput::from_hex(s).map_err(|e| format!("{:?}", e))
    }
    fn enc_json(&self) -> Option<Result<String, String>> {
        Some(self.to_json().map_err(|e| format!("{:?}", e)))
    }
    fn dec_json(s: &str) -> Option<Result<Self, String>> {
        Some(TransactionUnspentOutput::from_json(s).map_err(|e| format!("{:?}", e)))
    }
    fn same(&self, other: &Self) -> bool {
        // no PartialEq on this type: equality of all public getters
        self.input() == other.input() && self.output() == other.output()
    }
}

/// a stand-alone Plutus script: the bytes carry no language, it is supplied out of band
#[derive(Clone)]
pub struct VersionedScript(pub PlutusScript);
impl Codec for VersionedScript {
    fn enc(&self) -> Vec<u8> {
        self.0.to_bytes()
    }
    fn dec(b: Vec<u8>) -> Result<Self, String> {
        // decoded as V1 here; C01 re-decodes with the original language (see props/c01.rs)
        PlutusScript::from_bytes(b).map(VersionedScript).map_err(|e| format!("{:?}", e))
    }
    fn enc_hex(&self) -> String {
        self.0.to_hex()
    }
    fn dec_hex(s: &str) -> Result<Self, String> {
        PlutusScript::from_hex(s).map(VersionedScript).map_err(|e| format!("{:?}", e))
    }
    fn same(&self, other: &Self) -> bool {
        self.0.bytes() == other.0.bytes()
    }
}

impl Codec for Address {
    fn enc(&self) -> Vec<u8> {
        self.to_bytes()
    }
    fn dec(b: Vec<u8>) -> Result<Self, String> {
        Address::from_bytes(b).map_err(|e| format!("{:?}", e))
    }
    fn enc_hex(&self) -> String {
        self.to_hex()
    }
    fn dec_hex(s: &str) -> Result<Self, String> {
        Address::from_hex(s).map_err(|e| format!("{:?}", e))
    }
    fn enc_json(&self) -> Option<Result<String, String>> {
        Some(self.to_json().map_err(|e| format!("{:?}", e)))
    }
    fn dec_json(s: &str) -> Option<Result<Self, String>> {
        Some(Address::from_json(s).map_err(|e| format!("{:?}", e)))
    }
    fn same(&self, other: &Self) -> bool {
        self == other
    }
}

macro_rules! codec_hash {
    ($($T:ident),* $(,)?) => { $(
        impl Codec for $T {
            fn enc(&self) -> Vec<u8> { self.to_bytes() }
            fn dec(b: Vec<u8>) -> Result<Self, String> { $T::from_bytes(b).map_err(|e| format!("{:?}", e)) }
            fn enc_hex(&self) -> String { self.to_hex() }
            fn dec_hex(s: &str) -> Result<Self, String> { $T::from_hex(s).map_err(|e| format!("{:?}", e)) }
            fn same(&self, other: &Self) -> bool { self == other }
        }
    )* };
}
codec_hash!(
    AnchorDataHash, AuxiliaryDataHash, BlockHash, DataHash, Ed25519KeyHash, GenesisDelegateHash, GenesisHash, KESVKey, PoolMetadataHash,
    ScriptDataHash, ScriptHash, TransactionHash, VRFKeyHash, VRFVKey, Ed25519Signature,
);

impl Codec for KESSignature {
    fn enc(&self) -> Vec<u8> {
        self.to_bytes()
    }
    fn dec(b: Vec<u8>) -> Result<Self, String> {
        KESSignature::from_bytes(b).map_err(|e| format!("{:?}", e))
    }
    fn enc_hex(&self) -> String {
        hex::encode(self.to_bytes())
    }
    fn dec_hex(s: &str) -> Result<Self, String> {
        hex::decode(s).map_err(|e| e.to_string()).and_then(|b| KESSignature::from_bytes(b).map_err(|e| format!("{:?}", e)))
    }
    fn same(&self, other: &Self) -> bool {
        self == other
    }
}

macro_rules! e {
    ($T:ty, $g:expr, $rule:expr) => {{
        fn mk(g: &mut Gen) -> Box<dyn Val> {
            let f: fn(&mut Gen) -> $T = $g;
            Box::new(f(g))
        }
        let probe: Option<Result<Box<dyn Val>, String>> = fj::<$T>("");
        Entry { name: stringify!($T), make: mk, from_bytes: fb::<$T>, from_hex: fh::<$T>, from_json: fj::<$T>, has_json: probe.is_some(), rule: $rule }
    }};
}

pub fn entries() -> Vec<Entry> {
    vec![
        e!(Anchor, anchor, "anchor"),
        e!(AssetName, asset_name, "asset_name"),
        e!(AssetNames, asset_names, ""),
        e!(Assets, assets, "assets"),
        e!(AuxiliaryData, auxiliary_data, "auxiliary_data"),
        e!(BigInt, big_int, "big_int"),
        e!(BigNum, big_num, "uint"),
        e!(Block, block, ""),
        e!(BootstrapWitness, bootstrap_witness, "bootstrap_witness"),
        e!(BootstrapWitnesses, bootstrap_witnesses, "bootstrap_witnesses"),
        e!(Certificate, certificate, "certificate"),
        e!(Certificates, certificates, "certificates"),
        e!(Committee, committee, ""),
        e!(CommitteeColdResign, |g| certificate_kind(g, 8).as_committee_cold_resign().unwrap(), "certificate_fields"),
        e!(CommitteeHotAuth, |g| certificate_kind(g, 7).as_committee_hot_auth().unwrap(), "certificate_fields"),
        e!(Constitution, constitution, "constitution"),
        e!(CostModel, cost_model, "cost_model"),
        e!(Costmdls, costmdls, "cost_models"),
        e!(Credential, credential, "credential"),
        e!(Credentials, credentials, "credentials"),
        e!(DNSRecordAorAAAA, dns_a, "dns_name"),
        e!(DNSRecordSRV, dns_srv, "dns_name"),
        e!(DRep, drep, "drep"),
        e!(DRepDeregistration, |g| certificate_kind(g, 9).as_drep_deregistration().unwrap(), "certificate_fields"),
        e!(DRepRegistration, |g| certificate_kind(g, 10).as_drep_registration().unwrap(), "certificate_fields"),
        e!(DRepUpdate, |g| certificate_kind(g, 11).as_drep_update().unwrap(), "certificate_fields"),
        e!(DRepVotingThresholds, drep_voting_thresholds, "drep_voting_thresholds"),
        e!(Ed25519KeyHashes, key_hashes, "key_hashes"),
        e!(ExUnitPrices, ex_unit_prices, "ex_unit_prices"),
        e!(ExUnits, ex_units, "ex_units"),
        e!(GeneralTransactionMetadata, general_metadata, "metadata"),
        e!(GenesisHashes, genesis_hashes, ""),
        e!(GenesisKeyDelegation, |g| certificate_kind(g, 5).as_genesis_key_delegation().unwrap(), "certificate_fields"),
        e!(GovernanceAction, governance_action, "gov_action"),
        e!(GovernanceActionId, gov_action_id, "gov_action_id"),
        e!(HardForkInitiationAction, |g| governance_action_kind(g, 1).as_hard_fork_initiation_action().unwrap(), "gov_action_fields"),
        e!(Header, header, ""),
        e!(HeaderBody, header_body, ""),
        e!(Int, int, "int"),
        e!(Ipv4, ipv4, "ipv4"),
        e!(Ipv6, ipv6, "ipv6"),
        e!(Language, language, "language"),
        e!(MIRToStakeCredentials, mir_to_stake_credentials, ""),
        e!(Mint, mint, "mint"),
        e!(MoveInstantaneousReward, mir, "mir"),
        e!(MoveInstantaneousRewardsCert, |g| certificate_kind(g, 6).as_move_instantaneous_rewards_cert().unwrap(), "certificate_fields"),
        e!(MultiAsset, multi_asset, "multiasset"),
        e!(MultiHostName, |g| MultiHostName::new(&dns_srv(g)), "relay_fields"),
        e!(NativeScript, native_script, "native_script"),
        e!(NativeScripts, native_scripts, "native_scripts"),
        e!(NetworkId, network_id, "network_id"),
        e!(NewConstitutionAction, |g| governance_action_kind(g, 5).as_new_constitution_action().unwrap(), "gov_action_fields"),
        e!(NoConfidenceAction, |g| governance_action_kind(g, 3).as_no_confidence_action().unwrap(), "gov_action_fields"),
        e!(Nonce, nonce, ""),
        e!(OperationalCert, operational_cert, ""),
        e!(ParameterChangeAction, |g| governance_action_kind(g, 0).as_parameter_change_action().unwrap(), "gov_action_fields"),
        e!(PlutusScripts, plutus_scripts_v1, "plutus_scripts"),
        e!(PoolMetadata, pool_metadata, "pool_metadata"),
        e!(PoolParams, pool_params, "pool_params"),
        e!(PoolRegistration, |g| PoolRegistration::new(&pool_params(g)), "certificate_fields"),
        e!(PoolRetirement, |g| certificate_kind(g, 4).as_pool_retirement().unwrap(), "certificate_fields"),
        e!(PoolVotingThresholds, pool_voting_thresholds, "pool_voting_thresholds"),
        e!(ProposedProtocolParameterUpdates, proposed_updates, ""),
        e!(ProtocolParamUpdate, protocol_param_update, "protocol_param_update"),
        e!(ProtocolVersion, protocol_version, "protocol_version"),
        e!(Redeemer, redeemer, "redeemer"),
        e!(RedeemerTag, redeemer_tag, "redeemer_tag"),
        e!(Redeemers, redeemers, "redeemers"),
        e!(Relay, relay, "relay"),
        e!(Relays, relays, "relays"),
        e!(RewardAddresses, reward_addresses, ""),
        e!(ScriptAll, |g| ScriptAll::new(&native_scripts(g)), "native_script_fields"),
        e!(ScriptAny, |g| ScriptAny::new(&native_scripts(g)), "native_script_fields"),
        e!(ScriptHashes, script_hashes, ""),
        e!(ScriptNOfK, |g| ScriptNOfK::new(g.u32(), &native_scripts(g)), "native_script_fields"),
        e!(ScriptPubkey, |g| ScriptPubkey::new(&key_hash(g)), "native_script_fields"),
        e!(ScriptRef, script_ref, "script_ref"),
        e!(SingleHostAddr, |g| relay_kind(g, 0).as_single_host_addr().unwrap(), "relay_fields"),
        e!(SingleHostName, |g| relay_kind(g, 1).as_single_host_name().unwrap(), "relay_fields"),
        e!(StakeAndVoteDelegation, |g| certificate_kind(g, 12).as_stake_and_vote_delegation().unwrap(), "certificate_fields"),
        e!(StakeDelegation, |g| certificate_kind(g, 2).as_stake_delegation().unwrap(), "certificate_fields"),
        e!(StakeDeregistration, |g| certificate_kind(g, 1).as_stake_deregistration().unwrap(), "certificate_fields"),
        e!(StakeRegistration, |g| certificate_kind(g, 0).as_stake_registration().unwrap(), "certificate_fields"),
        e!(StakeRegistrationAndDelegation, |g| certificate_kind(g, 13).as_stake_registration_and_delegation().unwrap(), "certificate_fields"),
        e!(StakeVoteRegistrationAndDelegation, |g| certificate_kind(g, 14).as_stake_vote_registration_and_delegation().unwrap(), "certificate_fields"),
        e!(TimelockExpiry, |g| TimelockExpiry::new_timelockexpiry(&g.coin()), "native_script_fields"),
        e!(TimelockStart, |g| TimelockStart::new_timelockstart(&g.coin()), "native_script_fields"),
        e!(Transaction, transaction, "transaction"),
        e!(TransactionBodies, tx_bodies, ""),
        e!(TransactionBody, tx_body, "transaction_body"),
        e!(TransactionInput, tx_input, "transaction_input"),
        e!(TransactionInputs, tx_inputs, "transaction_inputs"),
        e!(TransactionOutput, tx_output, "transaction_output"),
        e!(TransactionOutputs, tx_outputs, "transaction_outputs"),
        e!(TransactionUnspentOutput, utxo, "utxo"),
        e!(TransactionWitnessSet, witness_set, "transaction_witness_set"),
        e!(TransactionWitnessSets, witness_sets, ""),
        e!(TreasuryWithdrawalsAction, |g| governance_action_kind(g, 2).as_treasury_withdrawals_action().unwrap(), "gov_action_fields"),
        e!(URL, url, "url"),
        e!(UnitInterval, unit_interval, "unit_interval"),
        e!(Update, update, "update"),
        e!(UpdateCommitteeAction, |g| governance_action_kind(g, 4).as_new_committee_action().unwrap(), "gov_action_fields"),
        e!(VRFCert, vrf_cert, ""),
        e!(Value, value, "value"),
        e!(VersionedBlock, versioned_block, ""),
        e!(Vkey, vkey, "vkey"),
        e!(Vkeywitness, vkeywitness, "vkeywitness"),
        e!(Vkeywitnesses, vkeywitnesses, "vkeywitnesses"),
        e!(VoteDelegation, |g| certificate_kind(g, 15).as_vote_delegation().unwrap(), "certificate_fields"),
        e!(VoteRegistrationAndDelegation, |g| certificate_kind(g, 16).as_vote_registration_and_delegation().unwrap(), "certificate_fields"),
        e!(Voter, voter, "voter"),
        e!(VotingProcedure, voting_procedure, "voting_procedure"),
        e!(VotingProcedures, voting_procedures, "voting_procedures"),
        e!(VotingProposal, voting_proposal, "proposal_procedure"),
        e!(VotingProposals, voting_proposals, "proposal_procedures"),
        e!(Withdrawals, withdrawals, "withdrawals"),
        e!(ConstrPlutusData, constr_plutus_data, "plutus_data"),
        e!(MetadataList, metadata_list, "metadatum_list"),
        e!(MetadataMap, metadata_map, "metadatum_map"),
        e!(PlutusList, plutus_list, "plutus_list"),
        e!(PlutusMap, plutus_map, "plutus_data"),
        e!(TransactionMetadatum, metadatum, "metadatum"),
        e!(TransactionMetadatumLabels, metadatum_labels, ""),
        e!(PlutusData, plutus_data, "plutus_data"),
        e!(VersionedScript, |g| VersionedScript(plutus_script(g)), "bytes"),
        e!(Address, address, "address_raw"),
        e!(AnchorDataHash, anchor_data_hash, "hash32"),
        e!(AuxiliaryDataHash, aux_data_hash, "hash32"),
        e!(BlockHash, block_hash, "hash32"),
        e!(DataHash, data_hash, "hash32"),
        e!(Ed25519KeyHash, key_hash, "hash28"),
        e!(GenesisDelegateHash, genesis_delegate_hash, "hash28"),
        e!(GenesisHash, genesis_hash, "hash28"),
        e!(KESVKey, kes_vkey, "hash32"),
        e!(PoolMetadataHash, pool_metadata_hash, "hash32"),
        e!(ScriptDataHash, script_data_hash, "hash32"),
        e!(ScriptHash, script_hash, "hash28"),
        e!(TransactionHash, tx_hash, "hash32"),
        e!(VRFKeyHash, vrf_key_hash, "hash32"),
        e!(VRFVKey, vrf_vkey, "hash32"),
        e!(Ed25519Signature, ed_signature, ""),
        e!(KESSignature, kes_signature, ""),
    ]
}

pub fn relay_kind(g: &mut Gen, k: usize) -> Relay {
    loop {
        let r = relay(g);
        let kind = match r.kind() {
            RelayKind::SingleHostAddr => 0,
            RelayKind::SingleHostName => 1,
            RelayKind::MultiHostName => 2,
        };
        if kind == k {
            return r;
        }
        if g.t.is_dry() {
            // a dry tape generates kind 0; build the requested kind directly
            return match k {
                0 => Relay::new_single_host_addr(&SingleHostAddr::new(None, None, None)),
                1 => Relay::new_single_host_name(&SingleHostName::new(None, &dns_a(g))),
                _ => Relay::new_multi_host_name(&MultiHostName::new(&dns_srv(g))),
            };
        }
    }
}
