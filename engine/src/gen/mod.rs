//! Tape-driven constructors of CSL values through the public API only.
#![allow(dead_code)]

use crate::tape::*;
use cardano_serialization_lib as csl;
use csl::*;

pub mod registry;

pub struct Gen<'a> {
    pub t: Tape<'a>,
    /// remaining nesting budget for recursive types
    pub depth: u32,
    /// largest collection size
    pub max_coll: usize,
    /// fill map-typed parts in ascending key order (JSON round-trip class)
    pub ascending: bool,
    /// stay inside the CDDL value ranges where the API parameter type is wider (C03)
    pub cddl_ranges: bool,
    /// whether any optional field was set / non-empty collection / integer outside 0..23
    pub interesting: bool,
}

impl<'a> Gen<'a> {
    pub fn new(tape: &'a [u8], depth: u32, max_coll: usize) -> Gen<'a> {
        Gen { t: Tape::new(tape), depth, max_coll, ascending: false, cddl_ranges: false, interesting: false }
    }
    pub fn opt(&mut self) -> bool {
        let b = self.t.bool();
        if b {
            self.interesting = true;
        }
        b
    }
    pub fn coll(&mut self) -> usize {
        let n = self.t.size(self.max_coll);
        if n > 0 {
            self.interesting = true;
        }
        n
    }
    pub fn small(&mut self, max: usize) -> usize {
        let n = self.t.small_size(max.min(self.max_coll));
        if n > 0 {
            self.interesting = true;
        }
        n
    }
    pub fn u64(&mut self) -> u64 {
        let v = self.t.u64_class();
        if v > 23 {
            self.interesting = true;
        }
        v
    }
    pub fn u32(&mut self) -> u32 {
        let v = self.t.u32_class();
        if v > 23 {
            self.interesting = true;
        }
        v
    }
    /// u32 API parameter that is `uint .size 2` in the CDDL
    pub fn u16ish(&mut self) -> u32 {
        if self.cddl_ranges {
            self.t.u64_class_max(65535) as u32
        } else {
            self.u32()
        }
    }
    pub fn coin(&mut self) -> BigNum {
        BigNum::from(self.u64())
    }
    /// hash-like payload: mostly from a small pool (overlaps), sometimes free bytes
    pub fn hash_bytes(&mut self, len: usize, domain: u8) -> Vec<u8> {
        if self.t.chance(200) {
            self.t.pooled(6, len, domain)
        } else {
            self.t.bytes(len)
        }
    }
    pub fn descend(&mut self) -> bool {
        if self.depth == 0 {
            false
        } else {
            self.depth -= 1;
            true
        }
    }
    pub fn ascend(&mut self) {
        self.depth += 1;
    }
}

pub fn bn(v: u64) -> BigNum {
    BigNum::from(v)
}

// ------------------------------------------------------------------------------------------
// hashes and keys

macro_rules! hash_gen {
    ($fname:ident, $T:ident, $len:expr, $dom:expr) => {
        pub fn $fname(g: &mut Gen) -> $T {
            $T::from_bytes(g.hash_bytes($len, $dom)).expect("hash length")
        }
    };
}
hash_gen!(key_hash, Ed25519KeyHash, 28, 1);
hash_gen!(script_hash, ScriptHash, 28, 2);
hash_gen!(anchor_data_hash, AnchorDataHash, 32, 3);
hash_gen!(tx_hash, TransactionHash, 32, 4);
hash_gen!(genesis_delegate_hash, GenesisDelegateHash, 28, 5);
hash_gen!(genesis_hash, GenesisHash, 28, 6);
hash_gen!(aux_data_hash, AuxiliaryDataHash, 32, 7);
hash_gen!(pool_metadata_hash, PoolMetadataHash, 32, 8);
hash_gen!(vrf_key_hash, VRFKeyHash, 32, 9);
hash_gen!(block_hash, BlockHash, 32, 10);
hash_gen!(data_hash, DataHash, 32, 11);
hash_gen!(script_data_hash, ScriptDataHash, 32, 12);
hash_gen!(vrf_vkey, VRFVKey, 32, 13);
hash_gen!(kes_vkey, KESVKey, 32, 14);

pub fn kes_signature(g: &mut Gen) -> KESSignature {
    KESSignature::from_bytes(g.t.bytes(448)).expect("kes len")
}
pub fn ed_signature(g: &mut Gen) -> Ed25519Signature {
    Ed25519Signature::from_bytes(g.hash_bytes(64, 15)).expect("sig len")
}
pub fn public_key(g: &mut Gen) -> PublicKey {
    PublicKey::from_bytes(&g.hash_bytes(32, 16)).expect("pk len")
}
pub fn vkey(g: &mut Gen) -> Vkey {
    Vkey::new(&public_key(g))
}
pub fn nonce(g: &mut Gen) -> Nonce {
    if g.opt() {
        Nonce::new_from_hash(g.t.bytes(32)).expect("nonce len")
    } else {
        Nonce::new_identity()
    }
}
pub fn vrf_cert(g: &mut Gen) -> VRFCert {
    let n = [0usize, 1, 32, 64, 65][g.t.choose(5)];
    VRFCert::new(g.t.bytes(n), g.t.bytes(80)).expect("vrf proof len")
}

// ------------------------------------------------------------------------------------------
// numbers

pub fn big_num(g: &mut Gen) -> BigNum {
    g.coin()
}
pub fn int(g: &mut Gen) -> Int {
    let v = g.t.i128_class();
    if v > 23 || v < -24 {
        g.interesting = true;
    }
    if v >= 0 {
        Int::new(&bn(v as u64))
    } else if v >= -(u64::MAX as i128) {
        Int::new_negative(&bn((-v) as u64))
    } else {
        Int::new_negative(&bn(u64::MAX))
    }
}
/// Int restricted to int64 (mint quantities under CDDL ranges), never zero when `nonzero`
pub fn int64(g: &mut Gen, nonzero: bool) -> Int {
    let v = g.t.i128_class().clamp(i64::MIN as i128, i64::MAX as i128);
    let v = if nonzero && v == 0 { 1 } else { v };
    if v > 23 || v < -24 {
        g.interesting = true;
    }
    if v >= 0 {
        Int::new(&bn(v as u64))
    } else {
        Int::new_negative(&bn((-v) as u64))
    }
}
pub fn big_int(g: &mut Gen) -> BigInt {
    g.interesting = true;
    match g.t.choose(4) {
        0 => BigInt::from_str(&g.t.i128_class().to_string()).unwrap(),
        1 => {
            let n = [8usize, 9, 63, 64, 65, 128, 129][g.t.choose(7)];
            let b = g.t.bytes(n);
            let v = num_bigint::BigInt::from_bytes_be(if g.t.bool() { num_bigint::Sign::Minus } else { num_bigint::Sign::Plus }, &b);
            BigInt::from_str(&v.to_string()).unwrap()
        }
        2 => {
            let n = g.t.range(1, 200);
            let b = g.t.bytes(n);
            let v = num_bigint::BigInt::from_bytes_be(if g.t.bool() { num_bigint::Sign::Minus } else { num_bigint::Sign::Plus }, &b);
            BigInt::from_str(&v.to_string()).unwrap()
        }
        _ => BigInt::from_str(&(g.t.range_u64(0, 30) as i64 - 10).to_string()).unwrap(),
    }
}
pub fn unit_interval(g: &mut Gen) -> UnitInterval {
    if g.cddl_ranges {
        let d = g.u64().max(1);
        let n = g.t.range_u64(0, d);
        UnitInterval::new(&bn(n), &bn(d))
    } else {
        UnitInterval::new(&g.coin(), &g.coin())
    }
}
pub fn ex_units(g: &mut Gen) -> ExUnits {
    ExUnits::new(&g.coin(), &g.coin())
}
pub fn ex_unit_prices(g: &mut Gen) -> ExUnitPrices {
    ExUnitPrices::new(&unit_interval(g), &unit_interval(g))
}
pub fn protocol_version(g: &mut Gen) -> ProtocolVersion {
    ProtocolVersion::new(g.u32(), g.u32())
}
pub fn network_id(g: &mut Gen) -> NetworkId {
    if g.t.bool() {
        NetworkId::mainnet()
    } else {
        NetworkId::testnet()
    }
}
pub fn language(g: &mut Gen) -> Language {
    match g.t.choose(3) {
        0 => Language::new_plutus_v1(),
        1 => Language::new_plutus_v2(),
        _ => Language::new_plutus_v3(),
    }
}

// ------------------------------------------------------------------------------------------
// credentials, addresses

pub fn credential(g: &mut Gen) -> Credential {
    if g.t.bool() {
        Credential::from_scripthash(&script_hash(g))
    } else {
        Credential::from_keyhash(&key_hash(g))
    }
}
pub fn credentials(g: &mut Gen) -> Credentials {
    let mut c = Credentials::new();
    for _ in 0..g.coll() {
        c.add(&credential(g));
    }
    c
}
pub fn key_hashes(g: &mut Gen) -> Ed25519KeyHashes {
    let mut c = Ed25519KeyHashes::new();
    for _ in 0..g.coll() {
        c.add(&key_hash(g));
    }
    c
}
pub fn network_nibble(g: &mut Gen) -> u8 {
    match g.t.choose(4) {
        0 => 0,
        1 => 1,
        _ => g.t.choose(16) as u8,
    }
}
pub fn pointer(g: &mut Gen) -> Pointer {
    if g.t.bool() {
        Pointer::new(g.u32(), g.u32(), g.u32())
    } else {
        Pointer::new_pointer(&g.coin(), &g.coin(), &g.coin())
    }
}
pub fn bip32_public(g: &mut Gen) -> Bip32PublicKey {
    Bip32PublicKey::from_bytes(&g.hash_bytes(64, 17)).expect("xpub len")
}
pub fn byron_address(g: &mut Gen) -> ByronAddress {
    let magic = match g.t.choose(5) {
        0 => NetworkInfo::mainnet().protocol_magic(),
        1 => NetworkInfo::testnet_preprod().protocol_magic(),
        2 => NetworkInfo::testnet_preview().protocol_magic(),
        _ => {
            if g.ascending {
                // values with a JSON form (to_json needs a known network)
                NetworkInfo::mainnet().protocol_magic()
            } else {
                g.u32()
            }
        }
    };
    ByronAddress::icarus_from_key(&bip32_public(g), magic)
}
pub fn reward_address(g: &mut Gen) -> RewardAddress {
    RewardAddress::new(network_nibble(g), &credential(g))
}
pub fn address(g: &mut Gen) -> Address {
    g.interesting = true;
    match g.t.choose(5) {
        0 => BaseAddress::new(network_nibble(g), &credential(g), &credential(g)).to_address(),
        1 => EnterpriseAddress::new(network_nibble(g), &credential(g)).to_address(),
        2 => reward_address(g).to_address(),
        3 => PointerAddress::new(network_nibble(g), &credential(g), &pointer(g)).to_address(),
        _ => byron_address(g).to_address(),
    }
}

// ------------------------------------------------------------------------------------------
// strings

pub fn ascii(g: &mut Gen, max: usize) -> String {
    let n = match g.t.choose(5) {
        0 => 0,
        1 => 1,
        2 => max,
        3 => max.saturating_sub(1),
        _ => g.t.range(0, max),
    };
    let raw = g.t.bytes(n);
    raw.iter().map(|b| (b'a' + (b % 26)) as char).collect()
}
pub fn utf8(g: &mut Gen, max_bytes: usize) -> String {
    // mixes multi-byte characters, stays within max_bytes
    let mut s = String::new();
    let n = g.t.range(0, max_bytes);
    const ALPH: [&str; 8] = ["a", "Z", "0", " ", "é", "ß", "→", "𝄞"];
    while s.len() < n {
        let c = ALPH[g.t.choose(ALPH.len())];
        if s.len() + c.len() > max_bytes {
            break;
        }
        s.push_str(c);
        if g.t.is_dry() && s.len() >= n.min(8) {
            break;
        }
    }
    s
}
/// Candidates just outside a validating constructor's bound (in bytes, in characters, multi-byte text):
/// the constructor is expected to refuse them; if it accepts one, the value is used, so that the
/// schema validator sees what the library lets through.
fn oversize_text(g: &mut Gen, max_bytes: usize) -> String {
    match g.t.choose(4) {
        0 => "a".repeat(max_bytes + 1),
        1 => "é".repeat(max_bytes / 2 + 1),
        2 => "→".repeat(max_bytes / 3 + 1),
        _ => format!("{}é", "a".repeat(max_bytes - 1)),
    }
}
pub fn url(g: &mut Gen) -> URL {
    if g.t.chance(10) {
        if let Ok(u) = URL::new(oversize_text(g, 128)) {
            return u;
        }
    }
    URL::new(ascii(g, 128)).expect("url len")
}
pub fn dns_a(g: &mut Gen) -> DNSRecordAorAAAA {
    if g.t.chance(10) {
        if let Ok(u) = DNSRecordAorAAAA::new(oversize_text(g, 128)) {
            return u;
        }
    }
    DNSRecordAorAAAA::new(ascii(g, 128)).expect("dns len")
}
pub fn dns_srv(g: &mut Gen) -> DNSRecordSRV {
    if g.t.chance(10) {
        if let Ok(u) = DNSRecordSRV::new(oversize_text(g, 128)) {
            return u;
        }
    }
    DNSRecordSRV::new(ascii(g, 128)).expect("dns len")
}
pub fn ipv4(g: &mut Gen) -> Ipv4 {
    if g.t.chance(10) {
        let n = [0usize, 3, 5, 16][g.t.choose(4)];
        if let Ok(i) = Ipv4::new(g.t.bytes(n)) {
            return i;
        }
    }
    Ipv4::new(g.t.bytes(4)).expect("ipv4 len")
}
pub fn ipv6(g: &mut Gen) -> Ipv6 {
    if g.t.chance(10) {
        let n = [0usize, 4, 15, 17][g.t.choose(4)];
        if let Ok(i) = Ipv6::new(g.t.bytes(n)) {
            return i;
        }
    }
    Ipv6::new(g.t.bytes(16)).expect("ipv6 len")
}
pub fn anchor(g: &mut Gen) -> Anchor {
    Anchor::new(&url(g), &anchor_data_hash(g))
}

// ------------------------------------------------------------------------------------------
// assets, values

pub fn asset_name(g: &mut Gen) -> AssetName {
    if g.t.chance(6) {
        let n = [33usize, 64][g.t.choose(2)];
        if let Ok(a) = AssetName::new(g.t.bytes(n)) {
            return a;
        }
    }
    let n = [0usize, 1, 2, 31, 32, 4][g.t.choose(6)];
    let b = if g.t.chance(180) { g.t.pooled(5, n, 20) } else { g.t.bytes(n) };
    AssetName::new(b).expect("asset name len")
}
pub fn asset_names(g: &mut Gen) -> AssetNames {
    let mut a = AssetNames::new();
    for _ in 0..g.coll() {
        a.add(&asset_name(g));
    }
    a
}
pub fn assets(g: &mut Gen) -> Assets {
    let mut a = Assets::new();
    for _ in 0..g.coll() {
        a.insert(&asset_name(g), &g.coin());
    }
    a
}
pub fn multi_asset(g: &mut Gen) -> MultiAsset {
    let mut m = MultiAsset::new();
    for _ in 0..g.small(4) {
        m.insert(&script_hash(g), &assets(g));
    }
    m
}
pub fn value(g: &mut Gen) -> Value {
    let c = g.coin();
    if g.opt() {
        let ma = multi_asset(g);
        if g.t.bool() {
            let mut v = Value::new(&c);
            v.set_multiasset(&ma);
            v
        } else {
            Value::new_with_assets(&c, &ma)
        }
    } else {
        Value::new(&c)
    }
}
pub fn mint_assets(g: &mut Gen) -> MintAssets {
    let mut m = MintAssets::new();
    for _ in 0..g.small(4) {
        let q = if g.cddl_ranges { int64(g, true) } else { int(g) };
        let _ = m.insert(&asset_name(g), &q);
    }
    m
}
pub fn mint(g: &mut Gen) -> Mint {
    let mut m = Mint::new();
    let mut used: Vec<Vec<u8>> = Vec::new();
    for _ in 0..g.small(4) {
        let p = script_hash(g);
        // a Mint is a list of (policy, assets) and insert() never replaces: the same policy twice is constructible
        // and goes out as a repeated map key. Schema-conforming generation (C03, C04) leaves it out; the general
        // generators keep it, because the library has to read back what it writes (C01)
        if used.contains(&p.to_bytes()) && g.cddl_ranges {
            continue;
        }
        used.push(p.to_bytes());
        let ma = mint_assets(g);
        if g.cddl_ranges && ma.len() == 0 {
            continue;
        }
        m.insert(&p, &ma);
    }
    m
}

// ------------------------------------------------------------------------------------------
// native scripts

pub fn native_script(g: &mut Gen) -> NativeScript {
    g.interesting = true;
    let leaf = !g.descend();
    let k = if leaf { [0usize, 4, 5][g.t.choose(3)] } else { g.t.choose(6) };
    let r = match k {
        0 => NativeScript::new_script_pubkey(&ScriptPubkey::new(&key_hash(g))),
        1 => NativeScript::new_script_all(&ScriptAll::new(&native_scripts(g))),
        2 => NativeScript::new_script_any(&ScriptAny::new(&native_scripts(g))),
        3 => {
            let n = g.u32();
            NativeScript::new_script_n_of_k(&ScriptNOfK::new(n, &native_scripts(g)))
        }
        4 => {
            if g.t.bool() {
                NativeScript::new_timelock_start(&TimelockStart::new_timelockstart(&g.coin()))
            } else {
                NativeScript::new_timelock_start(&TimelockStart::new(g.u32()))
            }
        }
        _ => {
            if g.t.bool() {
                NativeScript::new_timelock_expiry(&TimelockExpiry::new_timelockexpiry(&g.coin()))
            } else {
                NativeScript::new_timelock_expiry(&TimelockExpiry::new(g.u32()))
            }
        }
    };
    if !leaf {
        g.ascend();
    }
    r
}
pub fn native_scripts(g: &mut Gen) -> NativeScripts {
    let mut s = NativeScripts::new();
    for _ in 0..g.small(4) {
        s.add(&native_script(g));
    }
    s
}

// ------------------------------------------------------------------------------------------
// plutus

pub fn plutus_script(g: &mut Gen) -> PlutusScript {
    let n = [0usize, 1, 8, 63, 64, 65, 200][g.t.choose(7)];
    let b = if g.t.chance(128) { g.t.pooled(4, n.max(4), 30) } else { g.t.bytes(n) };
    PlutusScript::new_with_version(b, &language(g))
}
/// Plutus scripts as they sit in a witness set / auxiliary data: listed grouped by language
/// (V1, V2, V3) because the wire format has one list per language and cannot carry any other order.
pub fn plutus_scripts(g: &mut Gen) -> PlutusScripts {
    let mut v: Vec<PlutusScript> = (0..g.small(4)).map(|_| plutus_script(g)).collect();
    v.sort_by_key(|s| s.language_version().to_bytes());
    let mut s = PlutusScripts::new();
    for x in &v {
        s.add(x);
    }
    s
}
/// stand-alone script list: its own CBOR form is a plain array of byte strings without language
pub fn plutus_scripts_v1(g: &mut Gen) -> PlutusScripts {
    let mut s = PlutusScripts::new();
    for _ in 0..g.small(4) {
        s.add(&PlutusScript::new(plutus_script(g).bytes()));
    }
    s
}
pub fn constr_alternative(g: &mut Gen) -> BigNum {
    let pts = [0u64, 1, 6, 7, 8, 127, 128, 129, 255, 65535, u64::MAX];
    bn(pts[g.t.choose(pts.len())])
}
pub fn plutus_data(g: &mut Gen) -> PlutusData {
    g.interesting = true;
    let leaf = !g.descend();
    let k = if leaf { [3usize, 4, 5][g.t.choose(3)] } else { g.t.choose(6) };
    let r = match k {
        0 => PlutusData::new_constr_plutus_data(&ConstrPlutusData::new(&constr_alternative(g), &plutus_list(g))),
        1 => {
            let mut m = PlutusMap::new();
            for _ in 0..g.small(3) {
                let k = plutus_data(g);
                let mut vs = PlutusMapValues::new();
                // several values under one key are representable (duplicate keys on the wire)
                let nv = if g.ascending { 1 } else { 1 + g.t.choose(2) };
                for _ in 0..nv {
                    vs.add(&plutus_data(g));
                }
                m.insert(&k, &vs);
            }
            PlutusData::new_map(&m)
        }
        2 => PlutusData::new_list(&plutus_list(g)),
        3 => PlutusData::new_integer(&big_int(g)),
        4 => {
            let n = [0usize, 1, 63, 64, 65, 128, 129, 200][g.t.choose(8)];
            PlutusData::new_bytes(g.t.bytes(n))
        }
        _ => PlutusData::new_empty_constr_plutus_data(&constr_alternative(g)),
    };
    if !leaf {
        g.ascend();
    }
    r
}
pub fn plutus_list(g: &mut Gen) -> PlutusList {
    let mut l = PlutusList::new();
    for _ in 0..g.small(3) {
        l.add(&plutus_data(g));
    }
    l
}
pub fn constr_plutus_data(g: &mut Gen) -> ConstrPlutusData {
    g.interesting = true;
    ConstrPlutusData::new(&constr_alternative(g), &plutus_list(g))
}
pub fn plutus_map(g: &mut Gen) -> PlutusMap {
    let mut m = PlutusMap::new();
    for _ in 0..g.small(3) {
        let k = plutus_data(g);
        let mut vs = PlutusMapValues::new();
        vs.add(&plutus_data(g));
        m.insert(&k, &vs);
    }
    m
}
pub fn redeemer_tag(g: &mut Gen) -> RedeemerTag {
    match g.t.choose(6) {
        0 => RedeemerTag::new_spend(),
        1 => RedeemerTag::new_mint(),
        2 => RedeemerTag::new_cert(),
        3 => RedeemerTag::new_reward(),
        4 => RedeemerTag::new_vote(),
        _ => RedeemerTag::new_voting_proposal(),
    }
}
pub fn redeemer(g: &mut Gen) -> Redeemer {
    let idx = if g.cddl_ranges { bn(g.t.u64_class_max(u32::MAX as u64)) } else { g.coin() };
    Redeemer::new(&redeemer_tag(g), &idx, &plutus_data(g), &ex_units(g))
}
pub fn redeemers(g: &mut Gen) -> Redeemers {
    let mut r = Redeemers::new();
    let mut seen: Vec<(u8, u64)> = Vec::new();
    for _ in 0..g.small(4) {
        let x = redeemer(g);
        // (tag, index) is the map key on the wire; duplicates are meaningless input
        let key = (x.tag().to_bytes()[0], u64::from(x.index()));
        if seen.contains(&key) {
            continue;
        }
        seen.push(key);
        r.add(&x);
    }
    r
}
pub fn cost_model(g: &mut Gen) -> CostModel {
    let mut c = CostModel::new();
    let n = [0usize, 1, 3, 10, 166, 175][g.t.choose(6)];
    for i in 0..n {
        let v = if g.cddl_ranges { int64(g, false) } else { int(g) };
        let _ = c.set(i, &v);
    }
    c
}
pub fn costmdls(g: &mut Gen) -> Costmdls {
    let mut c = Costmdls::new();
    for _ in 0..g.small(3) {
        c.insert(&language(g), &cost_model(g));
    }
    c
}

// ------------------------------------------------------------------------------------------
// metadata

pub fn metadatum(g: &mut Gen) -> TransactionMetadatum {
    g.interesting = true;
    let leaf = !g.descend();
    let k = if leaf { 2 + g.t.choose(3) } else { g.t.choose(5) };
    let r = match k {
        0 => TransactionMetadatum::new_map(&metadata_map(g)),
        1 => TransactionMetadatum::new_list(&metadata_list(g)),
        2 => TransactionMetadatum::new_int(&int(g)),
        3 => {
            let n = [0usize, 1, 63, 64, 10, 65][g.t.choose(6)];
            match TransactionMetadatum::new_bytes(g.t.bytes(n)) {
                Ok(m) => m,
                Err(_) => TransactionMetadatum::new_bytes(g.t.bytes(64)).expect("md bytes len"),
            }
        }
        _ => {
            if g.t.chance(20) {
                if let Ok(m) = TransactionMetadatum::new_text(oversize_text(g, 64)) {
                    return_early(g, leaf);
                    return m;
                }
            }
            TransactionMetadatum::new_text(utf8(g, 64)).expect("md text len")
        }
    };
    if !leaf {
        g.ascend();
    }
    r
}
fn return_early(g: &mut Gen, leaf: bool) {
    if !leaf {
        g.ascend();
    }
}
pub fn metadata_map(g: &mut Gen) -> MetadataMap {
    let mut m = MetadataMap::new();
    for _ in 0..g.small(3) {
        let k = metadatum(g);
        let v = metadatum(g);
        m.insert(&k, &v);
    }
    m
}
pub fn metadata_list(g: &mut Gen) -> MetadataList {
    let mut l = MetadataList::new();
    for _ in 0..g.small(3) {
        l.add(&metadatum(g));
    }
    l
}
pub fn general_metadata(g: &mut Gen) -> GeneralTransactionMetadata {
    let mut m = GeneralTransactionMetadata::new();
    let n = g.small(3);
    let mut labels: Vec<u64> = (0..n).map(|_| g.u64()).collect();
    if g.ascending {
        labels.sort();
    }
    for l in labels {
        m.insert(&bn(l), &metadatum(g));
    }
    m
}
pub fn metadatum_labels(g: &mut Gen) -> TransactionMetadatumLabels {
    let mut l = TransactionMetadatumLabels::new();
    for _ in 0..g.coll() {
        l.add(&g.coin());
    }
    l
}
pub fn auxiliary_data(g: &mut Gen) -> AuxiliaryData {
    let mut a = AuxiliaryData::new();
    if g.opt() {
        a.set_metadata(&general_metadata(g));
    }
    if g.opt() {
        a.set_native_scripts(&native_scripts(g));
    }
    if g.opt() {
        a.set_plutus_scripts(&plutus_scripts(g));
    }
    if g.t.chance(60) {
        a.set_prefer_alonzo_format(true);
    }
    a
}

// ------------------------------------------------------------------------------------------
// outputs, inputs

pub fn tx_input(g: &mut Gen) -> TransactionInput {
    TransactionInput::new(&tx_hash(g), g.u16ish())
}
pub fn tx_inputs(g: &mut Gen) -> TransactionInputs {
    let mut s = TransactionInputs::new();
    for _ in 0..g.coll() {
        s.add(&tx_input(g));
    }
    s
}
pub fn script_ref(g: &mut Gen) -> ScriptRef {
    if g.t.bool() {
        ScriptRef::new_native_script(&native_script(g))
    } else {
        ScriptRef::new_plutus_script(&plutus_script(g))
    }
}
pub fn tx_output(g: &mut Gen) -> TransactionOutput {
    let mut o = TransactionOutput::new(&address(g), &value(g));
    match g.t.choose(4) {
        1 => {
            g.interesting = true;
            o.set_data_hash(&data_hash(g))
        }
        2 => {
            g.interesting = true;
            o.set_plutus_data(&plutus_data(g))
        }
        _ => {}
    }
    if g.opt() {
        o.set_script_ref(&script_ref(g));
    }
    o
}
pub fn tx_outputs(g: &mut Gen) -> TransactionOutputs {
    let mut s = TransactionOutputs::new();
    for _ in 0..g.small(4) {
        s.add(&tx_output(g));
    }
    s
}
pub fn utxo(g: &mut Gen) -> TransactionUnspentOutput {
    TransactionUnspentOutput::new(&tx_input(g), &tx_output(g))
}

// ------------------------------------------------------------------------------------------
// certificates

pub fn drep(g: &mut Gen) -> DRep {
    match g.t.choose(4) {
        0 => DRep::new_key_hash(&key_hash(g)),
        1 => DRep::new_script_hash(&script_hash(g)),
        2 => DRep::new_always_abstain(),
        _ => DRep::new_always_no_confidence(),
    }
}
pub fn relay(g: &mut Gen) -> Relay {
    match g.t.choose(3) {
        0 => {
            let port = if g.opt() { Some(g.t.u64_class_max(65535) as u16) } else { None };
            let v4 = if g.opt() { Some(ipv4(g)) } else { None };
            let v6 = if g.opt() { Some(ipv6(g)) } else { None };
            Relay::new_single_host_addr(&SingleHostAddr::new(port, v4, v6))
        }
        1 => {
            let port = if g.opt() { Some(g.t.u64_class_max(65535) as u16) } else { None };
            Relay::new_single_host_name(&SingleHostName::new(port, &dns_a(g)))
        }
        _ => Relay::new_multi_host_name(&MultiHostName::new(&dns_srv(g))),
    }
}
pub fn relays(g: &mut Gen) -> Relays {
    let mut r = Relays::new();
    for _ in 0..g.small(4) {
        r.add(&relay(g));
    }
    r
}
pub fn pool_metadata(g: &mut Gen) -> PoolMetadata {
    PoolMetadata::new(&url(g), &pool_metadata_hash(g))
}
pub fn pool_params(g: &mut Gen) -> PoolParams {
    let md = if g.opt() { Some(pool_metadata(g)) } else { None };
    PoolParams::new(&key_hash(g), &vrf_key_hash(g), &g.coin(), &g.coin(), &unit_interval(g), &reward_address(g), &key_hashes(g), &relays(g), md)
}
pub fn mir(g: &mut Gen) -> MoveInstantaneousReward {
    let pot = if g.t.bool() { MIRPot::Reserves } else { MIRPot::Treasury };
    if g.t.bool() {
        MoveInstantaneousReward::new_to_other_pot(pot, &g.coin())
    } else {
        let mut m = MIRToStakeCredentials::new();
        for _ in 0..g.small(3) {
            m.insert(&credential(g), &int(g));
        }
        MoveInstantaneousReward::new_to_stake_creds(pot, &m)
    }
}
pub fn mir_to_stake_credentials(g: &mut Gen) -> MIRToStakeCredentials {
    let mut m = MIRToStakeCredentials::new();
    for _ in 0..g.small(3) {
        m.insert(&credential(g), &int(g));
    }
    m
}

pub const CERT_KINDS: usize = 19;

pub fn certificate_kind(g: &mut Gen, k: usize) -> Certificate {
    g.interesting = true;
    match k {
        0 => {
            if g.opt() {
                Certificate::new_stake_registration(&StakeRegistration::new_with_explicit_deposit(&credential(g), &g.coin()))
            } else {
                Certificate::new_stake_registration(&StakeRegistration::new(&credential(g)))
            }
        }
        1 => {
            if g.opt() {
                Certificate::new_stake_deregistration(&StakeDeregistration::new_with_explicit_refund(&credential(g), &g.coin()))
            } else {
                Certificate::new_stake_deregistration(&StakeDeregistration::new(&credential(g)))
            }
        }
        2 => Certificate::new_stake_delegation(&StakeDelegation::new(&credential(g), &key_hash(g))),
        3 => Certificate::new_pool_registration(&PoolRegistration::new(&pool_params(g))),
        4 => Certificate::new_pool_retirement(&PoolRetirement::new(&key_hash(g), g.u32())),
        5 => Certificate::new_genesis_key_delegation(&GenesisKeyDelegation::new(&genesis_hash(g), &genesis_delegate_hash(g), &vrf_key_hash(g))),
        6 => Certificate::new_move_instantaneous_rewards_cert(&MoveInstantaneousRewardsCert::new(&mir(g))),
        7 => Certificate::new_committee_hot_auth(&CommitteeHotAuth::new(&credential(g), &credential(g))),
        8 => {
            if g.opt() {
                Certificate::new_committee_cold_resign(&CommitteeColdResign::new_with_anchor(&credential(g), &anchor(g)))
            } else {
                Certificate::new_committee_cold_resign(&CommitteeColdResign::new(&credential(g)))
            }
        }
        9 => Certificate::new_drep_deregistration(&DRepDeregistration::new(&credential(g), &g.coin())),
        10 => {
            if g.opt() {
                Certificate::new_drep_registration(&DRepRegistration::new_with_anchor(&credential(g), &g.coin(), &anchor(g)))
            } else {
                Certificate::new_drep_registration(&DRepRegistration::new(&credential(g), &g.coin()))
            }
        }
        11 => {
            if g.opt() {
                Certificate::new_drep_update(&DRepUpdate::new_with_anchor(&credential(g), &anchor(g)))
            } else {
                Certificate::new_drep_update(&DRepUpdate::new(&credential(g)))
            }
        }
        12 => Certificate::new_stake_and_vote_delegation(&StakeAndVoteDelegation::new(&credential(g), &key_hash(g), &drep(g))),
        13 => Certificate::new_stake_registration_and_delegation(&StakeRegistrationAndDelegation::new(&credential(g), &key_hash(g), &g.coin())),
        14 => Certificate::new_stake_vote_registration_and_delegation(&StakeVoteRegistrationAndDelegation::new(&credential(g), &key_hash(g), &drep(g), &g.coin())),
        15 => Certificate::new_vote_delegation(&VoteDelegation::new(&credential(g), &drep(g))),
        16 => Certificate::new_vote_registration_and_delegation(&VoteRegistrationAndDelegation::new(&credential(g), &drep(g), &g.coin())),
        17 => Certificate::new_reg_cert(&StakeRegistration::new_with_explicit_deposit(&credential(g), &g.coin())).expect("reg cert"),
        _ => Certificate::new_unreg_cert(&StakeDeregistration::new_with_explicit_refund(&credential(g), &g.coin())).expect("unreg cert"),
    }
}
pub fn certificate(g: &mut Gen) -> Certificate {
    let k = g.t.choose(CERT_KINDS);
    certificate_kind(g, k)
}
pub fn certificates(g: &mut Gen) -> Certificates {
    let mut c = Certificates::new();
    for _ in 0..g.small(4) {
        c.add(&certificate(g));
    }
    c
}

// ------------------------------------------------------------------------------------------
// governance

pub fn gov_action_id(g: &mut Gen) -> GovernanceActionId {
    GovernanceActionId::new(&tx_hash(g), g.u16ish())
}
pub fn voter(g: &mut Gen) -> Voter {
    match g.t.choose(3) {
        0 => Voter::new_constitutional_committee_hot_credential(&credential(g)),
        1 => Voter::new_drep_credential(&credential(g)),
        _ => Voter::new_stake_pool_key_hash(&key_hash(g)),
    }
}
pub fn vote_kind(g: &mut Gen) -> VoteKind {
    match g.t.choose(3) {
        0 => VoteKind::No,
        1 => VoteKind::Yes,
        _ => VoteKind::Abstain,
    }
}
pub fn voting_procedure(g: &mut Gen) -> VotingProcedure {
    if g.opt() {
        VotingProcedure::new_with_anchor(vote_kind(g), &anchor(g))
    } else {
        VotingProcedure::new(vote_kind(g))
    }
}
pub fn voting_procedures(g: &mut Gen) -> VotingProcedures {
    let mut v = VotingProcedures::new();
    for _ in 0..g.small(3) {
        let voter = voter(g);
        for _ in 0..1 + g.t.choose(2) {
            v.insert(&voter, &gov_action_id(g), &voting_procedure(g));
        }
    }
    v
}
pub fn constitution(g: &mut Gen) -> Constitution {
    if g.opt() {
        Constitution::new_with_script_hash(&anchor(g), &script_hash(g))
    } else {
        Constitution::new(&anchor(g))
    }
}
pub fn committee(g: &mut Gen) -> Committee {
    let mut c = Committee::new(&unit_interval(g));
    for _ in 0..g.small(3) {
        c.add_member(&credential(g), g.u32());
    }
    c
}
pub fn treasury_withdrawals(g: &mut Gen) -> TreasuryWithdrawals {
    let mut w = TreasuryWithdrawals::new();
    for _ in 0..g.small(3) {
        w.insert(&reward_address(g), &g.coin());
    }
    w
}
pub fn pool_voting_thresholds(g: &mut Gen) -> PoolVotingThresholds {
    PoolVotingThresholds::new(&unit_interval(g), &unit_interval(g), &unit_interval(g), &unit_interval(g), &unit_interval(g))
}
pub fn drep_voting_thresholds(g: &mut Gen) -> DRepVotingThresholds {
    DRepVotingThresholds::new(
        &unit_interval(g),
        &unit_interval(g),
        &unit_interval(g),
        &unit_interval(g),
        &unit_interval(g),
        &unit_interval(g),
        &unit_interval(g),
        &unit_interval(g),
        &unit_interval(g),
        &unit_interval(g),
    )
}

pub const PPU_FIELDS: usize = 31;

/// sets field number `i` (in an arbitrary fixed enumeration) of a parameter update
pub fn ppu_set_field(g: &mut Gen, p: &mut ProtocolParamUpdate, i: usize) {
    match i {
        0 => p.set_minfee_a(&g.coin()),
        1 => p.set_minfee_b(&g.coin()),
        2 => p.set_max_block_body_size(g.u32()),
        3 => p.set_max_tx_size(g.u32()),
        4 => p.set_max_block_header_size(g.u16ish()),
        5 => p.set_key_deposit(&g.coin()),
        6 => p.set_pool_deposit(&g.coin()),
        7 => p.set_max_epoch(g.u32()),
        8 => p.set_n_opt(g.u16ish()),
        9 => p.set_pool_pledge_influence(&unit_interval(g)),
        10 => p.set_expansion_rate(&unit_interval(g)),
        11 => p.set_treasury_growth_rate(&unit_interval(g)),
        12 => p.set_protocol_version(&protocol_version(g)),
        13 => p.set_min_pool_cost(&g.coin()),
        14 => p.set_ada_per_utxo_byte(&g.coin()),
        15 => p.set_cost_models(&costmdls(g)),
        16 => p.set_execution_costs(&ex_unit_prices(g)),
        17 => p.set_max_tx_ex_units(&ex_units(g)),
        18 => p.set_max_block_ex_units(&ex_units(g)),
        19 => p.set_max_value_size(g.u32()),
        20 => p.set_collateral_percentage(g.u16ish()),
        21 => p.set_max_collateral_inputs(g.u16ish()),
        22 => p.set_pool_voting_thresholds(&pool_voting_thresholds(g)),
        23 => p.set_drep_voting_thresholds(&drep_voting_thresholds(g)),
        24 => p.set_min_committee_size(g.u16ish()),
        25 => p.set_committee_term_limit(g.u32()),
        26 => p.set_governance_action_validity_period(g.u32()),
        27 => p.set_governance_action_deposit(&g.coin()),
        28 => p.set_drep_deposit(&g.coin()),
        29 => p.set_drep_inactivity_period(g.u32()),
        _ => p.set_ref_script_coins_per_byte(&unit_interval(g)),
    }
}
pub fn protocol_param_update(g: &mut Gen) -> ProtocolParamUpdate {
    let mut p = ProtocolParamUpdate::new();
    // each optional field independently; a dry tape sets none
    for i in 0..PPU_FIELDS {
        if g.t.chance(70) {
            g.interesting = true;
            ppu_set_field(g, &mut p, i);
        }
    }
    p
}
pub fn governance_action_kind(g: &mut Gen, k: usize) -> GovernanceAction {
    g.interesting = true;
    match k {
        0 => {
            let ppu = protocol_param_update(g);
            let a = match (g.opt(), g.opt()) {
                (false, false) => ParameterChangeAction::new(&ppu),
                (true, false) => ParameterChangeAction::new_with_action_id(&gov_action_id(g), &ppu),
                (false, true) => ParameterChangeAction::new_with_policy_hash(&ppu, &script_hash(g)),
                (true, true) => ParameterChangeAction::new_with_policy_hash_and_action_id(&gov_action_id(g), &ppu, &script_hash(g)),
            };
            GovernanceAction::new_parameter_change_action(&a)
        }
        1 => {
            let a = if g.opt() { HardForkInitiationAction::new_with_action_id(&gov_action_id(g), &protocol_version(g)) } else { HardForkInitiationAction::new(&protocol_version(g)) };
            GovernanceAction::new_hard_fork_initiation_action(&a)
        }
        2 => {
            let w = treasury_withdrawals(g);
            let a = if g.opt() { TreasuryWithdrawalsAction::new_with_policy_hash(&w, &script_hash(g)) } else { TreasuryWithdrawalsAction::new(&w) };
            GovernanceAction::new_treasury_withdrawals_action(&a)
        }
        3 => {
            let a = if g.opt() { NoConfidenceAction::new_with_action_id(&gov_action_id(g)) } else { NoConfidenceAction::new() };
            GovernanceAction::new_no_confidence_action(&a)
        }
        4 => {
            let c = committee(g);
            let rm = credentials(g);
            let a = if g.opt() { UpdateCommitteeAction::new_with_action_id(&gov_action_id(g), &c, &rm) } else { UpdateCommitteeAction::new(&c, &rm) };
            GovernanceAction::new_new_committee_action(&a)
        }
        5 => {
            let c = constitution(g);
            let a = if g.opt() { NewConstitutionAction::new_with_action_id(&gov_action_id(g), &c) } else { NewConstitutionAction::new(&c) };
            GovernanceAction::new_new_constitution_action(&a)
        }
        _ => GovernanceAction::new_info_action(&InfoAction::new()),
    }
}
pub fn governance_action(g: &mut Gen) -> GovernanceAction {
    let k = g.t.choose(7);
    governance_action_kind(g, k)
}
pub fn voting_proposal(g: &mut Gen) -> VotingProposal {
    VotingProposal::new(&governance_action(g), &anchor(g), &reward_address(g), &g.coin())
}
pub fn voting_proposals(g: &mut Gen) -> VotingProposals {
    let mut v = VotingProposals::new();
    for _ in 0..g.small(3) {
        v.add(&voting_proposal(g));
    }
    v
}

// ------------------------------------------------------------------------------------------
// withdrawals, update

pub fn withdrawals(g: &mut Gen) -> Withdrawals {
    let mut w = Withdrawals::new();
    let n = g.small(4);
    let mut items: Vec<(RewardAddress, BigNum)> = (0..n).map(|_| (reward_address(g), g.coin())).collect();
    if g.ascending {
        items.sort_by(|a, b| a.0.cmp(&b.0));
    }
    for (a, c) in items {
        w.insert(&a, &c);
    }
    w
}
pub fn proposed_updates(g: &mut Gen) -> ProposedProtocolParameterUpdates {
    let mut p = ProposedProtocolParameterUpdates::new();
    let n = g.small(2);
    let mut items: Vec<(GenesisHash, ProtocolParamUpdate)> = (0..n).map(|_| (genesis_hash(g), protocol_param_update(g))).collect();
    if g.ascending {
        items.sort_by(|a, b| a.0.to_bytes().cmp(&b.0.to_bytes()));
    }
    for (h, u) in items {
        p.insert(&h, &u);
    }
    p
}
pub fn update(g: &mut Gen) -> Update {
    Update::new(&proposed_updates(g), g.u32())
}

// ------------------------------------------------------------------------------------------
// witnesses

pub fn vkeywitness(g: &mut Gen) -> Vkeywitness {
    Vkeywitness::new(&vkey(g), &ed_signature(g))
}
pub fn vkeywitnesses(g: &mut Gen) -> Vkeywitnesses {
    let mut v = Vkeywitnesses::new();
    for _ in 0..g.small(4) {
        v.add(&vkeywitness(g));
    }
    v
}
pub fn bootstrap_witness(g: &mut Gen) -> BootstrapWitness {
    let attrs = [vec![0xa0u8], vec![0xa1, 0x01, 0x41, 0x00], vec![0xa1, 0x02, 0x45, 0x1a, 0x41, 0x70, 0xcb, 0x17]][g.t.choose(3)].clone();
    BootstrapWitness::new(&vkey(g), &ed_signature(g), g.t.bytes(32), attrs)
}
pub fn bootstrap_witnesses(g: &mut Gen) -> BootstrapWitnesses {
    let mut v = BootstrapWitnesses::new();
    for _ in 0..g.small(3) {
        v.add(&bootstrap_witness(g));
    }
    v
}
pub fn witness_set(g: &mut Gen) -> TransactionWitnessSet {
    let mut w = TransactionWitnessSet::new();
    if g.opt() {
        w.set_vkeys(&vkeywitnesses(g));
    }
    if g.opt() {
        w.set_native_scripts(&native_scripts(g));
    }
    if g.opt() {
        w.set_bootstraps(&bootstrap_witnesses(g));
    }
    if g.opt() {
        w.set_plutus_scripts(&plutus_scripts(g));
    }
    if g.opt() {
        w.set_plutus_data(&plutus_list(g));
    }
    if g.opt() {
        w.set_redeemers(&redeemers(g));
    }
    w
}
pub fn witness_sets(g: &mut Gen) -> TransactionWitnessSets {
    let mut s = TransactionWitnessSets::new();
    for _ in 0..g.small(3) {
        s.add(&witness_set(g));
    }
    s
}

// ------------------------------------------------------------------------------------------
// transaction body, transaction, block

pub const BODY_FIELDS: usize = 19;

pub fn body_set_field(g: &mut Gen, b: &mut TransactionBody, i: usize) {
    match i {
        0 => b.set_ttl(&g.coin()),
        1 => b.set_certs(&certificates(g)),
        2 => b.set_withdrawals(&withdrawals(g)),
        3 => b.set_update(&update(g)),
        4 => b.set_auxiliary_data_hash(&aux_data_hash(g)),
        5 => b.set_validity_start_interval_bignum(&g.coin()),
        6 => b.set_mint(&mint(g)),
        7 => b.set_script_data_hash(&script_data_hash(g)),
        8 => b.set_collateral(&tx_inputs(g)),
        9 => b.set_required_signers(&key_hashes(g)),
        10 => b.set_network_id(&network_id(g)),
        11 => b.set_collateral_return(&tx_output(g)),
        12 => b.set_total_collateral(&g.coin()),
        13 => b.set_reference_inputs(&tx_inputs(g)),
        14 => b.set_voting_procedures(&voting_procedures(g)),
        15 => b.set_voting_proposals(&voting_proposals(g)),
        16 => b.set_donation(&if g.cddl_ranges { bn(g.u64().max(1)) } else { g.coin() }),
        17 => b.set_current_treasury_value(&g.coin()),
        _ => b.set_ttl(&g.coin()),
    }
}
pub fn tx_body(g: &mut Gen) -> TransactionBody {
    let ins = tx_inputs(g);
    let outs = tx_outputs(g);
    let fee = g.coin();
    let mut b = if g.t.chance(40) { TransactionBody::new(&ins, &outs, &fee, Some(g.u32())) } else { TransactionBody::new_tx_body(&ins, &outs, &fee) };
    for i in 0..18 {
        if g.t.chance(50) {
            g.interesting = true;
            body_set_field(g, &mut b, i);
        }
    }
    b
}
pub fn transaction(g: &mut Gen) -> Transaction {
    let b = tx_body(g);
    let w = witness_set(g);
    let a = if g.opt() { Some(auxiliary_data(g)) } else { None };
    let mut t = Transaction::new(&b, &w, a);
    if g.t.chance(40) {
        t.set_is_valid(false);
    }
    t
}
pub fn tx_bodies(g: &mut Gen) -> TransactionBodies {
    let mut s = TransactionBodies::new();
    for _ in 0..g.small(3) {
        s.add(&tx_body(g));
    }
    s
}
pub fn operational_cert(g: &mut Gen) -> OperationalCert {
    OperationalCert::new(&kes_vkey(g), g.u32(), g.u32(), &ed_signature(g))
}
pub fn header_body(g: &mut Gen) -> HeaderBody {
    let prev = if g.opt() { Some(block_hash(g)) } else { None };
    if g.t.bool() {
        HeaderBody::new(g.u32(), g.u32(), prev, &vkey(g), &vrf_vkey(g), &vrf_cert(g), g.u32(), &block_hash(g), &operational_cert(g), &protocol_version(g))
    } else {
        HeaderBody::new_headerbody(g.u32(), &g.coin(), prev, &vkey(g), &vrf_vkey(g), &vrf_cert(g), g.u32(), &block_hash(g), &operational_cert(g), &protocol_version(g))
    }
}
pub fn header(g: &mut Gen) -> Header {
    Header::new(&header_body(g), &kes_signature(g))
}
pub fn block(g: &mut Gen) -> Block {
    let n = g.small(3);
    let mut bodies = TransactionBodies::new();
    let mut wits = TransactionWitnessSets::new();
    let mut aux = AuxiliaryDataSet::new();
    let mut invalid: Vec<u32> = Vec::new();
    for i in 0..n {
        bodies.add(&tx_body(g));
        wits.add(&witness_set(g));
        if g.opt() {
            aux.insert(i as u32, &auxiliary_data(g));
        }
        if g.t.chance(40) {
            invalid.push(i as u32);
        }
    }
    Block::new(&header(g), &bodies, &wits, &aux, invalid)
}
pub fn versioned_block(g: &mut Gen) -> VersionedBlock {
    let era = g.t.range_u64(0, 8) as u32;
    VersionedBlock::new(block(g), era)
}

// small collection types
pub fn genesis_hashes(g: &mut Gen) -> GenesisHashes {
    let mut s = GenesisHashes::new();
    for _ in 0..g.coll() {
        s.add(&genesis_hash(g));
    }
    s
}
pub fn script_hashes(g: &mut Gen) -> ScriptHashes {
    let mut s = ScriptHashes::new();
    for _ in 0..g.coll() {
        s.add(&script_hash(g));
    }
    s
}
pub fn reward_addresses(g: &mut Gen) -> RewardAddresses {
    let mut s = RewardAddresses::new();
    for _ in 0..g.coll() {
        s.add(&reward_address(g));
    }
    s
}
