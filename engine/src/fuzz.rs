//! libFuzzer side of the thorough tier: one coverage-guided execution of a sub-check's case function.
//!
//! The fuzz target (`/verif/fuzz/fuzz_targets/tape.rs`) hands every input to [`one`]. The input is the
//! same thing the proptest shards generate: a tape for the sub-check named by `VERIF_FUZZ_PROP` /
//! `VERIF_FUZZ_SUB`. The oracle is the sub-check's own case function, so a campaign decides the same
//! property as the shards; libFuzzer only replaces the random tape source by coverage-guided mutation
//! of tapes (coverage of the library *and* of the engine's generators).
//!
//! A failing case does not stop the campaign: the first input of every new signature is written to
//! `work/fuzz/<id>/<sub>/found/` as an ordinary replay file and the target returns normally. A signature
//! listed in known_findings.json is only counted. The wrapper script replays every found file through
//! `vcheck replay` (fresh process, strict) and reports the ones that reproduce. A real process abort
//! (allocation failure, stack overflow) is left to libFuzzer, which stores the input as a crash artifact;
//! the script converts artifacts to replay files the same way.
//!
//! Statistics (executions, rejected, non-trivial fingerprints, labels, samples) are flushed to
//! `stats-<pid>.json` / `fps-<pid>.bin` every few thousand executions and at exit.
use crate::props;
use crate::runner::*;
use serde_json::json;
use std::cell::RefCell;
use std::collections::{BTreeMap, BTreeSet};
use std::path::PathBuf;
use std::sync::mpsc::{channel, Receiver, Sender};
use std::sync::Mutex;

struct State {
    prop: Property,
    sub_idx: usize,
    ctx: Ctx,
    known: Known,
    execs: u64,
    failing: u64,
    known_hits: BTreeMap<String, u64>,
    new_sigs: BTreeSet<String>,
    engine_bugs: u64,
    dir: PathBuf,
    last_flush: u64,
}

impl State {
    fn new() -> State {
        let id = std::env::var("VERIF_FUZZ_PROP").expect("VERIF_FUZZ_PROP");
        let sub = std::env::var("VERIF_FUZZ_SUB").expect("VERIF_FUZZ_SUB");
        let prop = props::get(&id).expect("unknown property");
        let sub_idx = prop.subchecks.iter().position(|s| s.name == sub).expect("unknown sub-check");
        let dir = std::env::var("VERIF_FUZZ_DIR").map(PathBuf::from).unwrap_or_else(|_| PathBuf::from(verif_dir()).join("work").join("fuzz").join(&id).join(&sub));
        let _ = std::fs::create_dir_all(dir.join("found"));
        install_panic_hook();
        State {
            prop,
            sub_idx,
            ctx: Ctx::new(Tier::Thorough, false),
            known: Known::load(),
            execs: 0,
            failing: 0,
            known_hits: BTreeMap::new(),
            new_sigs: BTreeSet::new(),
            engine_bugs: 0,
            dir,
            last_flush: 0,
        }
    }

    fn exec(&mut self, data: &[u8]) {
        self.execs += 1;
        let sub = &self.prop.subchecks[self.sub_idx];
        match run_case(&mut self.ctx, sub, data) {
            CaseOutcome::Pass | CaseOutcome::Reject => {}
            CaseOutcome::Fail(f) => {
                self.failing += 1;
                if let Some(k) = self.known.matches(self.prop.id, &f.sig) {
                    *self.known_hits.entry(k.id.clone()).or_insert(0) += 1;
                } else if self.new_sigs.insert(f.sig.clone()) {
                    let fpr = crate::tape::fp64(f.sig.as_bytes());
                    let path = self.dir.join("found").join(format!("{}-fuzz-{:016x}.json", sub.name, fpr));
                    if !path.exists() {
                        let v = json!({"property": self.prop.id, "subcheck": sub.name, "tier": "thorough", "input_hex": hex::encode(data), "signature": f.sig, "detail": f.detail});
                        let _ = std::fs::write(&path, serde_json::to_string_pretty(&v).unwrap() + "\n");
                    }
                }
            }
            CaseOutcome::EngineBug(m) => {
                self.engine_bugs += 1;
                if self.engine_bugs == 1 {
                    let _ = std::fs::write(self.dir.join(format!("engine-bug-{}.txt", std::process::id())), format!("{}\ninput {}\n", m, hex::encode(data)));
                }
            }
        }
        if self.execs - self.last_flush >= 5000 {
            self.flush();
        }
    }

    fn flush(&mut self) {
        self.last_flush = self.execs;
        let pid = std::process::id();
        let (fps, overflow) = self.ctx.fingerprints();
        let mut bin = Vec::with_capacity(fps.len() * 8);
        for f in &fps {
            bin.extend_from_slice(&f.to_le_bytes());
        }
        let _ = std::fs::write(self.dir.join(format!("fps-{}.bin", pid)), bin);
        let v = json!({
            "executions": self.execs,
            "rejected": self.ctx.rejected,
            "failing_cases": self.failing,
            "known_hits": self.known_hits,
            "new_signatures": self.new_sigs.iter().collect::<Vec<_>>(),
            "engine_bugs": self.engine_bugs,
            "nontrivial_total": self.ctx.nontrivial_total,
            "fingerprint_overflow": overflow,
            "labels": self.ctx.labels,
            "samples": self.ctx.samples_json(),
        });
        let tmp = self.dir.join(format!("stats-{}.json.tmp", pid));
        if std::fs::write(&tmp, v.to_string()).is_ok() {
            let _ = std::fs::rename(&tmp, self.dir.join(format!("stats-{}.json", pid)));
        }
    }
}

thread_local! {
    static STATE: RefCell<Option<State>> = RefCell::new(None);
}

struct Worker {
    tx: Sender<Option<Vec<u8>>>,
    rx: Receiver<()>,
}

static WORKER: Mutex<Option<Worker>> = Mutex::new(None);

extern "C" fn at_exit() {
    // ask the worker thread (which owns the state) to flush
    if let Ok(g) = WORKER.lock() {
        if let Some(w) = g.as_ref() {
            if w.tx.send(None).is_ok() {
                let _ = w.rx.recv_timeout(std::time::Duration::from_secs(20));
            }
        }
    }
}

fn start_worker() -> Worker {
    let (tx, wrx) = channel::<Option<Vec<u8>>>();
    let (wtx, rx) = channel::<()>();
    // deep inputs (nesting 256 and more) need far more stack than libFuzzer's main thread has
    std::thread::Builder::new()
        .stack_size(1 << 30)
        .spawn(move || {
            STATE.with(|s| *s.borrow_mut() = Some(State::new()));
            while let Ok(msg) = wrx.recv() {
                STATE.with(|s| {
                    let mut s = s.borrow_mut();
                    let st = s.as_mut().unwrap();
                    match msg {
                        Some(data) => st.exec(&data),
                        None => st.flush(),
                    }
                });
                if wtx.send(()).is_err() {
                    break;
                }
            }
        })
        .expect("spawn fuzz worker");
    unsafe {
        libc::atexit(at_exit);
    }
    Worker { tx, rx }
}

/// one libFuzzer execution
pub fn one(data: &[u8]) {
    let mut g = WORKER.lock().unwrap();
    if g.is_none() {
        *g = Some(start_worker());
    }
    let w = g.as_ref().unwrap();
    w.tx.send(Some(data.to_vec())).expect("fuzz worker gone");
    w.rx.recv().expect("fuzz worker died");
}
