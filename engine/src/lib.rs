//! csl-verif-engine — property-based testing / fuzzing machinery for cardano-serialization-lib.
//! See /verif/DESIGN.md.
#![allow(deprecated)]
#![allow(clippy::all)]

pub mod tape;
#[macro_use]
pub mod runner;
pub mod refnum;
pub mod cbor;
pub mod gen;
pub mod cddl;
pub mod mutate;
pub mod scenario;
pub mod ledger;
pub mod props;
pub mod fuzz;
