//! Independent CBOR reader / writer that keeps encoding detail. Shares no code with `cbor_event`.
//!
//! The reader parses one data item into a tree recording, for every head, the argument width used
//! (and whether it is minimal), definite vs indefinite containers, chunk structure of indefinite
//! strings, tags, simple values and the byte range `[start,end)` of every node.
//! The writer re-emits a tree with exactly the recorded encoding choices, so trees can be edited
//! (mutation) or built with chosen non-canonical detail.

use std::fmt;

#[derive(Clone, Debug, PartialEq)]
pub enum Kind {
    UInt(u64),
    /// value is -1 - n
    NInt(u64),
    /// chunks: None = definite; Some(list of (chunk length, head width)) = indefinite
    Bytes { data: Vec<u8>, chunks: Option<Vec<(usize, u8)>> },
    Text { data: Vec<u8>, chunks: Option<Vec<(usize, u8)>> },
    Array { items: Vec<Node>, indef: bool },
    Map { entries: Vec<(Node, Node)>, indef: bool },
    Tag(u64, Box<Node>),
    /// simple value (20 false, 21 true, 22 null, 23 undefined, others)
    Simple(u8),
    /// raw bits, width in bytes (2, 4, 8)
    Float(u64, u8),
}

#[derive(Clone, Debug, PartialEq)]
pub struct Node {
    pub kind: Kind,
    pub start: usize,
    pub end: usize,
    /// bytes following the initial byte for the head argument: 0 (inline), 1, 2, 4, 8
    pub width: u8,
}

#[derive(Clone, Debug, PartialEq)]
pub enum CborError {
    Truncated(usize),
    Reserved(usize),
    UnexpectedBreak(usize),
    BadChunk(usize),
    Trailing(usize),
    TooDeep(usize),
    LengthTooLarge(usize),
    BadSimple(usize),
}

impl CborError {
    pub fn offset(&self) -> usize {
        match self {
            CborError::Truncated(o) | CborError::Reserved(o) | CborError::UnexpectedBreak(o) | CborError::BadChunk(o) | CborError::Trailing(o) | CborError::TooDeep(o) | CborError::LengthTooLarge(o) | CborError::BadSimple(o) => *o,
        }
    }
}

impl fmt::Display for CborError {
    fn fmt(&self, f: &mut fmt::Formatter) -> fmt::Result {
        write!(f, "{:?}", self)
    }
}

pub const MAX_DEPTH: usize = 1024;

pub fn min_width(v: u64) -> u8 {
    if v < 24 {
        0
    } else if v <= 0xFF {
        1
    } else if v <= 0xFFFF {
        2
    } else if v <= 0xFFFF_FFFF {
        4
    } else {
        8
    }
}

struct Rd<'a> {
    b: &'a [u8],
    p: usize,
    /// mirror of a leniency found in the library under test: a break inside a definite-length
    /// array / map ends the container early (used only to CLASSIFY malformed inputs)
    lenient_break: bool,
}

impl<'a> Rd<'a> {
    fn u8(&mut self) -> Result<u8, CborError> {
        if self.p < self.b.len() {
            let v = self.b[self.p];
            self.p += 1;
            Ok(v)
        } else {
            Err(CborError::Truncated(self.p))
        }
    }
    fn arg(&mut self, ai: u8, at: usize) -> Result<(Option<u64>, u8), CborError> {
        match ai {
            0..=23 => Ok((Some(ai as u64), 0)),
            24 => Ok((Some(self.u8()? as u64), 1)),
            25 => {
                let mut v = 0u64;
                for _ in 0..2 {
                    v = (v << 8) | self.u8()? as u64;
                }
                Ok((Some(v), 2))
            }
            26 => {
                let mut v = 0u64;
                for _ in 0..4 {
                    v = (v << 8) | self.u8()? as u64;
                }
                Ok((Some(v), 4))
            }
            27 => {
                let mut v = 0u64;
                for _ in 0..8 {
                    v = (v << 8) | self.u8()? as u64;
                }
                Ok((Some(v), 8))
            }
            28..=30 => Err(CborError::Reserved(at)),
            _ => Ok((None, 0)),
        }
    }
    fn take(&mut self, n: u64, at: usize) -> Result<&'a [u8], CborError> {
        let rem = (self.b.len() - self.p) as u64;
        if n > rem {
            return Err(CborError::Truncated(at));
        }
        let s = &self.b[self.p..self.p + n as usize];
        self.p += n as usize;
        Ok(s)
    }
    fn peek_break(&self) -> bool {
        self.p < self.b.len() && self.b[self.p] == 0xFF
    }
    fn item(&mut self, depth: usize) -> Result<Node, CborError> {
        if depth > MAX_DEPTH {
            return Err(CborError::TooDeep(self.p));
        }
        let start = self.p;
        let ib = self.u8()?;
        let major = ib >> 5;
        let ai = ib & 0x1F;
        let (arg, width) = self.arg(ai, start)?;
        let kind = match major {
            0 => Kind::UInt(arg.ok_or(CborError::Reserved(start))?),
            1 => Kind::NInt(arg.ok_or(CborError::Reserved(start))?),
            2 | 3 => match arg {
                Some(n) => {
                    let d = self.take(n, start)?.to_vec();
                    if major == 2 {
                        Kind::Bytes { data: d, chunks: None }
                    } else {
                        Kind::Text { data: d, chunks: None }
                    }
                }
                None => {
                    let mut data = Vec::new();
                    let mut chunks = Vec::new();
                    loop {
                        if self.peek_break() {
                            self.p += 1;
                            break;
                        }
                        let cs = self.p;
                        let cb = self.u8()?;
                        if cb >> 5 != major {
                            return Err(CborError::BadChunk(cs));
                        }
                        let (carg, cw) = self.arg(cb & 0x1F, cs)?;
                        let n = carg.ok_or(CborError::BadChunk(cs))?;
                        let d = self.take(n, cs)?;
                        data.extend_from_slice(d);
                        chunks.push((n as usize, cw));
                    }
                    if major == 2 {
                        Kind::Bytes { data, chunks: Some(chunks) }
                    } else {
                        Kind::Text { data, chunks: Some(chunks) }
                    }
                }
            },
            4 => match arg {
                Some(n) => {
                    if n > (self.b.len() - self.p) as u64 && !self.lenient_break {
                        return Err(CborError::Truncated(start));
                    }
                    let mut items = Vec::with_capacity((n as usize).min(1024));
                    for _ in 0..n {
                        if self.peek_break() {
                            if self.lenient_break {
                                self.p += 1;
                                break;
                            }
                            return Err(CborError::UnexpectedBreak(self.p));
                        }
                        items.push(self.item(depth + 1)?);
                    }
                    Kind::Array { items, indef: false }
                }
                None => {
                    let mut items = Vec::new();
                    loop {
                        if self.peek_break() {
                            self.p += 1;
                            break;
                        }
                        items.push(self.item(depth + 1)?);
                    }
                    Kind::Array { items, indef: true }
                }
            },
            5 => match arg {
                Some(n) => {
                    if n > ((self.b.len() - self.p) / 2) as u64 && !self.lenient_break {
                        return Err(CborError::Truncated(start));
                    }
                    let mut entries = Vec::with_capacity((n as usize).min(1024));
                    for _ in 0..n {
                        if self.peek_break() {
                            if self.lenient_break {
                                self.p += 1;
                                break;
                            }
                            return Err(CborError::UnexpectedBreak(self.p));
                        }
                        let k = self.item(depth + 1)?;
                        if self.peek_break() {
                            return Err(CborError::UnexpectedBreak(self.p));
                        }
                        let v = self.item(depth + 1)?;
                        entries.push((k, v));
                    }
                    Kind::Map { entries, indef: false }
                }
                None => {
                    let mut entries = Vec::new();
                    loop {
                        if self.peek_break() {
                            self.p += 1;
                            break;
                        }
                        let k = self.item(depth + 1)?;
                        if self.peek_break() {
                            return Err(CborError::UnexpectedBreak(self.p));
                        }
                        let v = self.item(depth + 1)?;
                        entries.push((k, v));
                    }
                    Kind::Map { entries, indef: true }
                }
            },
            6 => {
                let t = arg.ok_or(CborError::Reserved(start))?;
                if self.peek_break() {
                    return Err(CborError::UnexpectedBreak(self.p));
                }
                let inner = self.item(depth + 1)?;
                Kind::Tag(t, Box::new(inner))
            }
            _ => match ai {
                0..=23 => Kind::Simple(ai),
                24 => {
                    let v = arg.unwrap() as u8;
                    if v < 32 {
                        return Err(CborError::BadSimple(start));
                    }
                    Kind::Simple(v)
                }
                25 => Kind::Float(arg.unwrap(), 2),
                26 => Kind::Float(arg.unwrap(), 4),
                27 => Kind::Float(arg.unwrap(), 8),
                _ => return Err(CborError::UnexpectedBreak(start)),
            },
        };
        Ok(Node { kind, start, end: self.p, width })
    }
}

/// parses exactly one data item spanning the whole input
pub fn parse_document(b: &[u8]) -> Result<Node, CborError> {
    let mut r = Rd { b, p: 0, lenient_break: false };
    let n = r.item(0)?;
    if r.p != b.len() {
        return Err(CborError::Trailing(r.p));
    }
    Ok(n)
}

/// true if the input is NOT well-formed but becomes parseable when a break inside a
/// definite-length array / map is read as "end of container"
pub fn malformed_only_by_break_in_definite(b: &[u8]) -> bool {
    if parse_document(b).is_ok() {
        return false;
    }
    let mut r = Rd { b, p: 0, lenient_break: true };
    match r.item(0) {
        Ok(_) => r.p == b.len(),
        Err(_) => false,
    }
}

/// parses one data item at the start of the input; returns it and the bytes consumed
pub fn parse_prefix(b: &[u8]) -> Result<(Node, usize), CborError> {
    let mut r = Rd { b, p: 0, lenient_break: false };
    let n = r.item(0)?;
    Ok((n, r.p))
}

// ---------------------------------------------------------------------------------------------
// structural scan without allocation of declared lengths (pre-filter for C02)

#[derive(Default, Debug, Clone)]
pub struct ScanFacts {
    /// largest definite string length declared that exceeds the remaining input at that point
    pub max_overdeclared_string: u64,
    /// largest definite array/map length declared anywhere
    pub max_declared_container: u64,
    pub max_depth: usize,
}

/// Grammar-walks the input the way any CBOR decoder must (heads can only be read where items
/// start), recursing into byte-string payloads (embedded CBOR), and records structural facts.
/// Never fails, never allocates by declared length.
pub fn scan(b: &[u8]) -> ScanFacts {
    let mut f = ScanFacts::default();
    scan_items(b, &mut f, 0);
    f
}

fn scan_items(b: &[u8], f: &mut ScanFacts, nest: usize) {
    let mut r = Rd { b, p: 0, lenient_break: false };
    while r.p < b.len() {
        if scan_item(&mut r, f, 0, nest).is_err() {
            break;
        }
    }
}

fn scan_item(r: &mut Rd, f: &mut ScanFacts, depth: usize, nest: usize) -> Result<(), ()> {
    f.max_depth = f.max_depth.max(depth + 1);
    if depth > 4 * MAX_DEPTH {
        return Err(());
    }
    let start = r.p;
    let ib = r.u8().map_err(|_| ())?;
    let major = ib >> 5;
    let ai = ib & 0x1F;
    let (arg, _w) = r.arg(ai, start).map_err(|_| ())?;
    match major {
        0 | 1 => Ok(()),
        2 | 3 => match arg {
            Some(n) => {
                let rem = (r.b.len() - r.p) as u64;
                if n > rem {
                    f.max_overdeclared_string = f.max_overdeclared_string.max(n);
                    return Err(());
                }
                let payload = &r.b[r.p..r.p + n as usize];
                r.p += n as usize;
                if major == 2 && nest < 3 && !payload.is_empty() {
                    scan_items(payload, f, nest + 1);
                }
                Ok(())
            }
            None => {
                loop {
                    if r.peek_break() {
                        r.p += 1;
                        return Ok(());
                    }
                    let cs = r.p;
                    let cb = r.u8().map_err(|_| ())?;
                    let (carg, _) = r.arg(cb & 0x1F, cs).map_err(|_| ())?;
                    if cb >> 5 != major {
                        return Err(());
                    }
                    let n = carg.ok_or(())?;
                    let rem = (r.b.len() - r.p) as u64;
                    if n > rem {
                        f.max_overdeclared_string = f.max_overdeclared_string.max(n);
                        return Err(());
                    }
                    r.p += n as usize;
                }
            }
        },
        4 | 5 => {
            let per = if major == 4 { 1 } else { 2 };
            match arg {
                Some(n) => {
                    f.max_declared_container = f.max_declared_container.max(n);
                    let mut i = 0u64;
                    while i < n.saturating_mul(per) {
                        scan_item(r, f, depth + 1, nest)?;
                        i += 1;
                    }
                    Ok(())
                }
                None => loop {
                    if r.peek_break() {
                        r.p += 1;
                        return Ok(());
                    }
                    scan_item(r, f, depth + 1, nest)?;
                },
            }
        }
        6 => scan_item(r, f, depth + 1, nest),
        _ => Ok(()),
    }
}

// ---------------------------------------------------------------------------------------------
// writer

fn put_head(out: &mut Vec<u8>, major: u8, arg: u64, width: u8) {
    let w = if width == 0 && arg >= 24 { min_width(arg) } else { width };
    // widen if the requested width cannot hold the argument
    let w = if w != 0 && min_width(arg) > w { min_width(arg) } else { w };
    match w {
        0 => out.push((major << 5) | arg as u8),
        1 => {
            out.push((major << 5) | 24);
            out.push(arg as u8);
        }
        2 => {
            out.push((major << 5) | 25);
            out.extend_from_slice(&(arg as u16).to_be_bytes());
        }
        4 => {
            out.push((major << 5) | 26);
            out.extend_from_slice(&(arg as u32).to_be_bytes());
        }
        _ => {
            out.push((major << 5) | 27);
            out.extend_from_slice(&arg.to_be_bytes());
        }
    }
}

pub fn encode_into(n: &Node, out: &mut Vec<u8>) {
    match &n.kind {
        Kind::UInt(v) => put_head(out, 0, *v, n.width),
        Kind::NInt(v) => put_head(out, 1, *v, n.width),
        Kind::Bytes { data, chunks } | Kind::Text { data, chunks } => {
            let major = if matches!(n.kind, Kind::Bytes { .. }) { 2 } else { 3 };
            match chunks {
                None => {
                    put_head(out, major, data.len() as u64, n.width);
                    out.extend_from_slice(data);
                }
                Some(cs) => {
                    out.push((major << 5) | 31);
                    let mut p = 0;
                    for (len, w) in cs {
                        let len = (*len).min(data.len() - p);
                        put_head(out, major, len as u64, *w);
                        out.extend_from_slice(&data[p..p + len]);
                        p += len;
                    }
                    if p < data.len() {
                        put_head(out, major, (data.len() - p) as u64, 0);
                        out.extend_from_slice(&data[p..]);
                    }
                    out.push(0xFF);
                }
            }
        }
        Kind::Array { items, indef } => {
            if *indef {
                out.push(0x9F);
            } else {
                put_head(out, 4, items.len() as u64, n.width);
            }
            for i in items {
                encode_into(i, out);
            }
            if *indef {
                out.push(0xFF);
            }
        }
        Kind::Map { entries, indef } => {
            if *indef {
                out.push(0xBF);
            } else {
                put_head(out, 5, entries.len() as u64, n.width);
            }
            for (k, v) in entries {
                encode_into(k, out);
                encode_into(v, out);
            }
            if *indef {
                out.push(0xFF);
            }
        }
        Kind::Tag(t, inner) => {
            put_head(out, 6, *t, n.width);
            encode_into(inner, out);
        }
        Kind::Simple(v) => {
            if *v < 24 {
                out.push(0xE0 | *v);
            } else {
                out.push(0xF8);
                out.push(*v);
            }
        }
        Kind::Float(bits, w) => match w {
            2 => {
                out.push(0xF9);
                out.extend_from_slice(&(*bits as u16).to_be_bytes());
            }
            4 => {
                out.push(0xFA);
                out.extend_from_slice(&(*bits as u32).to_be_bytes());
            }
            _ => {
                out.push(0xFB);
                out.extend_from_slice(&bits.to_be_bytes());
            }
        },
    }
}

pub fn encode(n: &Node) -> Vec<u8> {
    let mut out = Vec::new();
    encode_into(n, &mut out);
    out
}

// ---------------------------------------------------------------------------------------------
// constructors with canonical detail

fn mk(kind: Kind) -> Node {
    Node { kind, start: 0, end: 0, width: 0 }
}
pub fn uint(v: u64) -> Node {
    mk(Kind::UInt(v))
}
pub fn nint(v: u64) -> Node {
    mk(Kind::NInt(v))
}
pub fn int(v: i128) -> Node {
    if v >= 0 {
        uint(v as u64)
    } else {
        nint((-1 - v) as u64)
    }
}
pub fn bytes(d: &[u8]) -> Node {
    mk(Kind::Bytes { data: d.to_vec(), chunks: None })
}
pub fn text(s: &str) -> Node {
    mk(Kind::Text { data: s.as_bytes().to_vec(), chunks: None })
}
pub fn array(items: Vec<Node>) -> Node {
    mk(Kind::Array { items, indef: false })
}
pub fn array_indef(items: Vec<Node>) -> Node {
    mk(Kind::Array { items, indef: true })
}
pub fn map(entries: Vec<(Node, Node)>) -> Node {
    mk(Kind::Map { entries, indef: false })
}
pub fn tag(t: u64, inner: Node) -> Node {
    mk(Kind::Tag(t, Box::new(inner)))
}
pub fn null() -> Node {
    mk(Kind::Simple(22))
}
pub fn boolean(b: bool) -> Node {
    mk(Kind::Simple(if b { 21 } else { 20 }))
}

// ---------------------------------------------------------------------------------------------
// accessors

impl Node {
    pub fn slice<'a>(&self, doc: &'a [u8]) -> &'a [u8] {
        &doc[self.start..self.end]
    }
    pub fn as_u64(&self) -> Option<u64> {
        match &self.kind {
            Kind::UInt(v) => Some(*v),
            _ => None,
        }
    }
    /// integer value of uint / nint
    pub fn as_int(&self) -> Option<i128> {
        match &self.kind {
            Kind::UInt(v) => Some(*v as i128),
            Kind::NInt(v) => Some(-1 - *v as i128),
            _ => None,
        }
    }
    pub fn as_bytes(&self) -> Option<&[u8]> {
        match &self.kind {
            Kind::Bytes { data, .. } => Some(data),
            _ => None,
        }
    }
    pub fn as_text(&self) -> Option<&[u8]> {
        match &self.kind {
            Kind::Text { data, .. } => Some(data),
            _ => None,
        }
    }
    pub fn as_array(&self) -> Option<&Vec<Node>> {
        match &self.kind {
            Kind::Array { items, .. } => Some(items),
            _ => None,
        }
    }
    pub fn as_map(&self) -> Option<&Vec<(Node, Node)>> {
        match &self.kind {
            Kind::Map { entries, .. } => Some(entries),
            _ => None,
        }
    }
    pub fn as_tag(&self) -> Option<(u64, &Node)> {
        match &self.kind {
            Kind::Tag(t, n) => Some((*t, n)),
            _ => None,
        }
    }
    pub fn is_null(&self) -> bool {
        matches!(self.kind, Kind::Simple(22))
    }
    /// strips a tag `t` if present
    pub fn untag(&self, t: u64) -> &Node {
        match &self.kind {
            Kind::Tag(tt, n) if *tt == t => n,
            _ => self,
        }
    }
    /// value under an unsigned-integer map key
    pub fn map_get(&self, key: u64) -> Option<&Node> {
        self.as_map()?.iter().find(|(k, _)| k.as_u64() == Some(key)).map(|(_, v)| v)
    }
    pub fn is_indef(&self) -> bool {
        match &self.kind {
            Kind::Array { indef, .. } | Kind::Map { indef, .. } => *indef,
            Kind::Bytes { chunks, .. } | Kind::Text { chunks, .. } => chunks.is_some(),
            _ => false,
        }
    }
    /// the head of this node uses the shortest form for its argument
    pub fn head_minimal(&self) -> bool {
        let arg = match &self.kind {
            Kind::UInt(v) | Kind::NInt(v) => *v,
            Kind::Bytes { data, chunks: None } | Kind::Text { data, chunks: None } => data.len() as u64,
            Kind::Bytes { chunks: Some(cs), .. } | Kind::Text { chunks: Some(cs), .. } => {
                return cs.iter().all(|(l, w)| min_width(*l as u64) == *w);
            }
            Kind::Array { items, indef: false } => items.len() as u64,
            Kind::Map { entries, indef: false } => entries.len() as u64,
            Kind::Tag(t, _) => *t,
            _ => return true,
        };
        min_width(arg) == self.width
    }
    pub fn count_nodes(&self) -> usize {
        1 + match &self.kind {
            Kind::Array { items, .. } => items.iter().map(|i| i.count_nodes()).sum(),
            Kind::Map { entries, .. } => entries.iter().map(|(k, v)| k.count_nodes() + v.count_nodes()).sum(),
            Kind::Tag(_, n) => n.count_nodes(),
            _ => 0,
        }
    }
    pub fn depth(&self) -> usize {
        1 + match &self.kind {
            Kind::Array { items, .. } => items.iter().map(|i| i.depth()).max().unwrap_or(0),
            Kind::Map { entries, .. } => entries.iter().map(|(k, v)| k.depth().max(v.depth())).max().unwrap_or(0),
            Kind::Tag(_, n) => n.depth(),
            _ => 0,
        }
    }
    /// one-line diagnostic notation (truncated)
    pub fn diag(&self) -> String {
        let mut s = String::new();
        self.diag_into(&mut s, 400);
        s
    }
    fn diag_into(&self, s: &mut String, cap: usize) {
        if s.len() > cap {
            return;
        }
        match &self.kind {
            Kind::UInt(v) => s.push_str(&v.to_string()),
            Kind::NInt(v) => s.push_str(&(-1 - *v as i128).to_string()),
            Kind::Bytes { data, chunks } => {
                if chunks.is_some() {
                    s.push_str("(_ ");
                }
                s.push_str("h'");
                s.push_str(&hex::encode(&data[..data.len().min(40)]));
                if data.len() > 40 {
                    s.push_str("..");
                }
                s.push('\'');
                if chunks.is_some() {
                    s.push(')');
                }
            }
            Kind::Text { data, .. } => {
                s.push('"');
                s.push_str(&String::from_utf8_lossy(&data[..data.len().min(40)]));
                s.push('"');
            }
            Kind::Array { items, indef } => {
                s.push_str(if *indef { "[_ " } else { "[" });
                for (i, it) in items.iter().enumerate() {
                    if i > 0 {
                        s.push_str(", ");
                    }
                    it.diag_into(s, cap);
                    if s.len() > cap {
                        s.push_str("…");
                        break;
                    }
                }
                s.push(']');
            }
            Kind::Map { entries, indef } => {
                s.push_str(if *indef { "{_ " } else { "{" });
                for (i, (k, v)) in entries.iter().enumerate() {
                    if i > 0 {
                        s.push_str(", ");
                    }
                    k.diag_into(s, cap);
                    s.push_str(": ");
                    v.diag_into(s, cap);
                    if s.len() > cap {
                        s.push_str("…");
                        break;
                    }
                }
                s.push('}');
            }
            Kind::Tag(t, n) => {
                s.push_str(&format!("{}(", t));
                n.diag_into(s, cap);
                s.push(')');
            }
            Kind::Simple(20) => s.push_str("false"),
            Kind::Simple(21) => s.push_str("true"),
            Kind::Simple(22) => s.push_str("null"),
            Kind::Simple(23) => s.push_str("undefined"),
            Kind::Simple(v) => s.push_str(&format!("simple({})", v)),
            Kind::Float(b, w) => s.push_str(&format!("float{}(0x{:x})", w * 8, b)),
        }
    }
}

/// first place where the encoding is not "shortest definite": returns a description
pub fn first_noncanonical(n: &Node) -> Option<String> {
    if !n.head_minimal() {
        return Some(format!("non-minimal head at byte {}", n.start));
    }
    match &n.kind {
        Kind::Bytes { chunks: Some(_), .. } | Kind::Text { chunks: Some(_), .. } => Some(format!("indefinite string at byte {}", n.start)),
        Kind::Array { items, indef } => {
            if *indef {
                return Some(format!("indefinite array at byte {}", n.start));
            }
            items.iter().find_map(first_noncanonical)
        }
        Kind::Map { entries, indef } => {
            if *indef {
                return Some(format!("indefinite map at byte {}", n.start));
            }
            entries.iter().find_map(|(k, v)| first_noncanonical(k).or_else(|| first_noncanonical(v)))
        }
        Kind::Tag(_, inner) => first_noncanonical(inner),
        _ => None,
    }
}

/// canonical (RFC 7049 §3.9 length-first) comparison of two encoded keys
pub fn canonical_key_cmp(a: &[u8], b: &[u8]) -> std::cmp::Ordering {
    a.len().cmp(&b.len()).then_with(|| a.cmp(b))
}

#[cfg(test)]
mod tests {
    use super::*;
    fn h(s: &str) -> Vec<u8> {
        hex::decode(s).unwrap()
    }
    #[test]
    fn rfc8949_appendix_a() {
        // (hex, diag)
        let v: Vec<(&str, &str)> = vec![
            ("00", "0"),
            ("01", "1"),
            ("0a", "10"),
            ("17", "23"),
            ("1818", "24"),
            ("1819", "25"),
            ("1864", "100"),
            ("1903e8", "1000"),
            ("1a000f4240", "1000000"),
            ("1b000000e8d4a51000", "1000000000000"),
            ("1bffffffffffffffff", "18446744073709551615"),
            ("3bffffffffffffffff", "-18446744073709551616"),
            ("20", "-1"),
            ("29", "-10"),
            ("3863", "-100"),
            ("3903e7", "-1000"),
            ("f4", "false"),
            ("f5", "true"),
            ("f6", "null"),
            ("f7", "undefined"),
            ("f0", "simple(16)"),
            ("f8ff", "simple(255)"),
            ("c074323031332d30332d32315432303a30343a30305a", "0(\"2013-03-21T20:04:00Z\")"),
            ("c11a514b67b0", "1(1363896240)"),
            ("d74401020304", "23(h'01020304')"),
            ("d818456449455446", "24(h'6449455446')"),
            ("40", "h''"),
            ("4401020304", "h'01020304'"),
            ("60", "\"\""),
            ("6161", "\"a\""),
            ("6449455446", "\"IETF\""),
            ("80", "[]"),
            ("83010203", "[1, 2, 3]"),
            ("8301820203820405", "[1, [2, 3], [4, 5]]"),
            ("a0", "{}"),
            ("a201020304", "{1: 2, 3: 4}"),
            ("a26161016162820203", "{\"a\": 1, \"b\": [2, 3]}"),
            ("826161a161626163", "[\"a\", {\"b\": \"c\"}]"),
            ("5f42010243030405ff", "(_ h'0102030405')"),
            ("9fff", "[_ ]"),
            ("9f018202039f0405ffff", "[_ 1, [2, 3], [_ 4, 5]]"),
            ("83018202039f0405ff", "[1, [2, 3], [_ 4, 5]]"),
            ("bf61610161629f0203ffff", "{_ \"a\": 1, \"b\": [_ 2, 3]}"),
        ];
        for (hx, d) in v {
            let b = h(hx);
            let n = parse_document(&b).unwrap_or_else(|e| panic!("{}: {:?}", hx, e));
            assert_eq!(n.diag(), d, "{}", hx);
            assert_eq!(encode(&n), b, "re-encode {}", hx);
        }
    }
    #[test]
    fn not_well_formed() {
        for hx in ["", "18", "19ff", "1c", "1d", "1e", "41", "5f41", "5f6100ff", "81", "9f", "a1", "a100", "bf00ff", "ff", "c0", "f800", "f81f", "0000", "5fc000ff", "5f5f4100ffff", "81ff", "a1ff", "a100ff", "c1ff"] {
            assert!(parse_document(&h(hx)).is_err(), "{} should be rejected", hx);
        }
    }
    #[test]
    fn widths() {
        let n = parse_document(&h("1800")).unwrap();
        assert!(!n.head_minimal());
        assert_eq!(encode(&n), h("1800"));
        let n = parse_document(&h("9a0000000100")).unwrap();
        assert!(!n.head_minimal());
        assert_eq!(encode(&n), h("9a0000000100"));
    }
}
