//! Conway-era schema validator over `cbor.rs` trees. Shares no code with the library or cbor_event.
//! The schema is spelled out in DESIGN.md Appendix A. Every rule checks major type, arity / allowed
//! keys / mandatory keys, duplicate map keys, tags, integer ranges, size bounds, and shortest definite
//! encoding (with the two Plutus exceptions the property states).

use crate::cbor::{Kind, Node};
use std::collections::BTreeSet;

pub struct V<'a> {
    pub doc: &'a [u8],
    pub issues: Vec<String>,
    pub fired: BTreeSet<&'static str>,
    /// value-range rules that only builder outputs must satisfy (positive_coin, no empty bundles)
    pub builder: bool,
    path: Vec<String>,
}

pub fn validate(rule: &str, node: &Node, doc: &[u8], builder: bool) -> V<'static> {
    // lifetimes: copy doc so the result is self-contained
    let owned: &'static [u8] = Box::leak(doc.to_vec().into_boxed_slice());
    let mut v = V { doc: owned, issues: Vec::new(), fired: BTreeSet::new(), builder, path: Vec::new() };
    v.dispatch(rule, node);
    v
}

/// validate without leaking (callers keep doc alive)
pub fn validate_in<'a>(rule: &str, node: &Node, doc: &'a [u8], builder: bool) -> V<'a> {
    let mut v = V { doc, issues: Vec::new(), fired: BTreeSet::new(), builder, path: Vec::new() };
    v.dispatch(rule, node);
    v
}

pub fn known_rule(rule: &str) -> bool {
    !matches!(rule, "" | "certificate_fields" | "gov_action_fields" | "relay_fields" | "native_script_fields" | "hash28" | "hash32" | "address_raw")
}

impl<'a> V<'a> {
    fn err(&mut self, msg: impl Into<String>) {
        if self.issues.len() < 20 {
            self.issues.push(format!("{}: {}", self.path.join("."), msg.into()));
        }
    }
    fn at<T>(&mut self, seg: impl Into<String>, f: impl FnOnce(&mut Self) -> T) -> T {
        self.path.push(seg.into());
        let r = f(self);
        self.path.pop();
        r
    }
    fn fire(&mut self, r: &'static str) {
        self.fired.insert(r);
    }
    /// shortest definite encoding of this node's own head
    fn canon(&mut self, n: &Node, allow_indef: bool) {
        if !n.head_minimal() {
            self.err(format!("head at byte {} is not in shortest form", n.start));
        }
        if n.is_indef() && !allow_indef {
            self.err(format!("indefinite-length item at byte {} where a definite one is required", n.start));
        }
    }

    pub fn dispatch(&mut self, rule: &str, n: &Node) {
        match rule {
            "transaction" => self.transaction(n),
            "transaction_body" => self.body(n),
            "transaction_output" => self.output(n),
            "transaction_outputs" => self.array_of(n, "transaction_outputs", |s, x| s.output(x)),
            "transaction_input" => self.input(n),
            "transaction_inputs" => self.set(n, false, "transaction_inputs", |s, x| s.input(x)),
            "utxo" => {
                self.fire("utxo");
                if let Some(items) = self.tuple(n, 2, 2) {
                    self.input(&items[0]);
                    self.output(&items[1]);
                }
            }
            "value" => self.value(n),
            "multiasset" => self.multiasset(n, false, false),
            "assets" => self.assets(n),
            "asset_name" => self.bytes_max(n, 32, "asset_name"),
            "mint" => self.multiasset(n, true, false),
            "certificate" => self.certificate(n),
            "certificates" => self.set(n, false, "certificates", |s, x| s.certificate(x)),
            "credential" => self.credential(n),
            "credentials" => self.set(n, false, "credentials", |s, x| s.credential(x)),
            "key_hashes" => self.set(n, false, "key_hashes", |s, x| s.hash(x, 28)),
            "pool_params" => {
                self.fire("pool_params");
                self.canon(n, false);
                match n.as_array() {
                    Some(items) if items.len() == 9 => self.pool_params(items),
                    _ => self.err("pool_params must be an array of 9"),
                }
            }
            "pool_metadata" => self.pool_metadata(n),
            "relay" => self.relay(n),
            "relays" => self.array_of(n, "relays", |s, x| s.relay(x)),
            "ipv4" => self.bytes_exact(n, 4, "ipv4"),
            "ipv6" => self.bytes_exact(n, 16, "ipv6"),
            "dns_name" => self.text_max(n, 128, "dns_name"),
            "url" => self.text_max(n, 128, "url"),
            "drep" => self.drep(n),
            "anchor" => self.anchor(n),
            "voter" => self.voter(n),
            "gov_action_id" => self.gov_action_id(n),
            "voting_procedure" => self.voting_procedure(n),
            "voting_procedures" => self.voting_procedures(n),
            "proposal_procedure" => self.proposal(n),
            "proposal_procedures" => self.set(n, false, "proposal_procedures", |s, x| s.proposal(x)),
            "gov_action" => self.gov_action(n),
            "constitution" => self.constitution(n),
            "protocol_param_update" => self.ppu(n),
            "cost_models" => self.cost_models(n),
            "cost_model" => self.array_of(n, "cost_model", |s, x| {
                s.int(x);
            }),
            "ex_units" => self.ex_units(n),
            "ex_unit_prices" => self.ex_unit_prices(n),
            "unit_interval" => self.unit_interval(n),
            "pool_voting_thresholds" => self.n_unit_intervals(n, 5, "pool_voting_thresholds"),
            "drep_voting_thresholds" => self.n_unit_intervals(n, 10, "drep_voting_thresholds"),
            "protocol_version" => self.protocol_version(n),
            "transaction_witness_set" => self.witness_set(n),
            "vkeywitness" => self.vkeywitness(n),
            "vkeywitnesses" => self.set(n, false, "vkeywitnesses", |s, x| s.vkeywitness(x)),
            "vkey" => self.bytes_exact(n, 32, "vkey"),
            "bootstrap_witness" => self.bootstrap_witness(n),
            "bootstrap_witnesses" => self.set(n, false, "bootstrap_witnesses", |s, x| s.bootstrap_witness(x)),
            "native_script" => self.native_script(n),
            "native_scripts" => self.maybe_set(n, "native_scripts", |s, x| s.native_script(x)),
            "plutus_scripts" => self.maybe_set(n, "plutus_scripts", |s, x| s.any_bytes(x)),
            "plutus_data" => self.plutus_data(n),
            "plutus_list" => self.plutus_list_standalone(n),
            "redeemer" => self.redeemer_flat(n),
            "redeemer_tag" => {
                self.uint_max(n, 5, "redeemer_tag");
            }
            "redeemers" => self.redeemers(n),
            "auxiliary_data" => self.auxiliary_data(n),
            "metadata" => self.metadata(n),
            "metadatum" => self.metadatum(n),
            "metadatum_list" => self.array_of(n, "metadatum_list", |s, x| s.metadatum(x)),
            "metadatum_map" => self.metadatum_map(n),
            "script_ref" => self.script_ref(n),
            "withdrawals" => self.withdrawals(n),
            "update" => self.update(n),
            "mir" => self.mir(n),
            "network_id" => {
                self.uint_max(n, 1, "network_id");
            }
            "language" => {
                self.uint_max(n, 2, "language");
            }
            "uint" => {
                self.uint(n);
            }
            "int" => {
                self.int(n);
            }
            "big_int" => self.big_int(n),
            "bytes" => self.any_bytes(n),
            other => self.err(format!("no schema rule named {}", other)),
        }
    }

    // ---------------------------------------------------------------------------------------
    // leaves

    fn uint(&mut self, n: &Node) -> Option<u64> {
        self.canon(n, false);
        match n.as_u64() {
            Some(v) => Some(v),
            None => {
                self.err(format!("expected uint, found {}", short(n)));
                None
            }
        }
    }
    fn uint_max(&mut self, n: &Node, max: u64, what: &'static str) -> Option<u64> {
        self.fire(what);
        let v = self.uint(n)?;
        if v > max {
            self.err(format!("{} {} exceeds {}", what, v, max));
        }
        Some(v)
    }
    fn positive_coin(&mut self, n: &Node) {
        if let Some(v) = self.uint(n) {
            if v == 0 {
                self.err("positive_coin is 0");
            }
        }
    }
    fn int(&mut self, n: &Node) -> Option<i128> {
        self.canon(n, false);
        match n.as_int() {
            Some(v) => Some(v),
            None => {
                self.err(format!("expected int, found {}", short(n)));
                None
            }
        }
    }
    fn int64(&mut self, n: &Node) -> Option<i128> {
        let v = self.int(n)?;
        if v < i64::MIN as i128 || v > i64::MAX as i128 {
            self.err(format!("int64 out of range: {}", v));
        }
        Some(v)
    }
    fn hash(&mut self, n: &Node, len: usize) {
        self.bytes_exact(n, len, if len == 28 { "hash28" } else { "hash32" })
    }
    fn bytes_exact(&mut self, n: &Node, len: usize, what: &'static str) {
        self.fire(what);
        self.canon(n, false);
        match n.as_bytes() {
            Some(b) if b.len() == len => {}
            Some(b) => self.err(format!("{}: byte string of length {} where {} is required", what, b.len(), len)),
            None => self.err(format!("{}: expected bytes({}), found {}", what, len, short(n))),
        }
    }
    fn bytes_max(&mut self, n: &Node, max: usize, what: &'static str) {
        self.fire(what);
        self.canon(n, false);
        match n.as_bytes() {
            Some(b) if b.len() <= max => {}
            Some(b) => self.err(format!("{}: byte string of length {} exceeds {}", what, b.len(), max)),
            None => self.err(format!("{}: expected bytes, found {}", what, short(n))),
        }
    }
    fn any_bytes(&mut self, n: &Node) {
        self.canon(n, false);
        if n.as_bytes().is_none() {
            self.err(format!("expected bytes, found {}", short(n)));
        }
    }
    fn text_max(&mut self, n: &Node, max: usize, what: &'static str) {
        self.fire(what);
        self.canon(n, false);
        match n.as_text() {
            Some(b) => {
                if b.len() > max {
                    self.err(format!("{}: text of {} bytes exceeds {}", what, b.len(), max));
                }
                if std::str::from_utf8(b).is_err() {
                    self.err(format!("{}: text is not valid UTF-8", what));
                }
            }
            None => self.err(format!("{}: expected text, found {}", what, short(n))),
        }
    }
    /// definite array with between lo and hi elements
    fn tuple<'n>(&mut self, n: &'n Node, lo: usize, hi: usize) -> Option<&'n Vec<Node>> {
        self.canon(n, false);
        match n.as_array() {
            Some(items) if items.len() >= lo && items.len() <= hi => Some(items),
            Some(items) => {
                self.err(format!("array of {} elements where {}..{} are allowed", items.len(), lo, hi));
                None
            }
            None => {
                self.err(format!("expected array, found {}", short(n)));
                None
            }
        }
    }
    fn array_of(&mut self, n: &Node, what: &'static str, mut f: impl FnMut(&mut Self, &Node)) {
        self.fire(what);
        self.canon(n, false);
        match n.as_array() {
            Some(items) => {
                for (i, x) in items.iter().enumerate() {
                    self.at(format!("{}[{}]", what, i), |s| f(s, x));
                }
            }
            None => self.err(format!("{}: expected array, found {}", what, short(n))),
        }
    }
    /// #6.258([* a]) with pairwise distinct elements
    fn set(&mut self, n: &Node, nonempty: bool, what: &'static str, mut f: impl FnMut(&mut Self, &Node)) {
        self.fire(what);
        self.canon(n, false);
        match n.as_tag() {
            Some((258, inner)) => {
                self.canon(inner, false);
                match inner.as_array() {
                    Some(items) => {
                        if nonempty && items.is_empty() {
                            self.err(format!("{}: nonempty_set is empty", what));
                        }
                        let mut seen: BTreeSet<&[u8]> = BTreeSet::new();
                        for (i, x) in items.iter().enumerate() {
                            if !seen.insert(&self.doc[x.start..x.end]) {
                                self.err(format!("{}: element {} occurs twice in a set", what, i));
                            }
                            self.at(format!("{}[{}]", what, i), |s| f(s, x));
                        }
                    }
                    None => self.err(format!("{}: tag 258 must wrap an array", what)),
                }
            }
            Some((t, _)) => self.err(format!("{}: set carries tag {} instead of 258", what, t)),
            None => self.err(format!("{}: set-typed field without tag 258 ({})", what, short(n))),
        }
    }
    /// stand-alone list types that are sets only inside a witness set: tagged or plain array
    fn maybe_set(&mut self, n: &Node, what: &'static str, mut f: impl FnMut(&mut Self, &Node)) {
        if n.as_tag().is_some() {
            self.set(n, false, what, f)
        } else {
            self.array_of(n, what, |s, x| f(s, x))
        }
    }
    /// map with uint keys: checks definite, minimal, no duplicate keys, allowed / mandatory keys
    fn keyed_map<'n>(&mut self, n: &'n Node, what: &'static str, allowed: &[u64], mandatory: &[u64]) -> Vec<(u64, &'n Node)> {
        self.fire(what);
        self.canon(n, false);
        let mut out = Vec::new();
        match n.as_map() {
            Some(entries) => {
                let mut seen = BTreeSet::new();
                for (k, v) in entries {
                    self.canon(k, false);
                    match k.as_u64() {
                        Some(key) => {
                            if !seen.insert(key) {
                                self.err(format!("{}: key {} occurs twice", what, key));
                            }
                            if !allowed.contains(&key) {
                                self.err(format!("{}: key {} is not in the schema", what, key));
                            }
                            out.push((key, v));
                        }
                        None => self.err(format!("{}: non-uint key {}", what, short(k))),
                    }
                }
                for m in mandatory {
                    if !seen.contains(m) {
                        self.err(format!("{}: mandatory key {} missing", what, m));
                    }
                }
            }
            None => self.err(format!("{}: expected map, found {}", what, short(n))),
        }
        out
    }
    /// generic map: definite, minimal, keys pairwise distinct (byte comparison)
    fn map_entries<'n>(&mut self, n: &'n Node, what: &'static str) -> &'n [(Node, Node)] {
        self.fire(what);
        self.canon(n, false);
        match n.as_map() {
            Some(entries) => {
                let mut seen: BTreeSet<&[u8]> = BTreeSet::new();
                for (k, _) in entries {
                    if !seen.insert(&self.doc[k.start..k.end]) {
                        self.err(format!("{}: duplicate map key {}", what, short(k)));
                    }
                }
                entries
            }
            None => {
                self.err(format!("{}: expected map, found {}", what, short(n)));
                &[]
            }
        }
    }
    fn nullable(&mut self, n: &Node, f: impl FnOnce(&mut Self, &Node)) {
        if n.is_null() {
            self.fire("null");
        } else {
            f(self, n)
        }
    }

    // ---------------------------------------------------------------------------------------
    // transaction

    fn transaction(&mut self, n: &Node) {
        self.fire("transaction");
        if let Some(items) = self.tuple(n, 4, 4) {
            self.at("body", |s| s.body(&items[0]));
            self.at("witness_set", |s| s.witness_set(&items[1]));
            if !matches!(items[2].kind, Kind::Simple(20) | Kind::Simple(21)) {
                self.err("is_valid must be a bool");
            }
            self.at("auxiliary_data", |s| s.nullable(&items[3], |s, x| s.auxiliary_data(x)));
        }
    }

    fn body(&mut self, n: &Node) {
        const ALLOWED: [u64; 21] = [0, 1, 2, 3, 4, 5, 6, 7, 8, 9, 11, 13, 14, 15, 16, 17, 18, 19, 20, 21, 22];
        let fields = self.keyed_map(n, "transaction_body", &ALLOWED, &[0, 1, 2]);
        for (k, v) in fields {
            self.at(format!("body[{}]", k), |s| match k {
                0 => s.set(v, false, "body.inputs", |s, x| s.input(x)),
                1 => s.array_of(v, "body.outputs", |s, x| s.output(x)),
                2 => {
                    s.fire("body.fee");
                    s.uint(v);
                }
                3 => {
                    s.fire("body.ttl");
                    s.uint(v);
                }
                4 => s.set(v, true, "body.certificates", |s, x| s.certificate(x)),
                5 => {
                    // withdrawals = {+ reward_account => coin}: a body that has the key has at least one entry
                    if v.as_map().map(|m| m.is_empty()).unwrap_or(false) {
                        s.err("body.withdrawals: empty map (the schema requires at least one withdrawal; an empty collection is written by leaving the key out)");
                    }
                    s.withdrawals(v)
                }
                6 => s.update(v),
                7 => {
                    s.fire("body.auxiliary_data_hash");
                    s.hash(v, 32)
                }
                8 => {
                    s.fire("body.validity_start");
                    s.uint(v);
                }
                9 => s.multiasset(v, true, true),
                11 => {
                    s.fire("body.script_data_hash");
                    s.hash(v, 32)
                }
                13 => s.set(v, true, "body.collateral", |s, x| s.input(x)),
                14 => s.set(v, true, "body.required_signers", |s, x| s.hash(x, 28)),
                15 => {
                    s.uint_max(v, 1, "body.network_id");
                }
                16 => {
                    s.fire("body.collateral_return");
                    s.output(v)
                }
                17 => {
                    s.fire("body.total_collateral");
                    s.uint(v);
                }
                18 => s.set(v, true, "body.reference_inputs", |s, x| s.input(x)),
                19 => {
                    if v.as_map().map(|m| m.is_empty()).unwrap_or(false) {
                        s.err("body.voting_procedures: empty map (the schema requires at least one voter)");
                    }
                    s.voting_procedures(v)
                }
                20 => s.set(v, true, "body.proposal_procedures", |s, x| s.proposal(x)),
                21 => {
                    s.fire("body.current_treasury_value");
                    s.uint(v);
                }
                22 => {
                    s.fire("body.donation");
                    s.positive_coin(v)
                }
                _ => {}
            });
        }
    }

    fn input(&mut self, n: &Node) {
        self.fire("transaction_input");
        if let Some(items) = self.tuple(n, 2, 2) {
            self.hash(&items[0], 32);
            if let Some(i) = self.uint(&items[1]) {
                if i > 65535 {
                    self.err(format!("transaction index {} exceeds uint .size 2", i));
                }
            }
        }
    }

    fn address(&mut self, n: &Node) {
        self.fire("address");
        self.any_bytes(n);
    }

    fn reward_account(&mut self, n: &Node) {
        self.fire("reward_account");
        self.canon(n, false);
        match n.as_bytes() {
            Some(b) => {
                if b.len() != 29 {
                    self.err(format!("reward_account of {} bytes (29 required)", b.len()));
                } else if b[0] >> 5 != 0b111 {
                    self.err(format!("reward_account header {:02x} is not a reward address header", b[0]));
                }
            }
            None => self.err(format!("reward_account: expected bytes, found {}", short(n))),
        }
    }

    fn output(&mut self, n: &Node) {
        self.canon(n, false);
        match &n.kind {
            Kind::Array { items, .. } => {
                self.fire("transaction_output(legacy)");
                if items.len() < 2 || items.len() > 3 {
                    self.err(format!("legacy output with {} elements", items.len()));
                    return;
                }
                self.address(&items[0]);
                self.value(&items[1]);
                if items.len() == 3 {
                    self.fire("output.datum_hash(legacy)");
                    self.hash(&items[2], 32);
                }
            }
            Kind::Map { .. } => {
                let fields = self.keyed_map(n, "transaction_output(map)", &[0, 1, 2, 3], &[0, 1]);
                for (k, v) in fields {
                    match k {
                        0 => self.address(v),
                        1 => self.value(v),
                        2 => self.datum_option(v),
                        3 => self.script_ref(v),
                        _ => {}
                    }
                }
            }
            _ => self.err(format!("transaction_output must be an array or a map, found {}", short(n))),
        }
    }

    fn datum_option(&mut self, n: &Node) {
        self.fire("datum_option");
        if let Some(items) = self.tuple(n, 2, 2) {
            match self.uint(&items[0]) {
                Some(0) => {
                    self.fire("datum_option.hash");
                    self.hash(&items[1], 32)
                }
                Some(1) => {
                    self.fire("datum_option.inline");
                    self.embedded(&items[1], "inline datum", |s, inner| s.plutus_data(inner))
                }
                Some(k) => self.err(format!("datum_option kind {}", k)),
                None => {}
            }
        }
    }

    /// #6.24(bytes .cbor X)
    fn embedded(&mut self, n: &Node, what: &str, f: impl FnOnce(&mut V, &Node)) {
        self.canon(n, false);
        match n.as_tag() {
            Some((24, inner)) => {
                self.canon(inner, false);
                match inner.as_bytes() {
                    Some(b) => match crate::cbor::parse_document(b) {
                        Ok(doc) => {
                            let mut sub = V { doc: b, issues: Vec::new(), fired: BTreeSet::new(), builder: self.builder, path: self.path.clone() };
                            f(&mut sub, &doc);
                            for i in sub.issues {
                                if self.issues.len() < 20 {
                                    self.issues.push(i);
                                }
                            }
                            self.fired.extend(sub.fired);
                        }
                        Err(e) => self.err(format!("{}: embedded bytes are not well-formed CBOR ({})", what, e)),
                    },
                    None => self.err(format!("{}: tag 24 must wrap a byte string", what)),
                }
            }
            _ => self.err(format!("{}: expected #6.24(bytes), found {}", what, short(n))),
        }
    }

    fn script_ref(&mut self, n: &Node) {
        self.fire("script_ref");
        self.embedded(n, "script_ref", |s, inner| {
            if let Some(items) = s.tuple(inner, 2, 2) {
                match s.uint(&items[0]) {
                    Some(0) => {
                        s.fire("script_ref.native");
                        s.native_script(&items[1])
                    }
                    Some(1) | Some(2) | Some(3) => {
                        s.fire("script_ref.plutus");
                        s.any_bytes(&items[1])
                    }
                    Some(k) => s.err(format!("script kind {}", k)),
                    None => {}
                }
            }
        });
    }

    fn value(&mut self, n: &Node) {
        self.fire("value");
        match &n.kind {
            Kind::UInt(v) => {
                self.canon(n, false);
                if self.builder && *v == 0 {
                    // min-ADA makes a zero coin impossible in builder outputs, but that is C07's business
                }
            }
            Kind::Array { .. } => {
                if let Some(items) = self.tuple(n, 2, 2) {
                    self.uint(&items[0]);
                    self.multiasset(&items[1], false, true);
                }
            }
            _ => self.err(format!("value must be coin or [coin, multiasset], found {}", short(n))),
        }
    }

    fn assets(&mut self, n: &Node) {
        let entries = self.map_entries(n, "assets");
        for (k, q) in entries {
            self.bytes_max(k, 32, "asset_name");
            self.uint(q);
        }
    }

    /// multiasset<coin> (mint = false) or multiasset<nonzero int64> (mint = true).
    /// `in_tx`: part of a transaction (output value or mint field) as opposed to the stand-alone type
    fn multiasset(&mut self, n: &Node, mint: bool, in_tx: bool) {
        let what: &'static str = if mint { "mint" } else { "multiasset" };
        let entries = self.map_entries(n, what);
        if in_tx && entries.is_empty() && (mint || self.builder) {
            self.err(format!("{}: empty map (the schema requires at least one policy)", what));
        }
        for (p, assets) in entries {
            self.hash(p, 28);
            let inner = self.map_entries(assets, if mint { "mint.assets" } else { "multiasset.assets" });
            if inner.is_empty() && (self.builder || mint) && in_tx {
                self.err(format!("{}: empty policy bundle", what));
            }
            for (name, q) in inner {
                self.bytes_max(name, 32, "asset_name");
                if mint {
                    if let Some(v) = self.int64(q) {
                        if v == 0 {
                            self.err("mint: zero quantity");
                        }
                    }
                } else if let Some(v) = self.uint(q) {
                    if self.builder && v == 0 {
                        self.err("multiasset: zero-quantity asset in a builder output");
                    }
                }
            }
        }
    }

    fn withdrawals(&mut self, n: &Node) {
        let entries = self.map_entries(n, "withdrawals");
        for (k, v) in entries {
            self.reward_account(k);
            self.uint(v);
        }
    }

    // ---------------------------------------------------------------------------------------
    // certificates

    fn credential(&mut self, n: &Node) {
        self.fire("credential");
        if let Some(items) = self.tuple(n, 2, 2) {
            match self.uint(&items[0]) {
                Some(0) | Some(1) => self.hash(&items[1], 28),
                Some(k) => self.err(format!("credential kind {}", k)),
                None => {}
            }
        }
    }

    fn drep(&mut self, n: &Node) {
        self.fire("drep");
        if let Some(items) = self.tuple(n, 1, 2) {
            match (self.uint(&items[0]), items.len()) {
                (Some(0), 2) | (Some(1), 2) => self.hash(&items[1], 28),
                (Some(2), 1) | (Some(3), 1) => {}
                (k, l) => self.err(format!("drep kind {:?} with {} elements", k, l)),
            }
        }
    }

    fn anchor(&mut self, n: &Node) {
        self.fire("anchor");
        if let Some(items) = self.tuple(n, 2, 2) {
            self.text_max(&items[0], 128, "url");
            self.hash(&items[1], 32);
        }
    }

    fn unit_interval(&mut self, n: &Node) {
        self.fire("unit_interval");
        self.canon(n, false);
        match n.as_tag() {
            Some((30, inner)) => {
                if let Some(items) = self.tuple(inner, 2, 2) {
                    self.uint(&items[0]);
                    self.uint(&items[1]);
                }
            }
            _ => self.err(format!("unit_interval must be #6.30([uint, uint]), found {}", short(n))),
        }
    }

    fn n_unit_intervals(&mut self, n: &Node, k: usize, what: &'static str) {
        self.fire(what);
        if let Some(items) = self.tuple(n, k, k) {
            for x in items {
                self.unit_interval(x);
            }
        }
    }

    fn pool_metadata(&mut self, n: &Node) {
        self.fire("pool_metadata");
        if let Some(items) = self.tuple(n, 2, 2) {
            self.text_max(&items[0], 128, "url");
            self.hash(&items[1], 32);
        }
    }

    fn port(&mut self, n: &Node) {
        self.nullable(n, |s, x| {
            if let Some(p) = s.uint(x) {
                if p > 65535 {
                    s.err(format!("port {} exceeds uint .size 2", p));
                }
            }
        });
    }

    fn relay(&mut self, n: &Node) {
        self.fire("relay");
        self.canon(n, false);
        let items = match n.as_array() {
            Some(i) if !i.is_empty() => i,
            _ => {
                self.err("relay must be a non-empty array");
                return;
            }
        };
        match (self.uint(&items[0]), items.len()) {
            (Some(0), 4) => {
                self.fire("relay.single_host_addr");
                self.port(&items[1]);
                self.nullable(&items[2], |s, x| s.bytes_exact(x, 4, "ipv4"));
                self.nullable(&items[3], |s, x| s.bytes_exact(x, 16, "ipv6"));
            }
            (Some(1), 3) => {
                self.fire("relay.single_host_name");
                self.port(&items[1]);
                self.text_max(&items[2], 128, "dns_name");
            }
            (Some(2), 2) => {
                self.fire("relay.multi_host_name");
                self.text_max(&items[1], 128, "dns_name");
            }
            (k, l) => self.err(format!("relay kind {:?} with {} elements", k, l)),
        }
    }

    fn pool_params(&mut self, f: &[Node]) {
        // operator, vrf_keyhash, pledge, cost, margin, reward_account, pool_owners, relays, pool_metadata
        self.fire("pool_params");
        self.hash(&f[0], 28);
        self.hash(&f[1], 32);
        self.uint(&f[2]);
        self.uint(&f[3]);
        self.unit_interval(&f[4]);
        self.reward_account(&f[5]);
        self.set(&f[6], false, "pool_owners", |s, x| s.hash(x, 28));
        self.array_of(&f[7], "relays", |s, x| s.relay(x));
        self.nullable(&f[8], |s, x| s.pool_metadata(x));
    }

    fn mir(&mut self, n: &Node) {
        self.fire("mir");
        if let Some(items) = self.tuple(n, 2, 2) {
            self.uint_max(&items[0], 1, "mir.pot");
            match &items[1].kind {
                Kind::Map { .. } => {
                    let entries = self.map_entries(&items[1], "mir.to_stake_credentials");
                    for (k, v) in entries {
                        self.credential(k);
                        self.int(v);
                    }
                }
                _ => {
                    self.uint(&items[1]);
                }
            }
        }
    }

    fn certificate(&mut self, n: &Node) {
        self.fire("certificate");
        self.canon(n, false);
        let f = match n.as_array() {
            Some(i) if !i.is_empty() => i,
            _ => {
                self.err(format!("certificate must be a non-empty array, found {}", short(n)));
                return;
            }
        };
        let kind = match self.uint(&f[0]) {
            Some(k) => k,
            None => return,
        };
        let arity: usize = match kind {
            0 | 1 => 2,
            2 => 3,
            3 => 10,
            4 => 3,
            5 => 4,
            6 => 2,
            7 | 8 | 9 => 3,
            10 | 11 | 12 => 4,
            13 => 5,
            14 | 15 => 3,
            16 => 4,
            17 | 18 => 3,
            _ => {
                self.err(format!("certificate kind {} is not in the schema", kind));
                return;
            }
        };
        if f.len() != arity {
            self.err(format!("certificate kind {} with {} elements ({} required)", kind, f.len(), arity));
            return;
        }
        const NAMES: [&str; 19] = [
            "cert.0.stake_registration", "cert.1.stake_deregistration", "cert.2.stake_delegation", "cert.3.pool_registration", "cert.4.pool_retirement",
            "cert.5.genesis_key_delegation", "cert.6.mir", "cert.7.reg_cert", "cert.8.unreg_cert", "cert.9.vote_deleg", "cert.10.stake_vote_deleg",
            "cert.11.stake_reg_deleg", "cert.12.vote_reg_deleg", "cert.13.stake_vote_reg_deleg", "cert.14.auth_committee_hot", "cert.15.resign_committee_cold",
            "cert.16.reg_drep", "cert.17.unreg_drep", "cert.18.update_drep",
        ];
        self.fire(NAMES[kind as usize]);
        match kind {
            0 | 1 => self.credential(&f[1]),
            2 => {
                self.credential(&f[1]);
                self.hash(&f[2], 28);
            }
            3 => self.pool_params(&f[1..]),
            4 => {
                self.hash(&f[1], 28);
                self.uint(&f[2]);
            }
            5 => {
                self.hash(&f[1], 28);
                self.hash(&f[2], 28);
                self.hash(&f[3], 32);
            }
            6 => self.mir(&f[1]),
            7 | 8 => {
                self.credential(&f[1]);
                self.uint(&f[2]);
            }
            9 => {
                self.credential(&f[1]);
                self.drep(&f[2]);
            }
            10 => {
                self.credential(&f[1]);
                self.hash(&f[2], 28);
                self.drep(&f[3]);
            }
            11 => {
                self.credential(&f[1]);
                self.hash(&f[2], 28);
                self.uint(&f[3]);
            }
            12 => {
                self.credential(&f[1]);
                self.drep(&f[2]);
                self.uint(&f[3]);
            }
            13 => {
                self.credential(&f[1]);
                self.hash(&f[2], 28);
                self.drep(&f[3]);
                self.uint(&f[4]);
            }
            14 => {
                self.credential(&f[1]);
                self.credential(&f[2]);
            }
            15 => {
                self.credential(&f[1]);
                self.nullable(&f[2], |s, x| s.anchor(x));
            }
            16 => {
                self.credential(&f[1]);
                self.uint(&f[2]);
                self.nullable(&f[3], |s, x| s.anchor(x));
            }
            17 => {
                self.credential(&f[1]);
                self.uint(&f[2]);
            }
            18 => {
                self.credential(&f[1]);
                self.nullable(&f[2], |s, x| s.anchor(x));
            }
            _ => {}
        }
    }

    // ---------------------------------------------------------------------------------------
    // governance

    fn voter(&mut self, n: &Node) {
        self.fire("voter");
        if let Some(items) = self.tuple(n, 2, 2) {
            match self.uint(&items[0]) {
                Some(0..=4) => self.hash(&items[1], 28),
                Some(k) => self.err(format!("voter kind {}", k)),
                None => {}
            }
        }
    }

    fn gov_action_id(&mut self, n: &Node) {
        self.fire("gov_action_id");
        if let Some(items) = self.tuple(n, 2, 2) {
            self.hash(&items[0], 32);
            if let Some(i) = self.uint(&items[1]) {
                if i > 65535 {
                    self.err(format!("gov action index {} exceeds uint .size 2", i));
                }
            }
        }
    }

    fn voting_procedure(&mut self, n: &Node) {
        self.fire("voting_procedure");
        if let Some(items) = self.tuple(n, 2, 2) {
            self.uint_max(&items[0], 2, "vote");
            self.nullable(&items[1], |s, x| s.anchor(x));
        }
    }

    fn voting_procedures(&mut self, n: &Node) {
        let entries = self.map_entries(n, "voting_procedures");
        for (voter, votes) in entries {
            self.voter(voter);
            let inner = self.map_entries(votes, "voting_procedures.votes");
            if inner.is_empty() {
                self.err("voting_procedures: a voter with no votes");
            }
            for (id, proc_) in inner {
                self.gov_action_id(id);
                self.voting_procedure(proc_);
            }
        }
    }

    fn proposal(&mut self, n: &Node) {
        self.fire("proposal_procedure");
        if let Some(items) = self.tuple(n, 4, 4) {
            self.uint(&items[0]);
            self.reward_account(&items[1]);
            self.gov_action(&items[2]);
            self.anchor(&items[3]);
        }
    }

    fn constitution(&mut self, n: &Node) {
        self.fire("constitution");
        if let Some(items) = self.tuple(n, 2, 2) {
            self.anchor(&items[0]);
            self.nullable(&items[1], |s, x| s.hash(x, 28));
        }
    }

    fn gov_action(&mut self, n: &Node) {
        self.fire("gov_action");
        self.canon(n, false);
        let f = match n.as_array() {
            Some(i) if !i.is_empty() => i,
            _ => {
                self.err("gov_action must be a non-empty array");
                return;
            }
        };
        let kind = match self.uint(&f[0]) {
            Some(k) => k,
            None => return,
        };
        let arity = match kind {
            0 => 4,
            1 => 3,
            2 => 3,
            3 => 2,
            4 => 5,
            5 => 3,
            6 => 1,
            _ => {
                self.err(format!("gov_action kind {}", kind));
                return;
            }
        };
        if f.len() != arity {
            self.err(format!("gov_action kind {} with {} elements ({} required)", kind, f.len(), arity));
            return;
        }
        const NAMES: [&str; 7] = ["gov_action.0.parameter_change", "gov_action.1.hard_fork", "gov_action.2.treasury_withdrawals", "gov_action.3.no_confidence", "gov_action.4.update_committee", "gov_action.5.new_constitution", "gov_action.6.info"];
        self.fire(NAMES[kind as usize]);
        match kind {
            0 => {
                self.nullable(&f[1], |s, x| s.gov_action_id(x));
                self.ppu(&f[2]);
                self.nullable(&f[3], |s, x| s.hash(x, 28));
            }
            1 => {
                self.nullable(&f[1], |s, x| s.gov_action_id(x));
                self.protocol_version(&f[2]);
            }
            2 => {
                let entries = self.map_entries(&f[1], "treasury_withdrawals");
                for (k, v) in entries {
                    self.reward_account(k);
                    self.uint(v);
                }
                self.nullable(&f[2], |s, x| s.hash(x, 28));
            }
            3 => self.nullable(&f[1], |s, x| s.gov_action_id(x)),
            4 => {
                self.nullable(&f[1], |s, x| s.gov_action_id(x));
                self.set(&f[2], false, "committee.members_to_remove", |s, x| s.credential(x));
                let entries = self.map_entries(&f[3], "committee.members");
                for (k, v) in entries {
                    self.credential(k);
                    self.uint(v);
                }
                self.unit_interval(&f[4]);
            }
            5 => {
                self.nullable(&f[1], |s, x| s.gov_action_id(x));
                self.constitution(&f[2]);
            }
            _ => {}
        }
    }

    fn protocol_version(&mut self, n: &Node) {
        self.fire("protocol_version");
        if let Some(items) = self.tuple(n, 2, 2) {
            self.uint(&items[0]);
            self.uint(&items[1]);
        }
    }

    fn ex_units(&mut self, n: &Node) {
        self.fire("ex_units");
        if let Some(items) = self.tuple(n, 2, 2) {
            self.uint(&items[0]);
            self.uint(&items[1]);
        }
    }

    fn ex_unit_prices(&mut self, n: &Node) {
        self.fire("ex_unit_prices");
        if let Some(items) = self.tuple(n, 2, 2) {
            self.unit_interval(&items[0]);
            self.unit_interval(&items[1]);
        }
    }

    fn cost_models(&mut self, n: &Node) {
        let entries = self.map_entries(n, "cost_models");
        for (k, v) in entries {
            if let Some(l) = self.uint(k) {
                if l > 255 {
                    self.err(format!("cost model language {}", l));
                }
            }
            self.array_of(v, "cost_model", |s, x| {
                s.int(x);
            });
        }
    }

    fn sized(&mut self, n: &Node, bytes: u32) {
        if let Some(v) = self.uint(n) {
            let max = if bytes >= 8 { u64::MAX } else { (1u64 << (8 * bytes)) - 1 };
            if v > max {
                self.err(format!("{} exceeds uint .size {}", v, bytes));
            }
        }
    }

    fn ppu(&mut self, n: &Node) {
        const ALLOWED: [u64; 31] = [0, 1, 2, 3, 4, 5, 6, 7, 8, 9, 10, 11, 12, 13, 14, 16, 17, 18, 19, 20, 21, 22, 23, 24, 25, 26, 27, 28, 29, 30, 31];
        let mut allowed = ALLOWED.to_vec();
        allowed.push(32);
        allowed.push(33);
        let fields = self.keyed_map(n, "protocol_param_update", &allowed, &[]);
        for (k, v) in fields {
            self.at(format!("ppu[{}]", k), |s| match k {
                0 | 1 | 5 | 6 | 16 | 17 | 30 | 31 => {
                    s.uint(v);
                }
                2 | 3 | 7 | 22 | 28 | 29 | 32 => s.sized(v, 4),
                4 | 8 | 23 | 24 | 27 => s.sized(v, 2),
                9 | 10 | 11 | 12 | 33 => s.unit_interval(v),
                13 => {
                    if let Some(items) = s.tuple(v, 1, 2) {
                        match (s.uint(&items[0]), items.len()) {
                            (Some(0), 1) => {}
                            (Some(1), 2) => s.hash(&items[1], 32),
                            _ => s.err("nonce must be [0] or [1, bytes32]"),
                        }
                    }
                }
                14 => s.protocol_version(v),
                18 => s.cost_models(v),
                19 => s.ex_unit_prices(v),
                20 | 21 => s.ex_units(v),
                25 => s.n_unit_intervals(v, 5, "pool_voting_thresholds"),
                26 => s.n_unit_intervals(v, 10, "drep_voting_thresholds"),
                _ => {}
            });
        }
    }

    fn update(&mut self, n: &Node) {
        self.fire("update");
        if let Some(items) = self.tuple(n, 2, 2) {
            let entries = self.map_entries(&items[0], "proposed_protocol_parameter_updates");
            for (k, v) in entries {
                self.hash(k, 28);
                self.ppu(v);
            }
            self.uint(&items[1]);
        }
    }

    // ---------------------------------------------------------------------------------------
    // witnesses

    fn vkeywitness(&mut self, n: &Node) {
        self.fire("vkeywitness");
        if let Some(items) = self.tuple(n, 2, 2) {
            self.bytes_exact(&items[0], 32, "vkey");
            self.bytes_exact(&items[1], 64, "signature");
        }
    }

    fn bootstrap_witness(&mut self, n: &Node) {
        self.fire("bootstrap_witness");
        if let Some(items) = self.tuple(n, 4, 4) {
            self.bytes_exact(&items[0], 32, "vkey");
            self.bytes_exact(&items[1], 64, "signature");
            self.bytes_exact(&items[2], 32, "chain_code");
            self.any_bytes(&items[3]);
        }
    }

    fn native_script(&mut self, n: &Node) {
        self.fire("native_script");
        self.canon(n, false);
        let f = match n.as_array() {
            Some(i) if !i.is_empty() => i,
            _ => {
                self.err("native_script must be a non-empty array");
                return;
            }
        };
        match (self.uint(&f[0]), f.len()) {
            (Some(0), 2) => {
                self.fire("native_script.0.pubkey");
                self.hash(&f[1], 28)
            }
            (Some(1), 2) => {
                self.fire("native_script.1.all");
                self.array_of(&f[1], "native_script.all", |s, x| s.native_script(x))
            }
            (Some(2), 2) => {
                self.fire("native_script.2.any");
                self.array_of(&f[1], "native_script.any", |s, x| s.native_script(x))
            }
            (Some(3), 3) => {
                self.fire("native_script.3.n_of_k");
                self.uint(&f[1]);
                self.array_of(&f[2], "native_script.n_of_k", |s, x| s.native_script(x))
            }
            (Some(4), 2) => {
                self.fire("native_script.4.invalid_before");
                self.uint(&f[1]);
            }
            (Some(5), 2) => {
                self.fire("native_script.5.invalid_hereafter");
                self.uint(&f[1]);
            }
            (k, l) => self.err(format!("native_script kind {:?} with {} elements", k, l)),
        }
    }

    fn bounded_bytes(&mut self, n: &Node) {
        self.fire("bounded_bytes");
        match &n.kind {
            Kind::Bytes { data, chunks: None } => {
                self.canon(n, false);
                if data.len() > 64 {
                    self.err(format!("bounded_bytes: definite byte string of {} bytes (> 64 must be chunked)", data.len()));
                }
            }
            Kind::Bytes { data, chunks: Some(cs) } => {
                self.fire("bounded_bytes.chunked");
                if data.len() <= 64 {
                    self.err(format!("bounded_bytes: chunked form used for {} bytes (<= 64 must be definite)", data.len()));
                }
                for (i, (l, w)) in cs.iter().enumerate() {
                    if crate::cbor::min_width(*l as u64) != *w {
                        self.err("bounded_bytes: chunk head not in shortest form");
                    }
                    let last = i == cs.len() - 1;
                    if *l > 64 || (*l != 64 && !last) || *l == 0 {
                        self.err(format!("bounded_bytes: chunk sizes {:?} (64-byte chunks, last may be shorter)", cs.iter().map(|c| c.0).collect::<Vec<_>>()));
                        break;
                    }
                }
            }
            _ => self.err(format!("expected bounded_bytes, found {}", short(n))),
        }
    }

    fn big_int(&mut self, n: &Node) {
        self.fire("big_int");
        match &n.kind {
            Kind::UInt(_) | Kind::NInt(_) => self.canon(n, false),
            Kind::Tag(t, inner) if *t == 2 || *t == 3 => {
                self.canon(n, false);
                self.fire("big_int.tagged");
                self.bounded_bytes(inner);
            }
            _ => self.err(format!("expected int / #6.2 / #6.3, found {}", short(n))),
        }
    }

    /// Plutus list as written by the API: indefinite iff non-empty
    fn plutus_list_items(&mut self, n: &Node) {
        self.fire("plutus_list");
        match &n.kind {
            Kind::Array { items, indef } => {
                if items.is_empty() {
                    if *indef {
                        self.err("plutus list: empty list in indefinite form");
                    }
                    self.canon(n, false);
                } else if !*indef {
                    self.err("plutus list: non-empty list in definite form (the API writes the indefinite form)");
                    self.canon(n, false);
                }
                for x in items {
                    self.plutus_data(x);
                }
            }
            _ => self.err(format!("expected plutus list, found {}", short(n))),
        }
    }

    fn plutus_list_standalone(&mut self, n: &Node) {
        // stand-alone PlutusList: plain list, or (as witness datums) a tagged set
        match n.as_tag() {
            Some((258, inner)) => {
                self.canon(n, false);
                self.plutus_list_items(inner)
            }
            _ => self.plutus_list_items(n),
        }
    }

    fn plutus_data(&mut self, n: &Node) {
        self.fire("plutus_data");
        match &n.kind {
            Kind::Tag(t, inner) => {
                self.canon(n, false);
                match *t {
                    121..=127 | 1280..=1400 => {
                        self.fire("plutus_data.constr.compact");
                        self.plutus_list_items(inner)
                    }
                    102 => {
                        self.fire("plutus_data.constr.general");
                        if let Some(items) = self.tuple(inner, 2, 2) {
                            if let Some(alt) = self.uint(&items[0]) {
                                if alt <= 6 || (7..=127).contains(&alt) {
                                    self.err(format!("constr alternative {} written in the general form 102 although a compact tag exists", alt));
                                }
                            }
                            self.plutus_list_items(&items[1]);
                        }
                    }
                    2 | 3 => self.big_int(n),
                    other => self.err(format!("plutus_data: tag {} is not in the schema", other)),
                }
            }
            Kind::Map { .. } => {
                self.fire("plutus_data.map");
                self.canon(n, false);
                // duplicate keys are representable in Plutus maps; not a schema violation
                if let Some(entries) = n.as_map() {
                    for (k, v) in entries {
                        self.plutus_data(k);
                        self.plutus_data(v);
                    }
                }
            }
            Kind::Array { .. } => self.plutus_list_items(n),
            Kind::UInt(_) | Kind::NInt(_) => {
                self.fire("plutus_data.int");
                self.canon(n, false)
            }
            Kind::Bytes { .. } => self.bounded_bytes(n),
            _ => self.err(format!("plutus_data: unexpected {}", short(n))),
        }
    }

    fn redeemer_flat(&mut self, n: &Node) {
        self.fire("redeemer(flat)");
        if let Some(items) = self.tuple(n, 4, 4) {
            self.uint_max(&items[0], 5, "redeemer_tag");
            self.uint(&items[1]);
            self.plutus_data(&items[2]);
            self.ex_units(&items[3]);
        }
    }

    fn redeemers(&mut self, n: &Node) {
        match &n.kind {
            Kind::Map { .. } => {
                let entries = self.map_entries(n, "redeemers(map)");
                for (k, v) in entries {
                    if let Some(key) = self.tuple(k, 2, 2) {
                        self.uint_max(&key[0], 5, "redeemer_tag");
                        self.uint(&key[1]);
                    }
                    if let Some(val) = self.tuple(v, 2, 2) {
                        self.plutus_data(&val[0]);
                        self.ex_units(&val[1]);
                    }
                }
            }
            Kind::Array { .. } => {
                self.array_of(n, "redeemers(array)", |s, x| s.redeemer_flat(x));
                // (tag, index) pairs must be distinct
                if let Some(items) = n.as_array() {
                    let mut seen = BTreeSet::new();
                    for x in items {
                        if let Some(f) = x.as_array() {
                            if f.len() >= 2 {
                                if !seen.insert((f[0].as_u64(), f[1].as_u64())) {
                                    self.err("redeemers: duplicate (tag, index)");
                                }
                            }
                        }
                    }
                }
            }
            _ => self.err(format!("redeemers must be a map or an array, found {}", short(n))),
        }
    }

    fn witness_set(&mut self, n: &Node) {
        let fields = self.keyed_map(n, "transaction_witness_set", &[0, 1, 2, 3, 4, 5, 6, 7], &[]);
        for (k, v) in fields {
            self.at(format!("witness_set[{}]", k), |s| match k {
                0 => s.set(v, true, "witness_set.vkeywitnesses", |s, x| s.vkeywitness(x)),
                1 => s.set(v, true, "witness_set.native_scripts", |s, x| s.native_script(x)),
                2 => s.set(v, true, "witness_set.bootstrap_witnesses", |s, x| s.bootstrap_witness(x)),
                3 => s.set(v, true, "witness_set.plutus_v1_scripts", |s, x| s.any_bytes(x)),
                6 => s.set(v, true, "witness_set.plutus_v2_scripts", |s, x| s.any_bytes(x)),
                7 => s.set(v, true, "witness_set.plutus_v3_scripts", |s, x| s.any_bytes(x)),
                4 => {
                    // nonempty_set<plutus_data>; the inner array may be indefinite
                    s.fire("witness_set.plutus_data");
                    s.canon(v, false);
                    match v.as_tag() {
                        Some((258, inner)) => match &inner.kind {
                            Kind::Array { items, indef } => {
                                if !*indef {
                                    s.canon(inner, false);
                                }
                                if items.is_empty() {
                                    s.err("witness_set.plutus_data: nonempty_set is empty");
                                }
                                let mut seen: BTreeSet<&[u8]> = BTreeSet::new();
                                for x in items {
                                    if !seen.insert(&s.doc[x.start..x.end]) {
                                        s.err("witness_set.plutus_data: a datum occurs twice in a set");
                                    }
                                    s.plutus_data(x);
                                }
                            }
                            _ => s.err("witness_set.plutus_data: tag 258 must wrap an array"),
                        },
                        _ => s.err(format!("witness_set.plutus_data: set-typed field without tag 258 ({})", short(v))),
                    }
                }
                5 => {
                    s.redeemers(v);
                    let empty = v.as_map().map(|m| m.is_empty()).or(v.as_array().map(|a| a.is_empty())).unwrap_or(false);
                    if empty {
                        s.err("witness_set.redeemers: empty");
                    }
                }
                _ => {}
            });
        }
    }

    // ---------------------------------------------------------------------------------------
    // auxiliary data

    fn metadatum(&mut self, n: &Node) {
        self.fire("metadatum");
        match &n.kind {
            Kind::Map { .. } => self.metadatum_map(n),
            Kind::Array { .. } => self.array_of(n, "metadatum.list", |s, x| s.metadatum(x)),
            Kind::UInt(_) | Kind::NInt(_) => {
                self.fire("metadatum.int");
                self.canon(n, false)
            }
            Kind::Bytes { .. } => self.bytes_max(n, 64, "metadatum.bytes"),
            Kind::Text { .. } => self.text_max(n, 64, "metadatum.text"),
            _ => self.err(format!("metadatum: unexpected {}", short(n))),
        }
    }
    fn metadatum_map(&mut self, n: &Node) {
        let entries = self.map_entries(n, "metadatum.map");
        for (k, v) in entries {
            self.metadatum(k);
            self.metadatum(v);
        }
    }
    fn metadata(&mut self, n: &Node) {
        let entries = self.map_entries(n, "metadata");
        for (k, v) in entries {
            self.uint(k);
            self.metadatum(v);
        }
    }
    fn auxiliary_data(&mut self, n: &Node) {
        self.fire("auxiliary_data");
        match &n.kind {
            Kind::Map { .. } => {
                self.fire("auxiliary_data.shelley");
                self.metadata(n)
            }
            Kind::Array { .. } => {
                self.fire("auxiliary_data.shelley_ma");
                if let Some(items) = self.tuple(n, 2, 2) {
                    self.metadata(&items[0]);
                    self.array_of(&items[1], "auxiliary_data.native_scripts", |s, x| s.native_script(x));
                }
            }
            Kind::Tag(259, inner) => {
                self.fire("auxiliary_data.alonzo");
                self.canon(n, false);
                let fields = self.keyed_map(inner, "auxiliary_data.map", &[0, 1, 2, 3, 4], &[]);
                for (k, v) in fields {
                    match k {
                        0 => self.metadata(v),
                        1 => self.maybe_set(v, "auxiliary_data.native_scripts", |s, x| s.native_script(x)),
                        _ => self.maybe_set(v, "auxiliary_data.plutus_scripts", |s, x| s.any_bytes(x)),
                    }
                }
            }
            _ => self.err(format!("auxiliary_data: unexpected {}", short(n))),
        }
    }
}

fn short(n: &Node) -> String {
    let d = n.diag();
    if d.len() > 60 {
        format!("{}…", d.chars().take(60).collect::<String>())
    } else {
        d
    }
}
