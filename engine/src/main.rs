//! vcheck — supervisor / shard / replay driver. See /verif/DESIGN.md §2.

use engine::props;
use engine::runner::*;
use serde_json::{json, Value as J};
use std::collections::{BTreeMap, HashSet};
use std::path::{Path, PathBuf};
use std::process::{Command, Stdio};
use std::time::{Duration, Instant};

fn usage() -> ! {
    eprintln!("usage: vcheck run <id> quick|thorough | shard <id> <tier> <seed> <shard> [sub] | replay <file> | replay-raw <file> | one <id> <sub> <hex> | list");
    std::process::exit(2);
}

fn parse_tier(s: &str) -> Tier {
    match s {
        "quick" => Tier::Quick,
        "thorough" => Tier::Thorough,
        _ => usage(),
    }
}

fn env_seed() -> u64 {
    std::env::var("VERIF_SEED").ok().and_then(|s| s.trim().parse::<i128>().ok()).map(|v| v as u64).unwrap_or(1)
}

fn with_big_stack<T: Send + 'static>(f: impl FnOnce() -> T + Send + 'static) -> T {
    std::thread::Builder::new()
        .stack_size(1 << 30)
        .spawn(f)
        .expect("spawn")
        .join()
        .unwrap_or_else(|_| {
            eprintln!("ENGINE-BUG: worker thread panicked outside a case");
            std::process::exit(3)
        })
}

fn main() {
    let args: Vec<String> = std::env::args().collect();
    if args.len() < 2 {
        usage();
    }
    install_panic_hook();
    match args[1].as_str() {
        "list" => {
            for p in props::all() {
                println!("{} {}", p.id, p.subchecks.iter().map(|s| s.name).collect::<Vec<_>>().join(","));
            }
        }
        "tapes" => {
            // tape-driven sub-checks of one property with their tape length: the fuzz tier's target list
            let prop = props::get(&args[2]).expect("property");
            for sc in &prop.subchecks {
                if let Kind::Tape { max_len, .. } = sc.kind {
                    println!("{} {}", sc.name, max_len);
                }
            }
        }
        "seeds" => {
            // vcheck seeds <id> <sub> <max_len> <dir>: starting corpus of a fuzz campaign (a pure function of VERIF_SEED)
            let (id, sub, max_len, dir) = (args[2].clone(), args[3].clone(), args[4].parse::<usize>().expect("max_len"), PathBuf::from(&args[5]));
            let seed = env_seed();
            let _ = std::fs::create_dir_all(&dir);
            let files: Vec<Vec<u8>> = with_big_stack(move || {
                if id == "C02" && sub.starts_with("direct") {
                    install_panic_hook();
                    props::c02::direct_seeds(seed)
                } else {
                    let mut out = vec![vec![], vec![0u8; max_len]];
                    for (i, len) in [max_len / 16, max_len / 4, max_len, max_len].iter().enumerate() {
                        for j in 0..6u64 {
                            let mut state = engine::tape::fp_mix(engine::tape::fp_mix(seed, i as u64), j);
                            out.push((0..*len).map(|k| { state = engine::tape::fp_mix(state, k as u64); state as u8 }).collect());
                        }
                    }
                    out
                }
            });
            for (i, f) in files.iter().enumerate() {
                let _ = std::fs::write(dir.join(format!("seed-{:04}", i)), f);
            }
            println!("{}", files.len());
        }
        "run" => {
            if args.len() < 4 {
                usage();
            }
            let only = args.get(4).cloned();
            std::process::exit(supervise(&args[2], parse_tier(&args[3]), env_seed(), only));
        }
        "shard" => {
            if args.len() < 6 {
                usage();
            }
            let id = args[2].clone();
            let tier = parse_tier(&args[3]);
            set_current_tier(tier);
            let seed: u64 = args[4].parse().unwrap_or(1);
            let shard: u64 = args[5].parse().unwrap_or(0);
            let only = args.get(6).cloned();
            let code = with_big_stack(move || {
                let prop = match props::get(&id) {
                    Some(p) => p,
                    None => return 2,
                };
                let known = Known::load();
                let dir = shard_dir(&id, tier);
                let _ = std::fs::create_dir_all(&dir);
                let mut ctx = Ctx::new(tier, false);
                if prop.crash_prone {
                    ctx.journal = Journal::create(&dir.join(format!("shard-{}.journal", shard)));
                }
                let res = run_shard(&prop, tier, seed, shard, &known, only.as_deref(), &mut ctx);
                write_shard_result(&dir, shard, &ctx, &res);
                0
            });
            std::process::exit(code);
        }
        "replay-raw" => {
            // prints one JSON line describing the outcome; exit 0 always (unless the process dies)
            let file = PathBuf::from(&args[2]);
            let out = with_big_stack(move || replay_raw(&file));
            println!("{}", out);
        }
        "replay" => {
            let file = PathBuf::from(&args[2]);
            std::process::exit(replay_cmd(&file));
        }
        "one" => {
            if args.len() < 5 {
                usage();
            }
            let id = args[2].clone();
            let sub = args[3].clone();
            let input = hex::decode(&args[4]).expect("hex");
            let out = with_big_stack(move || {
                let prop = props::get(&id).expect("property");
                let sc = prop.subchecks.iter().find(|s| s.name == sub).expect("subcheck");
                let tier = if std::env::var("VERIF_TIER").map(|t| t == "thorough").unwrap_or(false) { Tier::Thorough } else { Tier::Quick };
                let mut ctx = Ctx::new(tier, true);
                match run_case(&mut ctx, sc, &input) {
                    CaseOutcome::Pass => format!("pass nontrivial={} labels={:?}", ctx.is_nontrivial(), ctx.labels.keys().collect::<Vec<_>>()),
                    CaseOutcome::Reject => "reject".to_string(),
                    CaseOutcome::Fail(f) => format!("FAIL sig={} detail={}", f.sig, f.detail),
                    CaseOutcome::EngineBug(m) => format!("ENGINE-BUG {}", m),
                }
            });
            println!("{}", out);
        }
        _ => usage(),
    }
}

fn replay_raw(file: &Path) -> String {
    let rf = match read_replay(file) {
        Some(r) => r,
        None => return json!({"outcome": "unreadable"}).to_string(),
    };
    let prop = match props::get(&rf.property) {
        Some(p) => p,
        None => return json!({"outcome": "unknown-property"}).to_string(),
    };
    let sc = match prop.subchecks.iter().find(|s| s.name == rf.subcheck) {
        Some(s) => s,
        None => return json!({"outcome": "unknown-subcheck"}).to_string(),
    };
    let mut ctx = Ctx::new(rf.tier, true);
    match run_case(&mut ctx, sc, &rf.input) {
        CaseOutcome::Pass => json!({"outcome": "pass"}).to_string(),
        CaseOutcome::Reject => json!({"outcome": "reject"}).to_string(),
        CaseOutcome::Fail(f) => json!({"outcome": "fail", "sig": f.sig, "detail": f.detail}).to_string(),
        CaseOutcome::EngineBug(m) => json!({"outcome": "engine-bug", "detail": m}).to_string(),
    }
}

/// runs `vcheck replay-raw file` in a child; a child killed by a signal yields an abort signature
fn replay_in_child(file: &Path) -> (String, String, String) {
    replay_in_child_within(file, Duration::from_secs(std::env::var("VERIF_REPLAY_TIMEOUT_S").ok().and_then(|s| s.parse().ok()).unwrap_or(900)))
}

/// as above with a deadline; a child that has not returned by then is killed and reported as ("timeout", ..)
fn replay_in_child_within(file: &Path, deadline: Duration) -> (String, String, String) {
    let exe = std::env::current_exe().expect("exe");
    let errpath = Path::new(&verif_dir()).join("work").join(format!("replay-{}.stderr", std::process::id()));
    let outpath = Path::new(&verif_dir()).join("work").join(format!("replay-{}.stdout", std::process::id()));
    let _ = std::fs::create_dir_all(Path::new(&verif_dir()).join("work"));
    let spawn = (|| -> std::io::Result<std::process::Child> {
        let ef = std::fs::File::create(&errpath)?;
        let of = std::fs::File::create(&outpath)?;
        Command::new(&exe).arg("replay-raw").arg(file).stderr(ef).stdout(of).spawn()
    })();
    let mut child = match spawn {
        Ok(c) => c,
        Err(e) => return ("spawn-error".into(), String::new(), e.to_string()),
    };
    let t0 = Instant::now();
    let status = loop {
        match child.try_wait() {
            Ok(Some(st)) => break Some(st),
            Ok(None) => {
                if t0.elapsed() > deadline {
                    let _ = child.kill();
                    let _ = child.wait();
                    break None;
                }
                std::thread::sleep(Duration::from_millis(10));
            }
            Err(_) => break None,
        }
    };
    let stdout = std::fs::read(&outpath).unwrap_or_default();
    let stderr = std::fs::read(&errpath).unwrap_or_default();
    let _ = std::fs::remove_file(&outpath);
    let _ = std::fs::remove_file(&errpath);
    let status = match status {
        Some(s) => s,
        None => {
            let sub = read_replay(file).map(|r| r.subcheck).unwrap_or_default();
            return ("timeout".into(), format!("{}/no-return", sub), format!("the case did not return within {} s when run alone in a fresh process", deadline.as_secs()));
        }
    };
    let out: std::io::Result<std::process::Output> = Ok(std::process::Output { status, stdout, stderr });
    match out {
        Ok(o) => {
            if o.status.success() {
                let s = String::from_utf8_lossy(&o.stdout);
                let line = s.lines().last().unwrap_or("");
                if let Ok(v) = serde_json::from_str::<J>(line) {
                    let g = |k: &str| v.get(k).and_then(|x| x.as_str()).unwrap_or("").to_string();
                    return (g("outcome"), g("sig"), g("detail"));
                }
                ("unreadable".into(), String::new(), String::new())
            } else {
                use std::os::unix::process::ExitStatusExt;
                let sub = read_replay(file).map(|r| r.subcheck).unwrap_or_default();
                let err = String::from_utf8_lossy(&o.stderr);
                let cause = if err.contains("memory allocation of") {
                    "memory-allocation-failed".to_string()
                } else if err.contains("stack overflow") {
                    "stack-overflow".to_string()
                } else {
                    format!("signal-{}", o.status.signal().unwrap_or(0))
                };
                (
                    "fail".into(),
                    format!("{}/abort/{}", sub, cause),
                    format!("process died: status {:?}; stderr tail: {}", o.status, err.chars().rev().take(300).collect::<String>().chars().rev().collect::<String>()),
                )
            }
        }
        Err(e) => ("spawn-error".into(), String::new(), e.to_string()),
    }
}

fn replay_cmd(file: &Path) -> i32 {
    let known = Known::load();
    let rf = match read_replay(file) {
        Some(r) => r,
        None => {
            eprintln!("cannot read replay file {}", file.display());
            return 2;
        }
    };
    // an input recorded as "does not return" is confirmed (or not) within the hang-confirmation deadline
    let (outcome, sig, detail) = if rf.signature.ends_with("/no-return") || rf.signature.contains("timeout-artifact") {
        replay_in_child_within(file, Duration::from_secs(std::env::var("VERIF_HANG_CONFIRM_S").ok().and_then(|s| s.parse().ok()).unwrap_or(180)))
    } else {
        replay_in_child(file)
    };
    match outcome.as_str() {
        "pass" | "reject" => {
            println!("replay {}: {}", file.display(), outcome);
            0
        }
        "fail" => {
            if let Some(k) = known.matches(&rf.property, &sig) {
                println!("KNOWN-FINDING: property={} {} {}", rf.property, k.id, k.what);
                0
            } else {
                println!("replay {}: FAIL sig={} detail={}", file.display(), sig, detail);
                println!("VIOLATION property={} replay={}", rf.property, file.display());
                1
            }
        }
        "timeout" if rf.property == "C02" => {
            // C02 states that every call returns: a case that does not return when run alone is a violation
            println!("replay {}: FAIL sig={} detail={}", file.display(), sig, detail);
            println!("VIOLATION property={} replay={}", rf.property, file.display());
            1
        }
        other => {
            eprintln!("replay {}: {} {}", file.display(), other, detail);
            2
        }
    }
}

fn list_json(dir: &Path) -> Vec<PathBuf> {
    let mut v: Vec<PathBuf> = std::fs::read_dir(dir)
        .map(|rd| rd.filter_map(|e| e.ok()).map(|e| e.path()).filter(|p| p.extension().map(|x| x == "json").unwrap_or(false)).collect())
        .unwrap_or_default();
    v.sort();
    v
}

fn supervise(id: &str, tier: Tier, seed: u64, only_sub: Option<String>) -> i32 {
    let t0 = Instant::now();
    set_current_tier(tier);
    let prop = match props::get(id) {
        Some(p) => p,
        None => {
            eprintln!("unknown property {}", id);
            return 2;
        }
    };
    let known = Known::load();
    let mut violations: Vec<(String, PathBuf)> = Vec::new();
    let mut infra: Vec<String> = Vec::new();
    let mut known_seen: BTreeMap<String, u64> = BTreeMap::new();
    let mut replayed = 0u64;

    // (1) pinned reproducers of known findings
    for k in known.findings.iter().filter(|k| k.property == id) {
        let file = Path::new(&verif_dir()).join(&k.reproducer);
        if !file.exists() {
            infra.push(format!("reproducer {} of {} is missing", k.reproducer, k.id));
            continue;
        }
        replayed += 1;
        let (outcome, sig, detail) = replay_in_child(&file);
        match outcome.as_str() {
            "fail" => {
                if let Some(k2) = known.matches(id, &sig) {
                    println!("KNOWN-FINDING: property={} {} {}", id, k2.id, k2.what);
                    *known_seen.entry(k2.id.clone()).or_insert(0) += 1;
                } else {
                    println!("finding reproducer {} fails with an unlisted signature {}: {}", file.display(), sig, detail);
                    violations.push((sig, file.clone()));
                }
            }
            "pass" | "reject" => {
                eprintln!("note: known finding {} no longer reproduces from {}", k.id, k.reproducer);
            }
            other => infra.push(format!("reproducer {}: {} {}", k.reproducer, other, detail)),
        }
    }
    // (2) regression inputs: replays/<id>/*.json must pass (or be known)
    for file in list_json(&Path::new(&verif_dir()).join("replays").join(id)) {
        replayed += 1;
        let (outcome, sig, detail) = replay_in_child(&file);
        match outcome.as_str() {
            "fail" => {
                if let Some(k2) = known.matches(id, &sig) {
                    *known_seen.entry(k2.id.clone()).or_insert(0) += 1;
                } else {
                    println!("regression input {} fails: sig={} detail={}", file.display(), sig, detail);
                    violations.push((sig, file.clone()));
                }
            }
            "pass" | "reject" => {}
            "timeout" if id == "C02" => {
                println!("regression input {} does not return: sig={} detail={}", file.display(), sig, detail);
                violations.push((sig, file.clone()));
            }
            other => infra.push(format!("replay {}: {} {}", file.display(), other, detail)),
        }
    }

    // (3) exploration in 16 shards
    let dir = shard_dir(id, tier);
    let _ = std::fs::remove_dir_all(&dir);
    let _ = std::fs::create_dir_all(&dir);
    let exe = std::env::current_exe().expect("exe");
    let nproc = std::thread::available_parallelism().map(|n| n.get()).unwrap_or(4).max(1);
    let timeout = Duration::from_secs(
        std::env::var("VERIF_SHARD_TIMEOUT_S").ok().and_then(|s| s.parse().ok()).unwrap_or(tier.pick(3600, 6 * 3600)),
    );
    let mut pending: Vec<u64> = (0..SHARDS).rev().collect();
    let mut running: Vec<(u64, std::process::Child, Instant)> = Vec::new();
    let mut aborted: Vec<(u64, String)> = Vec::new();
    let mut hung: Vec<u64> = Vec::new();
    let stall = Duration::from_secs(std::env::var("VERIF_STALL_S").ok().and_then(|s| s.parse().ok()).unwrap_or(120));
    while !pending.is_empty() || !running.is_empty() {
        while running.len() < nproc && !pending.is_empty() {
            let s = pending.pop().unwrap();
            let mut cmd = Command::new(&exe);
            cmd.arg("shard").arg(id).arg(tier.name()).arg(seed.to_string()).arg(s.to_string());
            if let Some(o) = &only_sub {
                cmd.arg(o);
            }
            let errf = std::fs::File::create(dir.join(format!("shard-{}.stderr", s))).expect("stderr file");
            cmd.stderr(errf).stdout(Stdio::null());
            match cmd.spawn() {
                Ok(c) => running.push((s, c, Instant::now())),
                Err(e) => infra.push(format!("cannot spawn shard {}: {}", s, e)),
            }
        }
        let mut i = 0;
        let mut progressed = false;
        while i < running.len() {
            let (s, child, started) = &mut running[i];
            match child.try_wait() {
                Ok(Some(st)) => {
                    if !st.success() {
                        aborted.push((*s, format!("{:?}", st)));
                    }
                    running.remove(i);
                    progressed = true;
                }
                Ok(None) => {
                    // a shard of a journaling property that has not touched its journal for a long time sits in one case
                    let stalled = prop.crash_prone
                        && started.elapsed() > stall
                        && std::fs::metadata(dir.join(format!("shard-{}.journal", s))).and_then(|m| m.modified()).ok().and_then(|m| m.elapsed().ok()).map(|e| e > stall).unwrap_or(false);
                    if stalled {
                        let _ = child.kill();
                        let _ = child.wait();
                        hung.push(*s);
                        running.remove(i);
                        progressed = true;
                    } else if started.elapsed() > timeout {
                        let _ = child.kill();
                        let _ = child.wait();
                        infra.push(format!("shard {} exceeded the watchdog ({} s) and was killed: inconclusive", s, timeout.as_secs()));
                        running.remove(i);
                        progressed = true;
                    } else {
                        i += 1;
                    }
                }
                Err(e) => {
                    infra.push(format!("wait shard {}: {}", s, e));
                    running.remove(i);
                }
            }
        }
        if !progressed {
            std::thread::sleep(Duration::from_millis(20));
        }
    }

    // (4) aborted shards: recover the journaled input, classify it in a strict child
    for (s, status) in &aborted {
        let jpath = dir.join(format!("shard-{}.journal", s));
        let errtail = std::fs::read_to_string(dir.join(format!("shard-{}.stderr", s))).unwrap_or_default();
        let errtail: String = errtail.chars().rev().take(400).collect::<String>().chars().rev().collect();
        match Journal::read(&jpath) {
            Some((sub, input)) if prop.crash_prone => {
                let f = Failure::new("pending", format!("shard {} died ({}) while running this input; stderr tail: {}", s, status, errtail));
                let path = write_replay(id, &sub, &input, &f);
                let (outcome, sig, detail) = replay_in_child(&path);
                if outcome == "fail" {
                    let f2 = Failure::new(sig.clone(), detail);
                    let _ = std::fs::remove_file(&path);
                    if let Some(k) = known.matches(id, &sig) {
                        *known_seen.entry(k.id.clone()).or_insert(0) += 1;
                        infra.push(format!("shard {} died on an input of known finding {}; its remaining cases were not run", s, k.id));
                    } else {
                        let p2 = write_replay(id, &sub, &input, &f2);
                        violations.push((sig, p2));
                    }
                } else {
                    let _ = std::fs::remove_file(&path);
                    infra.push(format!("shard {} died ({}) but the journaled input replays as {}: inconclusive; stderr: {}", s, status, outcome, errtail));
                }
            }
            _ => infra.push(format!("shard {} died ({}) with no journal: inconclusive; stderr: {}", s, status, errtail)),
        }
    }

    // (4b) stalled shards: the journaled input is run alone in a fresh process with a deadline several orders of
    // magnitude above the normal time of a case. Only C02 states "every call returns": there a case that still does
    // not return is a violation; elsewhere it is infrastructure trouble (exit 2).
    let mut hang_confirmed = false;
    for s in &hung {
        let jpath = dir.join(format!("shard-{}.journal", s));
        match Journal::read(&jpath) {
            Some((sub, input)) => {
                if hang_confirmed {
                    infra.push(format!("shard {} stalled as well (input {} of sub-check {}); not replayed, one hang is already confirmed", s, hex::encode(&input[..input.len().min(60)]), sub));
                    continue;
                }
                let f = Failure::new("pending", format!("shard {} made no progress for {} s while running this input", s, stall.as_secs()));
                let path = write_replay(id, &sub, &input, &f);
                let confirm = Duration::from_secs(std::env::var("VERIF_HANG_CONFIRM_S").ok().and_then(|s| s.parse().ok()).unwrap_or(180));
                let (outcome, sig, detail) = replay_in_child_within(&path, confirm);
                let _ = std::fs::remove_file(&path);
                if outcome == "timeout" && id == "C02" {
                    hang_confirmed = true;
                    let f2 = Failure::new(sig.clone(), format!("{} (the shard had been stuck on it for {} s before)", detail, stall.as_secs()));
                    println!("failure: subcheck={} sig={} detail={} input={}", sub, f2.sig, f2.detail, hex::encode(&input[..input.len().min(200)]));
                    let p2 = write_replay(id, &sub, &input, &f2);
                    violations.push((sig, p2));
                } else if outcome == "fail" && known.matches(id, &sig).is_none() {
                    let f2 = Failure::new(sig.clone(), detail);
                    let p2 = write_replay(id, &sub, &input, &f2);
                    violations.push((sig, p2));
                } else {
                    infra.push(format!("shard {} stalled for {} s; its journaled input replays as {} ({}): inconclusive", s, stall.as_secs(), outcome, detail));
                }
            }
            None => infra.push(format!("shard {} stalled for {} s with no readable journal: inconclusive", s, stall.as_secs())),
        }
    }

    // (5) merge
    let mut evaluations: BTreeMap<String, u64> = BTreeMap::new();
    let mut labels: BTreeMap<String, u64> = BTreeMap::new();
    let mut samples: BTreeMap<String, Vec<String>> = BTreeMap::new();
    let mut excluded: BTreeMap<String, u64> = BTreeMap::new();
    let mut rejected = 0u64;
    let mut nontrivial_total = 0u64;
    let mut fp_overflow = 0u64;
    let mut fps: HashSet<u64> = HashSet::new();
    let mut failures: Vec<(String, Vec<u8>, Failure)> = Vec::new();
    let mut shards_ok = 0;
    for s in 0..SHARDS {
        let p = dir.join(format!("shard-{}.json", s));
        let txt = match std::fs::read_to_string(&p) {
            Ok(t) => t,
            Err(_) => continue,
        };
        let v: J = match serde_json::from_str(&txt) {
            Ok(v) => v,
            Err(_) => continue,
        };
        shards_ok += 1;
        let addmap = |dst: &mut BTreeMap<String, u64>, key: &str| {
            if let Some(m) = v.get(key).and_then(|x| x.as_object()) {
                for (k, n) in m {
                    *dst.entry(k.clone()).or_insert(0) += n.as_u64().unwrap_or(0);
                }
            }
        };
        addmap(&mut evaluations, "evaluations");
        addmap(&mut labels, "labels");
        addmap(&mut excluded, "excluded_known");
        rejected += v.get("rejected").and_then(|x| x.as_u64()).unwrap_or(0);
        nontrivial_total += v.get("nontrivial_total").and_then(|x| x.as_u64()).unwrap_or(0);
        fp_overflow += v.get("fp_overflow").and_then(|x| x.as_u64()).unwrap_or(0);
        if let Some(m) = v.get("samples").and_then(|x| x.as_object()) {
            for (k, arr) in m {
                let e = samples.entry(k.clone()).or_default();
                for x in arr.as_array().cloned().unwrap_or_default() {
                    if e.len() < 2 {
                        e.push(x.as_str().unwrap_or("").to_string());
                    }
                }
            }
        }
        for f in v.get("failures").and_then(|x| x.as_array()).cloned().unwrap_or_default() {
            let g = |k: &str| f.get(k).and_then(|x| x.as_str()).unwrap_or("").to_string();
            failures.push((g("subcheck"), hex::decode(g("input_hex")).unwrap_or_default(), Failure::new(g("sig"), g("detail"))));
        }
        for b in v.get("engine_bugs").and_then(|x| x.as_array()).cloned().unwrap_or_default() {
            infra.push(format!("engine bug in shard {}: {}", s, b.as_str().unwrap_or("")));
        }
        if let Ok(buf) = std::fs::read(dir.join(format!("shard-{}.fps", s))) {
            for c in buf.chunks_exact(8) {
                fps.insert(u64::from_le_bytes(c.try_into().unwrap()));
            }
        }
    }
    if shards_ok < SHARDS as usize && aborted.is_empty() {
        infra.push(format!("only {} of {} shards produced a result", shards_ok, SHARDS));
    }

    // (6) failures -> replay files + VIOLATION lines (one per signature)
    let mut seen_sig: HashSet<String> = HashSet::new();
    failures.sort_by(|a, b| (a.2.sig.as_str(), a.1.len()).cmp(&(b.2.sig.as_str(), b.1.len())));
    for (sub, input, f) in &failures {
        if !seen_sig.insert(f.sig.clone()) {
            continue;
        }
        let path = write_replay(id, sub, input, f);
        println!("failure: subcheck={} sig={} detail={}", sub, f.sig, f.detail);
        violations.push((f.sig.clone(), path));
    }

    // (7) evidence
    let total_evals: u64 = evaluations.values().sum::<u64>() + replayed;
    let mut sample_list: Vec<J> = Vec::new();
    for (k, v) in &samples {
        for s in v {
            if sample_list.len() < 60 {
                sample_list.push(json!({"class": k, "case": s}));
            }
        }
    }
    let mut exhaustive_subspaces: Vec<String> = Vec::new();
    for sc in &prop.subchecks {
        if let Kind::Enum { exhaustive_note, count, .. } = &sc.kind {
            if !exhaustive_note.is_empty() {
                exhaustive_subspaces.push(format!("{}: {} ({} cases)", sc.name, exhaustive_note, count(tier)));
            }
        }
    }
    let mut warnings: Vec<String> = Vec::new();
    if total_evals > 0 && (rejected as f64) / (total_evals as f64) > prop.max_reject_fraction {
        warnings.push(format!("rejected fraction {:.3} above the stated bound {:.3}", rejected as f64 / total_evals as f64, prop.max_reject_fraction));
    }
    for (sub, label, frac) in &prop.required_label_fraction {
        let e = *evaluations.get(*sub).unwrap_or(&0);
        let l = *labels.get(*label).unwrap_or(&0);
        if e > 0 && (l as f64) < frac * e as f64 {
            warnings.push(format!("label {} reached {:.4} of {} cases, below the required {:.4}", label, l as f64 / e as f64, sub, frac));
        }
    }
    let wall = t0.elapsed().as_secs_f64();
    let ev = json!({
        "property_id": id,
        "tier": tier.name(),
        "seed": seed,
        "level": "exploration",
        "coverage": {
            "evaluations": total_evals,
            "distinct_nontrivial": fps.len() as u64,
            "nontrivial_total_with_repeats": nontrivial_total,
            "distinct_count_note": format!("union over 16 shards of 64-bit fingerprints; per-shard cap {} (overflowed fingerprints not counted: {})", FP_CAP_PER_SHARD, fp_overflow),
            "rule": prop.rule,
            "samples": sample_list,
            "evaluations_per_subcheck": evaluations,
            "labels": labels,
            "rejected": rejected,
            "excluded_known": excluded,
            "known_findings_reproduced": known_seen,
            "replayed_inputs": replayed,
            "exhaustive_subspaces": exhaustive_subspaces,
            "exhaustive": false,
            "vacuity_warnings": warnings,
            "infrastructure_notes": infra,
            "shards": SHARDS,
        },
        "assumptions": prop.assumptions,
        "wall_s": wall,
        "violations": violations.len(),
    });
    let evdir = Path::new(&verif_dir()).join("evidence");
    let _ = std::fs::create_dir_all(&evdir);
    if only_sub.is_none() {
        let mut s = serde_json::to_string_pretty(&ev).unwrap();
        s.push('\n');
        if let Err(e) = std::fs::write(evdir.join(format!("{}.json", id)), &s) {
            infra.push(format!("cannot write evidence: {}", e));
        }
        // a copy per tier, so that the evidence of the last thorough run survives later quick runs (and vice versa)
        let tdir = evdir.join(tier.name());
        let _ = std::fs::create_dir_all(&tdir);
        let _ = std::fs::write(tdir.join(format!("{}.json", id)), &s);
    }

    println!(
        "{} {} seed={} evaluations={} distinct_nontrivial={} rejected={} excluded_known={} wall={:.1}s",
        id,
        tier.name(),
        seed,
        total_evals,
        fps.len(),
        rejected,
        excluded.values().sum::<u64>(),
        wall
    );
    for w in &warnings {
        eprintln!("warning: {}", w);
    }
    for m in &infra {
        eprintln!("infrastructure: {}", m);
    }
    if !violations.is_empty() {
        for (_, p) in &violations {
            println!("VIOLATION property={} replay={}", id, p.display());
        }
        return 1;
    }
    let fatal_infra = infra.iter().any(|m| m.contains("inconclusive") || m.contains("engine bug") || m.contains("cannot") || m.contains("only "));
    if fatal_infra {
        return 2;
    }
    0
}
