//! Case runner: proptest-driven tape generation, sharding, counters, fingerprints, shrinking,
//! replay files, known-finding registry, evidence writer, supervisor.

use proptest::prelude::*;
use proptest::strategy::Strategy;
use proptest::test_runner::{Config, RngAlgorithm, TestCaseError, TestError, TestRng, TestRunner};
use serde_json::{json, Value as J};
use std::cell::RefCell;
use std::collections::{BTreeMap, BTreeSet, HashSet};
use std::io::Write;
use std::path::{Path, PathBuf};

pub const SHARDS: u64 = 16;
pub const FP_CAP_PER_SHARD: usize = 1_500_000;
/// root of the verification tree: /verif, or $VERIF_ROOT (development copies only)
pub fn verif_dir() -> String {
    std::env::var("VERIF_ROOT").unwrap_or_else(|_| "/verif".to_string())
}

#[derive(Clone, Copy, PartialEq, Eq, Debug)]
pub enum Tier {
    Quick,
    Thorough,
}

impl Tier {
    pub fn name(&self) -> &'static str {
        match self {
            Tier::Quick => "quick",
            Tier::Thorough => "thorough",
        }
    }
    pub fn pick<T>(&self, q: T, t: T) -> T {
        match self {
            Tier::Quick => q,
            Tier::Thorough => t,
        }
    }
}

#[derive(Clone, Debug)]
pub struct Failure {
    pub sig: String,
    pub detail: String,
}

impl Failure {
    pub fn new(sig: impl Into<String>, detail: impl Into<String>) -> Failure {
        Failure { sig: sig.into(), detail: detail.into() }
    }
}

pub type CaseResult = Result<(), Failure>;

#[macro_export]
macro_rules! fail {
    ($sig:expr, $($arg:tt)*) => {
        return Err($crate::runner::Failure::new($sig, format!($($arg)*)))
    };
}

#[macro_export]
macro_rules! ensure {
    ($cond:expr, $sig:expr, $($arg:tt)*) => {
        if !($cond) {
            return Err($crate::runner::Failure::new($sig, format!($($arg)*)));
        }
    };
}

/// Per-shard accumulation of what the generator really produced.
pub struct Ctx {
    pub tier: Tier,
    pub strict: bool,
    counting: bool,
    pub labels: BTreeMap<String, u64>,
    fps: HashSet<u64>,
    fp_overflow: u64,
    pub nontrivial_total: u64,
    samples: BTreeMap<String, Vec<String>>,
    pub rejected: u64,
    case_rejected: bool,
    case_nontrivial: bool,
    pub journal: Option<Journal>,
}

impl Ctx {
    pub fn new(tier: Tier, strict: bool) -> Ctx {
        Ctx {
            tier,
            strict,
            counting: true,
            labels: BTreeMap::new(),
            fps: HashSet::new(),
            fp_overflow: 0,
            nontrivial_total: 0,
            samples: BTreeMap::new(),
            rejected: 0,
            case_rejected: false,
            case_nontrivial: false,
            journal: None,
        }
    }
    pub fn label(&mut self, l: &str) {
        if self.counting {
            *self.labels.entry(l.to_string()).or_insert(0) += 1;
        }
    }
    pub fn label_n(&mut self, l: &str, n: u64) {
        if self.counting {
            *self.labels.entry(l.to_string()).or_insert(0) += n;
        }
    }
    /// marks the running case as non-trivial by the property's rule, with its canonical fingerprint
    pub fn nontrivial(&mut self, fp: u64) {
        self.case_nontrivial = true;
        if self.counting {
            self.nontrivial_total += 1;
            if self.fps.len() < FP_CAP_PER_SHARD {
                self.fps.insert(fp);
            } else if !self.fps.contains(&fp) {
                self.fp_overflow += 1;
            }
        }
    }
    pub fn is_nontrivial(&self) -> bool {
        self.case_nontrivial
    }
    /// keeps up to 2 samples per class per shard
    pub fn sample(&mut self, class: &str, f: impl FnOnce() -> String) {
        if !self.counting {
            return;
        }
        let e = self.samples.entry(class.to_string()).or_default();
        if e.len() < 2 {
            let mut s = f();
            if s.len() > 1500 {
                let mut cut = 1500;
                while !s.is_char_boundary(cut) {
                    cut -= 1;
                }
                s.truncate(cut);
                s.push_str("…");
            }
            e.push(s);
        }
    }
    pub fn wants_sample(&self, class: &str) -> bool {
        self.counting && self.samples.get(class).map(|v| v.len() < 2).unwrap_or(true)
    }
    /// the distinct non-trivial fingerprints collected so far and the number that did not fit the cap
    pub fn fingerprints(&self) -> (Vec<u64>, u64) {
        (self.fps.iter().copied().collect(), self.fp_overflow)
    }
    pub fn samples_json(&self) -> serde_json::Value {
        serde_json::json!(self.samples)
    }
    /// the case did not satisfy a generator precondition
    pub fn reject(&mut self) {
        self.case_rejected = true;
    }
    /// write the input about to be executed into the crash journal (crash-prone properties)
    pub fn journal(&mut self, sub: &str, input: &[u8]) {
        if let Some(j) = self.journal.as_mut() {
            j.write(sub, input);
        }
    }
}

/// one-slot crash journal: the last input handed to a crash-prone call
pub struct Journal {
    file: std::fs::File,
}

impl Journal {
    pub fn create(path: &Path) -> Option<Journal> {
        let file = std::fs::OpenOptions::new().create(true).write(true).truncate(true).open(path).ok()?;
        Some(Journal { file })
    }
    pub fn write(&mut self, sub: &str, input: &[u8]) {
        use std::os::unix::fs::FileExt;
        let mut buf = Vec::with_capacity(input.len() + sub.len() + 16);
        buf.extend_from_slice(&(sub.len() as u32).to_le_bytes());
        buf.extend_from_slice(sub.as_bytes());
        buf.extend_from_slice(&(input.len() as u32).to_le_bytes());
        buf.extend_from_slice(input);
        let total = buf.len() as u32;
        let mut framed = Vec::with_capacity(buf.len() + 4);
        framed.extend_from_slice(&total.to_le_bytes());
        framed.extend_from_slice(&buf);
        let _ = self.file.write_all_at(&framed, 0);
    }
    pub fn read(path: &Path) -> Option<(String, Vec<u8>)> {
        let data = std::fs::read(path).ok()?;
        if data.len() < 4 {
            return None;
        }
        let total = u32::from_le_bytes(data[0..4].try_into().ok()?) as usize;
        let body = data.get(4..4 + total)?;
        let sl = u32::from_le_bytes(body.get(0..4)?.try_into().ok()?) as usize;
        let sub = String::from_utf8(body.get(4..4 + sl)?.to_vec()).ok()?;
        let il = u32::from_le_bytes(body.get(4 + sl..8 + sl)?.try_into().ok()?) as usize;
        let input = body.get(8 + sl..8 + sl + il)?.to_vec();
        Some((sub, input))
    }
}

pub enum Kind {
    /// random tapes: total number of cases over all shards (quick, thorough), tape length ladder top
    Tape { quick: u64, thorough: u64, max_len: usize },
    /// deterministic enumeration: count(tier) inputs, produced by make(tier, index)
    Enum { count: fn(Tier) -> u64, make: fn(Tier, u64) -> Vec<u8>, exhaustive_note: &'static str },
}

pub struct SubCheck {
    pub name: &'static str,
    pub kind: Kind,
    pub run: fn(&mut Ctx, &[u8]) -> CaseResult,
}

pub struct Property {
    pub id: &'static str,
    pub rule: &'static str,
    pub assumptions: Vec<String>,
    pub subchecks: Vec<SubCheck>,
    /// journal every case so an abort of the shard process still yields the input
    pub crash_prone: bool,
    /// maximum tolerated fraction of rejected cases before the run is declared vacuous
    pub max_reject_fraction: f64,
    /// labels that must reach at least this fraction of evaluations of their sub-check prefix
    pub required_label_fraction: Vec<(&'static str, &'static str, f64)>,
}

// ---------------------------------------------------------------------------------------------
// panic capture

thread_local! {
    static LAST_PANIC: RefCell<Option<(String, String)>> = RefCell::new(None);
}

pub fn install_panic_hook() {
    std::panic::set_hook(Box::new(|info| {
        let file = info.location().map(|l| l.file().to_string()).unwrap_or_default();
        let line = info.location().map(|l| l.line()).unwrap_or(0);
        let msg = if let Some(s) = info.payload().downcast_ref::<&str>() {
            s.to_string()
        } else if let Some(s) = info.payload().downcast_ref::<String>() {
            s.clone()
        } else {
            "<non-string panic>".to_string()
        };
        LAST_PANIC.with(|p| {
            let mut p = p.borrow_mut();
            if p.is_none() {
                *p = Some((format!("{}:{}", file, line), msg));
            }
        });
    }));
}

#[derive(Clone, Debug)]
pub struct PanicInfo {
    pub file: String,
    pub line: u32,
    pub msg: String,
}

impl PanicInfo {
    /// stable cause: source file (no line) + message with digits normalised
    pub fn cause(&self) -> String {
        format!("{}|{}", short_file(&self.file), normalise_msg(&self.msg))
    }
    pub fn in_engine(&self) -> bool {
        self.file.contains("/verif/engine/") || self.file.starts_with("src/")
    }
}

fn short_file(f: &str) -> String {
    if let Some(i) = f.find("/repo/rust/") {
        return f[i + "/repo/rust/".len()..].to_string();
    }
    if let Some(i) = f.find("/registry/src/") {
        let rest = &f[i + "/registry/src/".len()..];
        if let Some(j) = rest.find('/') {
            return rest[j + 1..].to_string();
        }
    }
    if let Some(i) = f.find("/library/") {
        return f[i + 1..].to_string();
    }
    f.to_string()
}

pub fn normalise_msg(m: &str) -> String {
    // keep the stable head of the message: cut at the first structured payload
    let mut m = m;
    for cut in ["\n", "  left", " {", ": \"", ": '"] {
        if let Some(i) = m.find(cut) {
            m = &m[..i];
        }
    }
    let mut out = String::new();
    let mut in_num = false;
    for c in m.chars().take(90) {
        if c.is_ascii_digit() {
            if !in_num {
                out.push('#');
                in_num = true;
            }
        } else {
            in_num = false;
            out.push(if c == '\n' { ' ' } else { c });
        }
    }
    out
}

/// runs `f`, converting a panic into PanicInfo
pub fn catch<T>(f: impl FnOnce() -> T) -> Result<T, PanicInfo> {
    LAST_PANIC.with(|p| *p.borrow_mut() = None);
    let r = std::panic::catch_unwind(std::panic::AssertUnwindSafe(f));
    match r {
        Ok(v) => Ok(v),
        Err(_) => {
            let (loc, msg) = LAST_PANIC.with(|p| p.borrow_mut().take()).unwrap_or_default();
            let (file, line) = match loc.rfind(':') {
                Some(i) => (loc[..i].to_string(), loc[i + 1..].parse().unwrap_or(0)),
                None => (loc, 0),
            };
            Err(PanicInfo { file, line, msg })
        }
    }
}

// ---------------------------------------------------------------------------------------------
// known findings

#[derive(Clone, Debug)]
pub struct KnownFinding {
    pub property: String,
    pub id: String,
    pub signature: String,
    pub reproducer: String,
    pub what: String,
}

pub struct Known {
    pub findings: Vec<KnownFinding>,
}

impl Known {
    pub fn load() -> Known {
        let path = Path::new(&verif_dir()).join("known_findings.json");
        let mut findings = Vec::new();
        if let Ok(s) = std::fs::read_to_string(&path) {
            if let Ok(v) = serde_json::from_str::<J>(&s) {
                if let Some(a) = v.get("findings").and_then(|f| f.as_array()) {
                    for f in a {
                        let g = |k: &str| f.get(k).and_then(|x| x.as_str()).unwrap_or("").to_string();
                        findings.push(KnownFinding {
                            property: g("property"),
                            id: g("id"),
                            signature: g("signature"),
                            reproducer: g("reproducer"),
                            what: g("what"),
                        });
                    }
                }
            }
        }
        Known { findings }
    }
    pub fn matches(&self, property: &str, sig: &str) -> Option<&KnownFinding> {
        self.findings.iter().find(|f| f.property == property && sig_match(&f.signature, sig))
    }
}

fn sig_match(pattern: &str, sig: &str) -> bool {
    if let Some(p) = pattern.strip_suffix('*') {
        sig.starts_with(p)
    } else {
        pattern == sig
    }
}

// ---------------------------------------------------------------------------------------------
// running one case

pub enum CaseOutcome {
    Pass,
    Reject,
    Fail(Failure),
    EngineBug(String),
}

pub fn run_case(ctx: &mut Ctx, sub: &SubCheck, input: &[u8]) -> CaseOutcome {
    ctx.case_rejected = false;
    ctx.case_nontrivial = false;
    let r = catch(|| (sub.run)(ctx, input));
    match r {
        Ok(Ok(())) => {
            if ctx.case_rejected {
                if ctx.counting {
                    ctx.rejected += 1;
                }
                CaseOutcome::Reject
            } else {
                CaseOutcome::Pass
            }
        }
        Ok(Err(f)) => CaseOutcome::Fail(f),
        Err(p) => {
            if p.in_engine() {
                CaseOutcome::EngineBug(format!("{}:{} {}", p.file, p.line, p.msg))
            } else {
                CaseOutcome::Fail(Failure::new(
                    format!("{}/escaped-panic/{}", sub.name, p.cause()),
                    format!("panic escaped the case runner at {}:{}: {}", p.file, p.line, p.msg),
                ))
            }
        }
    }
}

// ---------------------------------------------------------------------------------------------
// shard execution

#[derive(Default)]
pub struct ShardResult {
    pub evaluations: BTreeMap<String, u64>,
    pub failures: Vec<(String, Vec<u8>, Failure)>,
    pub excluded_known: BTreeMap<String, u64>,
    pub engine_bugs: Vec<String>,
}

fn seed_bytes(seed: u64, property: &str, sub: &str, shard: u64, round: u64) -> [u8; 32] {
    let s = format!("{}|{}|{}|{}|{}", seed, property, sub, shard, round);
    let a = crate::tape::fp64(s.as_bytes());
    let b = crate::tape::fp_mix(a, 1);
    let c = crate::tape::fp_mix(a, 2);
    let d = crate::tape::fp_mix(a, 3);
    let mut out = [0u8; 32];
    out[0..8].copy_from_slice(&a.to_le_bytes());
    out[8..16].copy_from_slice(&b.to_le_bytes());
    out[16..24].copy_from_slice(&c.to_le_bytes());
    out[24..32].copy_from_slice(&d.to_le_bytes());
    out
}

fn tape_strategy(max_len: usize) -> impl Strategy<Value = Vec<u8>> {
    let l1 = (max_len / 16).max(8);
    let l2 = (max_len / 4).max(16);
    prop_oneof![
        3 => proptest::collection::vec(any::<u8>(), 0..=l1),
        3 => proptest::collection::vec(any::<u8>(), 0..=l2),
        2 => proptest::collection::vec(any::<u8>(), 0..=max_len),
    ]
}

pub fn scale() -> f64 {
    std::env::var("VERIF_SCALE").ok().and_then(|s| s.parse().ok()).unwrap_or(1.0)
}

pub fn run_shard(
    prop: &Property,
    tier: Tier,
    seed: u64,
    shard: u64,
    known: &Known,
    only_sub: Option<&str>,
    ctx: &mut Ctx,
) -> ShardResult {
    let mut res = ShardResult::default();
    for sub in &prop.subchecks {
        if let Some(o) = only_sub {
            if o != sub.name {
                continue;
            }
        }
        let mut evals = 0u64;
        match &sub.kind {
            Kind::Enum { count, make, .. } => {
                let n = count(tier);
                let mut found: BTreeSet<String> = BTreeSet::new();
                let mut i = shard;
                while i < n {
                    let input = make(tier, i);
                    if prop.crash_prone {
                        ctx.journal(sub.name, &input);
                    }
                    evals += 1;
                    match run_case(ctx, sub, &input) {
                        CaseOutcome::Pass | CaseOutcome::Reject => {}
                        CaseOutcome::EngineBug(m) => res.engine_bugs.push(m),
                        CaseOutcome::Fail(f) => {
                            if let Some(k) = known.matches(prop.id, &f.sig) {
                                *res.excluded_known.entry(k.id.clone()).or_insert(0) += 1;
                            } else if found.insert(f.sig.clone()) {
                                if res.failures.len() < 8 {
                                    res.failures.push((sub.name.to_string(), input.clone(), f));
                                }
                            }
                        }
                    }
                    i += SHARDS;
                }
            }
            Kind::Tape { quick, thorough, max_len } => {
                let total = ((tier.pick(*quick, *thorough) as f64) * scale()).ceil() as u64;
                let per_shard = (total + SHARDS - 1) / SHARDS;
                let mut remaining = per_shard;
                let mut round = 0u64;
                // signatures already found in this shard are excluded so the search continues behind them
                let mut found: BTreeSet<String> = BTreeSet::new();
                while remaining > 0 && round < 6 {
                    let cfg = Config {
                        cases: remaining.min(u32::MAX as u64) as u32,
                        max_shrink_iters: 3000,
                        max_shrink_time: 0,
                        failure_persistence: None,
                        max_global_rejects: u32::MAX,
                        max_local_rejects: u32::MAX,
                        verbose: 0,
                        source_file: None,
                        test_name: None,
                        ..Config::default()
                    };
                    let rng = TestRng::from_seed(RngAlgorithm::ChaCha, &seed_bytes(seed, prop.id, sub.name, shard, round));
                    let mut runner = TestRunner::new_with_rng(cfg, rng);
                    let strat = tape_strategy(*max_len);
                    let target: RefCell<Option<String>> = RefCell::new(None);
                    let done = RefCell::new(0u64);
                    let ctx_cell = RefCell::new(&mut *ctx);
                    let excl = RefCell::new(&mut res.excluded_known);
                    let bugs = RefCell::new(&mut res.engine_bugs);
                    let details: RefCell<Option<Failure>> = RefCell::new(None);
                    let crash_prone = prop.crash_prone;
                    let r = runner.run(&strat, |input| {
                        let mut ctx = ctx_cell.borrow_mut();
                        let shrinking = target.borrow().is_some();
                        if !shrinking {
                            *done.borrow_mut() += 1;
                        }
                        if crash_prone {
                            ctx.journal(sub.name, &input);
                        }
                        match run_case(&mut **ctx, sub, &input) {
                            CaseOutcome::Pass | CaseOutcome::Reject => Ok(()),
                            CaseOutcome::EngineBug(m) => {
                                bugs.borrow_mut().push(m);
                                Ok(())
                            }
                            CaseOutcome::Fail(f) => {
                                if shrinking {
                                    if target.borrow().as_deref() == Some(f.sig.as_str()) {
                                        *details.borrow_mut() = Some(f.clone());
                                        Err(TestCaseError::fail(f.sig))
                                    } else {
                                        Ok(())
                                    }
                                } else if let Some(k) = known.matches(prop.id, &f.sig) {
                                    *excl.borrow_mut().entry(k.id.clone()).or_insert(0) += 1;
                                    Ok(())
                                } else if found.contains(&f.sig) {
                                    *excl.borrow_mut().entry(format!("found-this-run:{}", f.sig)).or_insert(0) += 1;
                                    Ok(())
                                } else {
                                    *target.borrow_mut() = Some(f.sig.clone());
                                    *details.borrow_mut() = Some(f.clone());
                                    ctx.counting = false;
                                    Err(TestCaseError::fail(f.sig))
                                }
                            }
                        }
                    });
                    ctx_cell.borrow_mut().counting = true;
                    let d = *done.borrow();
                    evals += d;
                    remaining = remaining.saturating_sub(d.max(1));
                    match r {
                        Ok(()) => break,
                        Err(TestError::Fail(_, minimal)) => {
                            let f = details.borrow().clone().unwrap_or(Failure::new("unknown", ""));
                            // re-run the minimal input to obtain its own detail text
                            let mut tmp = Ctx::new(tier, true);
                            let f2 = match run_case(&mut tmp, sub, &minimal) {
                                CaseOutcome::Fail(f2) if f2.sig == f.sig => f2,
                                _ => f.clone(),
                            };
                            found.insert(f.sig.clone());
                            if res.failures.len() < 8 {
                                res.failures.push((sub.name.to_string(), minimal, f2));
                            }
                        }
                        Err(TestError::Abort(reason)) => {
                            res.engine_bugs.push(format!("proptest aborted: {}", reason));
                            break;
                        }
                    }
                    round += 1;
                }
            }
        }
        res.evaluations.insert(sub.name.to_string(), evals);
    }
    res
}

// ---------------------------------------------------------------------------------------------
// shard result (de)serialisation

pub fn shard_dir(prop: &str, tier: Tier) -> PathBuf {
    Path::new(&verif_dir()).join("work").join(format!("{}-{}", prop, tier.name()))
}

pub fn write_shard_result(dir: &Path, shard: u64, ctx: &Ctx, res: &ShardResult) {
    let fails: Vec<J> = res
        .failures
        .iter()
        .map(|(s, i, f)| json!({"subcheck": s, "input_hex": hex::encode(i), "sig": f.sig, "detail": f.detail}))
        .collect();
    let v = json!({
        "evaluations": res.evaluations,
        "labels": ctx.labels,
        "rejected": ctx.rejected,
        "nontrivial_total": ctx.nontrivial_total,
        "fp_overflow": ctx.fp_overflow,
        "samples": ctx.samples,
        "excluded_known": res.excluded_known,
        "failures": fails,
        "engine_bugs": res.engine_bugs,
    });
    let _ = std::fs::write(dir.join(format!("shard-{}.json", shard)), serde_json::to_vec(&v).unwrap());
    let mut buf = Vec::with_capacity(ctx.fps.len() * 8);
    for f in &ctx.fps {
        buf.extend_from_slice(&f.to_le_bytes());
    }
    let _ = std::fs::write(dir.join(format!("shard-{}.fps", shard)), buf);
}

// ---------------------------------------------------------------------------------------------
// replay files

static CURRENT_TIER: std::sync::atomic::AtomicU8 = std::sync::atomic::AtomicU8::new(0);

/// the tier this process generates cases for: replay files record it, because the tier fixes generator
/// parameters (depth, collection sizes) and the same tape decodes to another case under the other tier
pub fn set_current_tier(t: Tier) {
    CURRENT_TIER.store(matches!(t, Tier::Thorough) as u8, std::sync::atomic::Ordering::Relaxed);
}
pub fn current_tier() -> Tier {
    if CURRENT_TIER.load(std::sync::atomic::Ordering::Relaxed) == 1 {
        Tier::Thorough
    } else {
        Tier::Quick
    }
}

pub fn write_replay(prop: &str, sub: &str, input: &[u8], f: &Failure) -> PathBuf {
    let dir = Path::new(&verif_dir()).join("replays").join(prop);
    let _ = std::fs::create_dir_all(&dir);
    let fpr = crate::tape::fp_mix(crate::tape::fp64(input), crate::tape::fp64(f.sig.as_bytes()));
    let path = dir.join(format!("{}-{:016x}.json", sub, fpr));
    let v = json!({
        "property": prop,
        "subcheck": sub,
        "tier": current_tier().name(),
        "input_hex": hex::encode(input),
        "signature": f.sig,
        "detail": f.detail,
    });
    let mut s = serde_json::to_string_pretty(&v).unwrap();
    s.push('\n');
    let _ = std::fs::write(&path, s);
    path
}

pub struct ReplayFile {
    pub property: String,
    pub subcheck: String,
    pub input: Vec<u8>,
    pub signature: String,
    pub tier: Tier,
}

pub fn read_replay(path: &Path) -> Option<ReplayFile> {
    let s = std::fs::read_to_string(path).ok()?;
    let v: J = serde_json::from_str(&s).ok()?;
    Some(ReplayFile {
        property: v.get("property")?.as_str()?.to_string(),
        subcheck: v.get("subcheck")?.as_str()?.to_string(),
        input: hex::decode(v.get("input_hex")?.as_str()?).ok()?,
        signature: v.get("signature").and_then(|x| x.as_str()).unwrap_or("").to_string(),
        tier: if v.get("tier").and_then(|x| x.as_str()) == Some("thorough") { Tier::Thorough } else { Tier::Quick },
    })
}

pub fn flush_stdout() {
    let _ = std::io::stdout().flush();
}
