//! C04 — original bytes and the hashes derived from them are preserved.
use crate::cbor::{self, Kind, Node};
use crate::gen::*;
use crate::mutate::NonCanon;
use crate::runner::*;
use crate::tape::*;
use cardano_serialization_lib as csl;
use cryptoxide::blake2b::Blake2b;
use csl::*;

pub fn property() -> Property {
    Property {
        id: "C04",
        rule: "a transaction (typed generator) is encoded, parsed by the engine's CBOR reader and re-emitted with non-canonical but equivalent encoding choices drawn from the tape (non-minimal heads, indefinite arrays/maps, rotated map keys, chunked byte strings, untagged legacy sets, legacy 3-element transaction array, empty arrays under optional witness keys); if FixedTransaction::from_bytes accepts it, a history of 0..6 operations (sign+add vkey, add vkey witness, Icarus / Daedalus bootstrap signature, add bootstrap witness, repeats, to_bytes+from_bytes in between, set_body) follows. Likewise Plutus data in non-canonical encodings (stand-alone and embedded in outputs, witness sets, redeemers) and blocks through FixedBlock. Non-trivial = the accepted input differs from the library's canonical re-encoding in at least one place, or at least one operation was applied; distinct by hash of (input bytes, history)",
        assumptions: vec![
            "blake2b-256 is computed by the engine with cryptoxide directly (trusted primitive)".into(),
            "inputs the byte-preserving decoders reject are rejects (counted), not failures".into(),
            "key 0 / 2 of the witness set after an add operation must hold the earlier witnesses in order (duplicates the input repeated are collapsed, the collection is a set) followed by the new ones exactly once, compared as (vkey, signature[, chain code, attributes]) tuples; tagged / untagged choice of the input is kept".into(),
            "only well-formed inputs are generated here (malformed ones are C02's domain)".into(),
        ],
        subchecks: vec![
            SubCheck { name: "fixed_tx", kind: crate::runner::Kind::Tape { quick: 300_000, thorough: 12_000_000, max_len: 700 }, run: fixed_tx },
            SubCheck { name: "datum", kind: crate::runner::Kind::Tape { quick: 500_000, thorough: 20_000_000, max_len: 300 }, run: datum },
            SubCheck { name: "fixed_block", kind: crate::runner::Kind::Tape { quick: 60_000, thorough: 2_000_000, max_len: 900 }, run: fixed_block },
        ],
        crash_prone: false,
        max_reject_fraction: 0.35,
        required_label_fraction: vec![],
    }
}

pub fn blake2b256(data: &[u8]) -> [u8; 32] {
    let mut out = [0u8; 32];
    Blake2b::blake2b(&mut out, data, &[]);
    out
}

thread_local! {
    static ROOTS: std::cell::RefCell<std::collections::BTreeMap<Vec<u8>, Bip32PrivateKey>> = std::cell::RefCell::new(std::collections::BTreeMap::new());
}
/// BIP39 root keys are key-stretched (about 2 ms each); the pool is tiny, so cache them per thread
fn root_key(entropy: &[u8]) -> Bip32PrivateKey {
    ROOTS.with(|r| {
        let k = r.borrow_mut().entry(entropy.to_vec()).or_insert_with(|| Bip32PrivateKey::from_bip39_entropy(entropy, &[])).as_bytes();
        Bip32PrivateKey::from_bytes(&k).expect("own key bytes")
    })
}

fn lib<T>(what: &str, f: impl FnOnce() -> T) -> Result<T, Failure> {
    catch(f).map_err(|p| Failure::new(format!("panic/{}|{}", what, p.cause()), format!("{} panicked at {}:{}: {}", what, p.file, p.line, p.msg)))
}

struct TxLayout {
    body: (usize, usize),
    wits: Vec<(u64, (usize, usize))>,
    aux: Option<(usize, usize)>,
}

fn layout(doc: &Node) -> Option<TxLayout> {
    let items = doc.as_array()?;
    if items.len() < 3 {
        return None;
    }
    let body = (items[0].start, items[0].end);
    let wits = items[1].as_map()?.iter().filter_map(|(k, v)| k.as_u64().map(|k| (k, (v.start, v.end)))).collect();
    let aux_node = items.last()?;
    let aux = if aux_node.is_null() || items.len() == 3 && matches!(aux_node.kind, Kind::Simple(_)) { None } else { Some((aux_node.start, aux_node.end)) };
    Some(TxLayout { body, wits, aux })
}

/// elements of a (possibly tagged) witness array as comparable tuples of byte strings
fn witness_tuples(n: &Node) -> Option<(bool, Vec<Vec<Vec<u8>>>)> {
    let (tagged, arr) = match n.as_tag() {
        Some((258, inner)) => (true, inner),
        _ => (false, n),
    };
    let items = arr.as_array()?;
    let mut out = Vec::new();
    for it in items {
        let fields = it.as_array()?;
        out.push(fields.iter().map(|f| f.as_bytes().map(|b| b.to_vec()).unwrap_or_default()).collect());
    }
    Some((tagged, out))
}

fn dedup(v: &[Vec<Vec<u8>>]) -> Vec<Vec<Vec<u8>>> {
    let mut out: Vec<Vec<Vec<u8>>> = Vec::new();
    for x in v {
        if !out.contains(x) {
            out.push(x.clone());
        }
    }
    out
}

fn fixed_tx(ctx: &mut Ctx, tape: &[u8]) -> CaseResult {
    // plan (shell variations, encoding intensity, history) from the head of the tape, content from the rest
    let (plan, content) = split_plan(tape, 40);
    let mut g = Gen::new(content, 3, 5);
    g.cddl_ranges = true;
    let mut tx = transaction(&mut g);
    // auxiliary data is the last thing the transaction generator asks the content tape for and starves there:
    // the plan's last byte attaches one (content from a derived tape) to a quarter of the transactions without
    if tx.auxiliary_data().is_none() && plan.len() == 40 && plan[39] & 3 == 1 {
        let aux_tape = expand(&plan[32..40], 300);
        let mut ga = Gen::new(&aux_tape, 3, 4);
        ga.cddl_ranges = true;
        let valid = tx.is_valid();
        tx = Transaction::new(&tx.body(), &tx.witness_set(), Some(auxiliary_data(&mut ga)));
        tx.set_is_valid(valid);
    }
    let canonical = tx.to_bytes();
    let mut t = Tape::new(plan);
    let coins = expand(&plan[..plan.len().min(8)], 4096);
    let mut ct = Tape::new(&coins);
    let mut tree = match cbor::parse_document(&canonical) {
        Ok(n) => n,
        Err(_) => {
            ctx.reject();
            return Ok(());
        }
    };
    // structural variations of the transaction shell
    let mut features: Vec<&'static str> = Vec::new();
    if t.chance(40) {
        // legacy 3-element array: [body, witness_set, auxiliary_data / null]
        if let Kind::Array { items, .. } = &mut tree.kind {
            if items.len() == 4 {
                items.remove(2);
                features.push("legacy-3-element-tx");
            }
        }
    }
    if t.chance(50) {
        // empty arrays under optional witness keys that the canonical form would omit
        if let Kind::Array { items, .. } = &mut tree.kind {
            if let Kind::Map { entries, .. } = &mut items[1].kind {
                let keys = [0u64, 1, 2, 3, 4, 5, 6, 7];
                let k = keys[t.choose(8)];
                if !entries.iter().any(|(key, _)| key.as_u64() == Some(k)) {
                    let v = if k == 5 && t.bool() { cbor::map(vec![]) } else if t.bool() { cbor::tag(258, cbor::array(vec![])) } else { cbor::array(vec![]) };
                    entries.push((cbor::uint(k), v));
                    features.push("empty-array-under-witness-key");
                }
            }
        }
    }
    if t.chance(40) {
        // repeat a vkey witness inside key 0 (a set given with a duplicate)
        if let Kind::Array { items, .. } = &mut tree.kind {
            if let Kind::Map { entries, .. } = &mut items[1].kind {
                for (k, v) in entries.iter_mut() {
                    if k.as_u64() == Some(0) {
                        let arr = match &mut v.kind {
                            Kind::Tag(258, inner) => &mut **inner,
                            _ => v,
                        };
                        if let Kind::Array { items: ws, .. } = &mut arr.kind {
                            if let Some(first) = ws.first().cloned() {
                                ws.push(first);
                                features.push("duplicate-witness-in-input");
                            }
                        }
                    }
                }
            }
        }
    }
    let mut nc = NonCanon::from_tape(&mut t);
    nc.apply(&mut tree, &mut ct);
    features.extend(nc.features.iter());
    let input = cbor::encode(&tree);
    let doc = match cbor::parse_document(&input) {
        Ok(d) => d,
        Err(e) => panic!("engine emitted malformed CBOR: {} {}", e, hex::encode(&input)),
    };
    let lay = match layout(&doc) {
        Some(l) => l,
        None => {
            ctx.reject();
            return Ok(());
        }
    };
    let route = t.choose(4);
    let mut ftx = match lib("FixedTransaction::from_bytes", || FixedTransaction::from_bytes(input.clone()))? {
        Ok(f) => f,
        Err(_) => {
            ctx.label("rejected-by-FixedTransaction");
            for f in &features {
                ctx.label(&format!("rejected-with:{}", f));
            }
            ctx.reject();
            return Ok(());
        }
    };
    let mut body_slice: Vec<u8> = input[lay.body.0..lay.body.1].to_vec();
    let aux_slice: Option<Vec<u8>> = lay.aux.map(|(a, b)| input[a..b].to_vec());
    // the other ways to get the same object: from its raw parts (with / without auxiliary data) and from hex
    {
        let items = doc.as_array().unwrap();
        let wits_slice = input[items[1].start..items[1].end].to_vec();
        let is_valid = if items.len() == 4 { !matches!(items[2].kind, Kind::Simple(20)) } else { true };
        match route {
            2 => {
                let r = match &aux_slice {
                    Some(a) => lib("FixedTransaction::new_with_auxiliary", || FixedTransaction::new_with_auxiliary(&body_slice, &wits_slice, a, is_valid))?,
                    None => lib("FixedTransaction::new", || FixedTransaction::new(&body_slice, &wits_slice, is_valid))?,
                };
                match r {
                    Ok(f) => {
                        ftx = f;
                        ctx.label(if aux_slice.is_some() { "route:new_with_auxiliary" } else { "route:new" });
                    }
                    Err(_) => ctx.label("route:parts-constructor-refused(from_bytes kept)"),
                }
            }
            3 => {
                let hx = if t.bool() { hex::encode(&input).to_uppercase() } else { hex::encode(&input) };
                match lib("FixedTransaction::from_hex", || FixedTransaction::from_hex(&hx))? {
                    Ok(f) => {
                        ftx = f;
                        ctx.label("route:from_hex");
                    }
                    Err(e) => fail!("fixed_tx/from_hex-refuses-what-from_bytes-accepts", "{:?}: {}", e, hx),
                }
            }
            _ => ctx.label("route:from_bytes"),
        }
    }
    // expected state of keys 0 and 2
    let in_wits = doc.as_array().unwrap()[1].as_map().unwrap();
    let find = |k: u64| in_wits.iter().find(|(key, _)| key.as_u64() == Some(k)).map(|(_, v)| v);
    let mut exp_vkeys: Option<(bool, Vec<Vec<Vec<u8>>>)> = find(0).and_then(witness_tuples);
    let mut exp_boots: Option<(bool, Vec<Vec<Vec<u8>>>)> = find(2).and_then(witness_tuples);
    let mut touched0 = false;
    let mut touched2 = false;
    let mut added_vkeys: Vec<(Vec<u8>, Vec<u8>)> = Vec::new();
    let mut history: Vec<String> = Vec::new();

    let check = |ftx: &FixedTransaction, body_slice: &[u8], exp_vkeys: &Option<(bool, Vec<Vec<Vec<u8>>>)>, exp_boots: &Option<(bool, Vec<Vec<Vec<u8>>>)>, touched0: bool, touched2: bool, history: &[String]| -> CaseResult {
        let h = history.join(",");
        let raw_body = lib("raw_body", || ftx.raw_body())?;
        ensure!(raw_body == body_slice, "fixed_tx/raw_body-differs", "after [{}]: raw_body {} vs input body {}", h, hex::encode(&raw_body), hex::encode(body_slice));
        let hash = lib("transaction_hash", || ftx.transaction_hash().to_bytes())?;
        ensure!(hash == blake2b256(body_slice).to_vec(), "fixed_tx/hash-not-blake2b-of-original-body", "after [{}]: transaction_hash {} but blake2b256(original body bytes) = {}", h, hex::encode(&hash), hex::encode(blake2b256(body_slice)));
        let raw_aux = lib("raw_auxiliary_data", || ftx.raw_auxiliary_data())?;
        ensure!(raw_aux == aux_slice, "fixed_tx/raw_auxiliary_data-differs", "after [{}]: {:?} vs {:?}", h, raw_aux.map(hex::encode), aux_slice.as_ref().map(hex::encode));
        let out = lib("to_bytes", || ftx.to_bytes())?;
        let odoc = match cbor::parse_document(&out) {
            Ok(d) => d,
            Err(e) => fail!("fixed_tx/output-malformed", "after [{}]: to_bytes is not well-formed CBOR ({}): in={} out={}", h, e, hex::encode(&input), hex::encode(&out)),
        };
        let olay = match layout(&odoc) {
            Some(l) => l,
            None => fail!("fixed_tx/output-shape", "after [{}]: output is not a transaction array: {}", h, hex::encode(&out)),
        };
        ensure!(&out[olay.body.0..olay.body.1] == body_slice, "fixed_tx/body-bytes-changed", "after [{}]: in={} out={}", h, hex::encode(&input), hex::encode(&out));
        ensure!(olay.aux.map(|(a, b)| out[a..b].to_vec()) == aux_slice, "fixed_tx/auxiliary-bytes-changed", "after [{}]: in={} out={}", h, hex::encode(&input), hex::encode(&out));
        // untouched witness fields byte for byte
        for (k, (a, b)) in &lay.wits {
            if (*k == 0 && touched0) || (*k == 2 && touched2) {
                continue;
            }
            let want = &input[*a..*b];
            match olay.wits.iter().find(|(ok, _)| ok == k) {
                Some((_, (oa, ob))) => ensure!(&out[*oa..*ob] == want, format!("fixed_tx/untouched-witness-field-changed/key{}", k), "after [{}]: key {} was {} now {}", h, k, hex::encode(want), hex::encode(&out[*oa..*ob])),
                None => fail!(format!("fixed_tx/untouched-witness-field-dropped/key{}", k), "after [{}]: key {} ({}) is missing from the output witness set {}", h, k, hex::encode(want), hex::encode(&out)),
            }
        }
        for (ok, _) in &olay.wits {
            let was = lay.wits.iter().any(|(k, _)| k == ok);
            let may_appear = (*ok == 0 && touched0) || (*ok == 2 && touched2);
            ensure!(was || may_appear, "fixed_tx/witness-field-invented", "after [{}]: key {} appears in the output only: {}", h, ok, hex::encode(&out));
        }
        // touched fields: earlier witnesses in order + new ones once
        let owits = odoc.as_array().unwrap()[1].as_map().unwrap();
        for (k, touched, exp) in [(0u64, touched0, exp_vkeys), (2u64, touched2, exp_boots)] {
            if !touched {
                continue;
            }
            let node = owits.iter().find(|(key, _)| key.as_u64() == Some(k)).map(|(_, v)| v);
            let got = node.and_then(witness_tuples);
            match (got, exp) {
                (Some((gt, gv)), Some((et, ev))) => {
                    ensure!(gv == *ev, format!("fixed_tx/touched-witness-list-wrong/key{}", k), "after [{}]: key {} holds {} witnesses, expected {} (earlier ones in order, new ones once); out={}", h, k, gv.len(), ev.len(), hex::encode(&out));
                    // the tagged / untagged choice is pinned only for a list that existed in the input
                    if lay.wits.iter().any(|(ik, _)| *ik == k) {
                        ensure!(gt == *et, format!("fixed_tx/set-tag-choice-changed/key{}", k), "after [{}]: key {} tagged={} but the input had tagged={}", h, k, gt, et);
                    }
                }
                (None, Some((_, ev))) if ev.is_empty() => {}
                (g, e) => fail!(format!("fixed_tx/touched-witness-field-missing/key{}", k), "after [{}]: key {}: got {:?} expected {:?}", h, k, g.map(|x| x.1.len()), e.as_ref().map(|x| x.1.len())),
            }
        }
        Ok(())
    };

    check(&ftx, &body_slice, &exp_vkeys, &exp_boots, touched0, touched2, &history)?;

    // whether new witness lists are tagged: the library decides from the transaction's own sets
    let n_ops = t.choose(7);
    let mut keys: Vec<PrivateKey> = Vec::new();
    for step in 0..n_ops {
        let op = t.choose(8);
        match op {
            0 | 1 => {
                let seed = t.pooled(4, 32, 40);
                let sk = PrivateKey::from_normal_bytes(&seed).expect("32 bytes");
                lib("sign_and_add_vkey_signature", || ftx.sign_and_add_vkey_signature(&sk))?.map_err(|e| Failure::new("fixed_tx/sign-error", format!("{:?}", e)))?;
                let pk = sk.to_public();
                let sig = sk.sign(&blake2b256(&body_slice));
                let tuple = vec![pk.as_bytes(), sig.to_bytes()];
                added_vkeys.push((pk.as_bytes(), sig.to_bytes()));
                push_expected(&mut exp_vkeys, tuple, &doc);
                touched0 = true;
                keys.push(sk);
                history.push("sign_vkey".into());
            }
            2 => {
                // a prepared witness (possibly a repeat of an earlier one)
                let seed = t.pooled(4, 32, 40);
                let sk = PrivateKey::from_normal_bytes(&seed).expect("32 bytes");
                let w = make_vkey_witness(&TransactionHash::from_bytes(blake2b256(&body_slice).to_vec()).unwrap(), &sk);
                lib("add_vkey_witness", || ftx.add_vkey_witness(&w))?;
                let tuple = vec![w.vkey().public_key().as_bytes(), w.signature().to_bytes()];
                added_vkeys.push((tuple[0].clone(), tuple[1].clone()));
                push_expected(&mut exp_vkeys, tuple, &doc);
                touched0 = true;
                history.push("add_vkey_witness".into());
            }
            3 => {
                let root = root_key(&t.pooled(2, 16, 41));
                let addr = ByronAddress::icarus_from_key(&root.to_public(), NetworkInfo::mainnet().protocol_magic());
                lib("sign_and_add_icarus_bootstrap_signature", || ftx.sign_and_add_icarus_bootstrap_signature(&addr, &root))?.map_err(|e| Failure::new("fixed_tx/sign-error", format!("{:?}", e)))?;
                let w = make_icarus_bootstrap_witness(&TransactionHash::from_bytes(blake2b256(&body_slice).to_vec()).unwrap(), &addr, &root);
                let tuple = vec![w.vkey().public_key().as_bytes(), w.signature().to_bytes(), w.chain_code(), w.attributes()];
                push_expected(&mut exp_boots, tuple, &doc);
                touched2 = true;
                history.push("sign_icarus_bootstrap".into());
            }
            4 => {
                let mut g2 = Gen::new(&[], 1, 1);
                let seed = t.bytes(6);
                g2.t = Tape::new(Box::leak(seed.into_boxed_slice()));
                let w = bootstrap_witness(&mut g2);
                lib("add_bootstrap_witness", || ftx.add_bootstrap_witness(&w))?;
                let tuple = vec![w.vkey().public_key().as_bytes(), w.signature().to_bytes(), w.chain_code(), w.attributes()];
                push_expected(&mut exp_boots, tuple, &doc);
                touched2 = true;
                history.push("add_bootstrap_witness".into());
            }
            5 => {
                // serialize and load again in between
                let mid = lib("to_bytes", || ftx.to_bytes())?;
                ftx = match lib("FixedTransaction::from_bytes", || FixedTransaction::from_bytes(mid.clone()))? {
                    Ok(f) => f,
                    Err(e) => fail!("fixed_tx/own-output-rejected", "after [{}]: FixedTransaction::from_bytes rejects the library's own output {}: {:?}", history.join(","), hex::encode(&mid), e),
                };
                history.push("to_bytes+from_bytes".into());
            }
            6 => {
                // daedalus style bootstrap signature
                let bytes = {
                    let mut b = t.pooled(2, 96, 42);
                    b[0] &= 0b1111_1000;
                    b[31] &= 0b0001_1111;
                    b[31] |= 0b0100_0000;
                    b
                };
                if let Ok(k) = LegacyDaedalusPrivateKey::from_bytes(&bytes) {
                    let root = root_key(&t.pooled(2, 16, 41));
                    let addr = ByronAddress::icarus_from_key(&root.to_public(), NetworkInfo::mainnet().protocol_magic());
                    let r = catch(|| ftx.sign_and_add_daedalus_bootstrap_signature(&addr, &k));
                    match r {
                        Ok(Ok(())) => {
                            let w = make_daedalus_bootstrap_witness(&TransactionHash::from_bytes(blake2b256(&body_slice).to_vec()).unwrap(), &addr, &k);
                            let tuple = vec![w.vkey().public_key().as_bytes(), w.signature().to_bytes(), w.chain_code(), w.attributes()];
                            push_expected(&mut exp_boots, tuple, &doc);
                            touched2 = true;
                            history.push("sign_daedalus_bootstrap".into());
                        }
                        _ => {
                            // key material the legacy scheme refuses: not this property's business
                            ctx.label("daedalus-key-unusable");
                            continue;
                        }
                    }
                }
            }
            _ => {
                if step == 0 && t.chance(60) {
                    // replace the body bytes: hash and raw body must follow
                    let mut g3 = Gen::new(&[], 2, 2);
                    let seed = t.bytes(12);
                    g3.t = Tape::new(Box::leak(seed.into_boxed_slice()));
                    let nb = tx_body(&mut g3).to_bytes();
                    match lib("set_body", || ftx.set_body(&nb))? {
                        Ok(()) => {
                            body_slice = nb;
                            history.push("set_body".into());
                        }
                        Err(_) => {}
                    }
                } else if step == 0 {
                    // the deprecated whole-set setter, given the very witness-set bytes the transaction was loaded with:
                    // nothing may change (body, auxiliary data, hash, every witness field)
                    let items = doc.as_array().unwrap();
                    let wits_slice = input[items[1].start..items[1].end].to_vec();
                    #[allow(deprecated)]
                    let r = lib("set_witness_set", || ftx.set_witness_set(&wits_slice))?;
                    if r.is_ok() {
                        history.push("set_witness_set(own bytes)".into());
                    }
                }
            }
        }
        check(&ftx, &body_slice, &exp_vkeys, &exp_boots, touched0, touched2, &history)?;
    }
    // every added vkey signature verifies against the reported hash
    let hash = ftx.transaction_hash().to_bytes();
    for (pk, sig) in &added_vkeys {
        let pk = PublicKey::from_bytes(pk).expect("pk");
        let sig = Ed25519Signature::from_bytes(sig.clone()).expect("sig");
        // signatures made before a set_body refer to the earlier body; only check when no set_body happened
        if !history.iter().any(|h| h == "set_body") {
            ensure!(pk.verify(&hash, &sig), "fixed_tx/added-signature-does-not-verify", "history [{}]", history.join(","));
        }
    }
    for f in &features {
        ctx.label(&format!("feature:{}", f));
    }
    for h in &history {
        ctx.label(&format!("op:{}", h));
    }
    ctx.label(&format!("ops:{}", history.len()));
    let noncanonical = input != canonical;
    if noncanonical {
        ctx.label("accepted-non-canonical");
    }
    if noncanonical || !history.is_empty() {
        ctx.nontrivial(fp_mix(fp64(&input), fp64(history.join(",").as_bytes())));
        ctx.sample(&format!("fixed_tx:{}", features.first().unwrap_or(&"canonical")), || format!("features {:?} history {:?} input {}", features, history, hex::encode(&input[..input.len().min(160)])));
    }
    Ok(())
}

/// appends a witness tuple to the expected list of a touched key (sets: once, first position wins)
fn push_expected(exp: &mut Option<(bool, Vec<Vec<Vec<u8>>>)>, tuple: Vec<Vec<u8>>, doc: &Node) {
    match exp {
        Some((_, v)) => {
            let mut d = dedup(v);
            if !d.contains(&tuple) {
                d.push(tuple);
            }
            *v = d;
        }
        None => {
            // the library tags new sets iff the transaction's own sets carry tags; body field 0 tells
            let tagged = doc.as_array().and_then(|a| a[0].map_get(0)).map(|n| n.as_tag().is_some()).unwrap_or(true);
            // ... unless no set in the transaction carries a tag at all; determined by the library from
            // body and witness set together. The expectation only pins the choice when it is observable:
            *exp = Some((tagged_by_any_set(doc).unwrap_or(tagged), vec![tuple]));
        }
    }
}

/// the library's rule (has_transaction_set_tag): new witness lists are untagged only if the
/// transaction has sets and none of them carries tag 258
fn tagged_by_any_set(doc: &Node) -> Option<bool> {
    fn walk(n: &Node, any_tag: &mut bool, any_untagged_set: &mut bool, set_position: bool) {
        match &n.kind {
            Kind::Tag(258, inner) => {
                *any_tag = true;
                walk(inner, any_tag, any_untagged_set, false);
            }
            Kind::Array { items, .. } => {
                if set_position {
                    *any_untagged_set = true;
                }
                for x in items {
                    walk(x, any_tag, any_untagged_set, false);
                }
            }
            Kind::Map { entries, .. } => {
                for (_, v) in entries {
                    walk(v, any_tag, any_untagged_set, false);
                }
            }
            Kind::Tag(_, inner) => walk(inner, any_tag, any_untagged_set, false),
            _ => {}
        }
    }
    let items = doc.as_array()?;
    let mut any_tag = false;
    let mut any_untagged = false;
    // set-typed positions of the body and witness set
    if let Some(body) = items[0].as_map() {
        for (k, v) in body {
            let is_set = matches!(k.as_u64(), Some(0) | Some(4) | Some(13) | Some(14) | Some(18) | Some(20));
            walk(v, &mut any_tag, &mut any_untagged, is_set);
        }
    }
    if let Some(w) = items[1].as_map() {
        for (k, v) in w {
            let is_set = matches!(k.as_u64(), Some(0) | Some(1) | Some(2) | Some(3) | Some(4) | Some(6) | Some(7));
            walk(v, &mut any_tag, &mut any_untagged, is_set);
        }
    }
    if any_tag {
        Some(true)
    } else if any_untagged {
        Some(false)
    } else {
        Some(true)
    }
}

// ---------------------------------------------------------------------------------------------

/// Plutus-specific non-canonical forms on top of NonCanon
fn plutus_noncanon(n: &mut Node, t: &mut Tape, p: u32, feats: &mut Vec<&'static str>) {
    match &mut n.kind {
        Kind::Tag(tag, inner) => {
            if (121..=127).contains(tag) && t.chance(p) {
                // general form for a small alternative
                let alt = *tag - 121;
                let fields = (**inner).clone();
                *n = cbor::tag(102, cbor::array(vec![cbor::uint(alt), fields]));
                feats.push("general-form-for-small-alternative");
                if let Kind::Tag(_, i2) = &mut n.kind {
                    plutus_noncanon(i2, t, p, feats);
                }
                return;
            }
            plutus_noncanon(inner, t, p, feats);
        }
        Kind::UInt(v) => {
            if t.chance(p) {
                // a bignum that would fit a uint
                let bytes: Vec<u8> = v.to_be_bytes().iter().cloned().skip_while(|b| *b == 0).collect();
                *n = cbor::tag(2, cbor::bytes(&bytes));
                feats.push("tag2-for-small-int");
            }
        }
        Kind::Array { items, .. } => {
            for x in items.iter_mut() {
                plutus_noncanon(x, t, p, feats);
            }
        }
        Kind::Map { entries, .. } => {
            if t.chance(p) && !entries.is_empty() {
                let e = entries[0].clone();
                entries.push(e);
                feats.push("duplicate-map-key");
            }
            for (k, v) in entries.iter_mut() {
                plutus_noncanon(k, t, p, feats);
                plutus_noncanon(v, t, p, feats);
            }
        }
        _ => {}
    }
}

fn datum(ctx: &mut Ctx, tape: &[u8]) -> CaseResult {
    let (plan, content) = split_plan(tape, 16);
    let mut g = Gen::new(content, 4, 6);
    let d = plutus_data(&mut g);
    let canonical = d.to_bytes();
    let mut t = Tape::new(plan);
    let coins = expand(&plan[..plan.len().min(8)], 2048);
    let mut ct = Tape::new(&coins);
    let mut tree = match cbor::parse_document(&canonical) {
        Ok(n) => n,
        Err(e) => fail!("datum/canonical-malformed", "{} {}", e, hex::encode(&canonical)),
    };
    let mut feats: Vec<&'static str> = Vec::new();
    let p = [0u32, 20, 80][t.choose(3)];
    if p > 0 {
        plutus_noncanon(&mut tree, &mut ct, p, &mut feats);
    }
    let mut nc = NonCanon::from_tape(&mut t);
    nc.strip_set_tags = false;
    nc.apply(&mut tree, &mut ct);
    feats.extend(nc.features.iter());
    let b = cbor::encode(&tree);
    let dec = match lib("PlutusData::from_bytes", || PlutusData::from_bytes(b.clone()))? {
        Ok(x) => x,
        Err(_) => {
            ctx.label("rejected-by-PlutusData");
            for f in &feats {
                ctx.label(&format!("rejected-with:{}", f));
            }
            ctx.reject();
            return Ok(());
        }
    };
    let re = lib("PlutusData::to_bytes", || dec.to_bytes())?;
    ensure!(re == b, "datum/reencode-differs", "features {:?}: in {} out {}", feats, hex::encode(&b), hex::encode(&re));
    let h = lib("hash_plutus_data", || hash_plutus_data(&dec).to_bytes())?;
    ensure!(h == blake2b256(&b).to_vec(), "datum/hash-differs", "features {:?}: hash_plutus_data {} but blake2b256(input) {}", feats, hex::encode(&h), hex::encode(blake2b256(&b)));
    // through hex too
    let dh = lib("PlutusData::from_hex", || PlutusData::from_hex(&hex::encode(&b)))?;
    if let Ok(dh) = dh {
        ensure!(dh.to_bytes() == b, "datum/from_hex-reencode-differs", "{}", hex::encode(&b));
    }
    // embedded: inline datum of an output, witness-set datum, redeemer payload
    let raw = cbor::parse_document(&b).expect("own bytes");
    let addr = cbor::bytes(&EnterpriseAddress::new(1, &Credential::from_keyhash(&Ed25519KeyHash::from_bytes(vec![7; 28]).unwrap())).to_address().to_bytes());
    let containers: Vec<(&str, Vec<u8>)> = vec![
        ("output-inline-datum", cbor::encode(&cbor::map(vec![(cbor::uint(0), addr.clone()), (cbor::uint(1), cbor::uint(5)), (cbor::uint(2), cbor::array(vec![cbor::uint(1), cbor::tag(24, cbor::bytes(&b))]))]))),
        ("witness-set-datum", cbor::encode(&cbor::map(vec![(cbor::uint(4), cbor::tag(258, cbor::array(vec![raw.clone()])))]))),
        ("redeemer", cbor::encode(&cbor::array(vec![cbor::uint(0), cbor::uint(0), raw.clone(), cbor::array(vec![cbor::uint(1), cbor::uint(2)])]))),
    ];
    for (what, bytes) in containers {
        let (got, re): (Option<Vec<u8>>, Vec<u8>) = match what {
            "output-inline-datum" => match lib(what, || TransactionOutput::from_bytes(bytes.clone()))? {
                Ok(o) => (o.plutus_data().map(|d| d.to_bytes()), o.to_bytes()),
                Err(e) => fail!(format!("datum/container-rejects/{}", what), "{:?} for {}", e, hex::encode(&bytes)),
            },
            "witness-set-datum" => match lib(what, || TransactionWitnessSet::from_bytes(bytes.clone()))? {
                Ok(w) => (w.plutus_data().filter(|l| l.len() > 0).map(|l| l.get(0).to_bytes()), w.to_bytes()),
                Err(e) => fail!(format!("datum/container-rejects/{}", what), "{:?} for {}", e, hex::encode(&bytes)),
            },
            _ => match lib(what, || Redeemer::from_bytes(bytes.clone()))? {
                Ok(r) => (Some(r.data().to_bytes()), r.to_bytes()),
                Err(e) => fail!(format!("datum/container-rejects/{}", what), "{:?} for {}", e, hex::encode(&bytes)),
            },
        };
        ensure!(got.as_deref() == Some(&b[..]), format!("datum/embedded-bytes-differ/{}", what), "features {:?}: datum {} came back as {:?}", feats, hex::encode(&b), got.map(hex::encode));
        ensure!(re.windows(b.len()).any(|w| w == &b[..]), format!("datum/container-reencode-loses-bytes/{}", what), "features {:?}: {} re-encodes to {}", feats, hex::encode(&bytes), hex::encode(&re));
    }
    // two encodings of one value are two datums (two hashes): collected in one witness set, both keep bytes and hash
    if b != canonical {
        if let Ok(Ok(canon_dec)) = catch(|| PlutusData::from_bytes(canonical.clone())) {
            if canon_dec.to_bytes() == canonical {
                let first_is_canonical = t.bool();
                let (x, y, xb, yb) = if first_is_canonical { (&canon_dec, &dec, &canonical, &b) } else { (&dec, &canon_dec, &b, &canonical) };
                // (a) typed setter
                let mut l = PlutusList::new();
                l.add(x);
                l.add(y);
                let mut ws = TransactionWitnessSet::new();
                ws.set_plutus_data(&l);
                let wb = lib("TransactionWitnessSet::to_bytes", || ws.to_bytes())?;
                for (which, enc) in [("first", xb), ("second", yb)] {
                    ensure!(wb.windows(enc.len()).any(|w| w == &enc[..]), "datum/equal-valued-datum-lost-in-witness-set/setter", "features {:?}: the {} of two datums with equal value and different bytes ({} / {}) is missing from {}", feats, which, hex::encode(xb), hex::encode(yb), hex::encode(&wb));
                }
                // (b) decoded from bytes that hold both
                let both = cbor::encode(&cbor::map(vec![(cbor::uint(4), cbor::tag(258, cbor::array(vec![cbor::parse_document(xb).expect("own bytes"), cbor::parse_document(yb).expect("own bytes")])))]));
                if let Ok(w2) = lib("TransactionWitnessSet::from_bytes", || TransactionWitnessSet::from_bytes(both.clone()))? {
                    let wb2 = lib("TransactionWitnessSet::to_bytes", || w2.to_bytes())?;
                    for (which, enc) in [("first", xb), ("second", yb)] {
                        ensure!(wb2.windows(enc.len()).any(|w| w == &enc[..]), "datum/equal-valued-datum-lost-in-witness-set/decoded", "features {:?}: the {} of two datums with equal value and different bytes is missing after decoding {} -> {}", feats, which, hex::encode(&both), hex::encode(&wb2));
                    }
                }
                ctx.label("two-encodings-of-one-value-in-one-witness-set");
            }
        }
    }
    for f in &feats {
        ctx.label(&format!("feature:{}", f));
    }
    if b != canonical {
        ctx.label("accepted-non-canonical");
        ctx.nontrivial(fp64(&b));
        ctx.sample(&format!("datum:{}", feats.first().unwrap_or(&"?")), || format!("features {:?} bytes {} = {}", feats, hex::encode(&b[..b.len().min(120)]), raw.diag()));
    }
    Ok(())
}

fn fixed_block(ctx: &mut Ctx, tape: &[u8]) -> CaseResult {
    let (plan, content) = split_plan(tape, 16);
    let mut g = Gen::new(content, 2, 3);
    g.cddl_ranges = true;
    let blk = block(&mut g);
    let canonical = blk.to_bytes();
    let mut t = Tape::new(plan);
    let coins = expand(&plan[..plan.len().min(8)], 4096);
    let mut ct = Tape::new(&coins);
    let mut tree = match cbor::parse_document(&canonical) {
        Ok(n) => n,
        Err(e) => fail!("fixed_block/canonical-malformed", "{}", e),
    };
    let mut nc = NonCanon::from_tape(&mut t);
    nc.chunk = 0;
    nc.apply(&mut tree, &mut ct);
    let input = cbor::encode(&tree);
    let doc = cbor::parse_document(&input).expect("own bytes");
    let fb = match lib("FixedBlock::from_bytes", || FixedBlock::from_bytes(input.clone()))? {
        Ok(b) => b,
        Err(_) => {
            ctx.label("rejected-by-FixedBlock");
            ctx.reject();
            return Ok(());
        }
    };
    let items = match doc.as_array() {
        Some(i) if i.len() >= 2 => i,
        _ => {
            ctx.reject();
            return Ok(());
        }
    };
    // (the block hash is not part of the property's statement; it was dropped from this check, see DESIGN.md §7.1)
    let _ = lib("block_hash", || fb.block_hash().to_bytes())?;
    let bodies = match items[1].as_array() {
        Some(b) => b,
        None => {
            ctx.reject();
            return Ok(());
        }
    };
    let fbodies = fb.transaction_bodies();
    ensure!(fbodies.len() == bodies.len(), "fixed_block/body-count", "{} vs {}", fbodies.len(), bodies.len());
    for (i, b) in bodies.iter().enumerate() {
        let slice = &input[b.start..b.end];
        let fbdy = fbodies.get(i);
        ensure!(fbdy.original_bytes() == slice, "fixed_block/original-bytes-differ", "body {}: {} vs {}", i, hex::encode(fbdy.original_bytes()), hex::encode(slice));
        ensure!(fbdy.tx_hash().to_bytes() == blake2b256(slice).to_vec(), "fixed_block/tx-hash-not-blake2b-of-original-bytes", "body {}", i);
    }
    for f in &nc.features {
        ctx.label(&format!("feature:{}", f));
    }
    if input != canonical && !bodies.is_empty() {
        ctx.nontrivial(fp64(&input));
        ctx.sample("fixed_block", || format!("features {:?}, {} bodies, {} bytes", nc.features, bodies.len(), input.len()));
    }
    Ok(())
}
