//! C17 — JSON forms round-trip and schema conversions behave as documented.
//!
//! Sub-checks
//!  * typed_asc / typed_any / typed_floor — `T::from_json(T::to_json(v))` for every registered type with a JSON form
//!  * md_json   — JSON in a metadata schema's normal form -> metadatum -> JSON is the identity (3 schemas)
//!  * md_tree   — metadatum -> JSON -> metadatum is the identity under NoConversions / DetailedSchema when decode succeeded
//!  * datum_detailed — every Plutus datum survives DetailedSchema JSON
//!  * datum_basic    — BasicConversions JSON in normal form -> datum -> JSON is the identity
//!  * bytes_chunks   — the 64-byte chunk helpers
//!  * reject    — documents just outside a schema give Err, never Ok of a different value
use crate::cbor;
use crate::gen::registry::{entries, Entry, Val};
use crate::gen::*;
use crate::runner::*;
use crate::tape::*;
use cardano_serialization_lib as csl;
use csl::*;
use serde_json::Value as J;
use std::fmt::Write as _;

pub fn property() -> Property {
    Property {
        id: "C17",
        rule: "typed values: C01's tape generators for every registered type that has to_json/from_json, class A with map-typed parts filled in ascending key order, class B in arbitrary order, non-trivial as in C01 (optional field present / non-empty collection / integer outside 0..23), distinct by hash of (type, class, emitted bytes). Trees and documents (metadata, datums, JSON in each schema's grammar and just outside it): non-trivial = tree depth >= 2, or a non-string key, or an integer outside i64, or a string/byte string of boundary length (63/64 bytes; 65 for datums); distinct by hash of the document text / emitted bytes. Byte chunks: non-trivial = more than one chunk or a length within 1 of a multiple of 64",
        assumptions: vec![
            "\"ascending key order\" of an insertion-ordered map is the order of the library's own Ord on the key type (the order from_json rebuilds the map in): numeric for metadata labels and transaction indices, byte-wise for genesis hashes, RewardAddress::cmp for withdrawals".into(),
            "class B (arbitrary order): content equality up to map order = equal to_json documents (objects unordered) and equal CBOR after sorting the entries of every map".into(),
            "a schema's normal form is the set of documents the schema's documentation maps onto themselves: canonical decimal integers in -2^63..2^64-1 (metadata) / unbounded (datums), strings <= 64 bytes (metadata), lower-case hex, distinct keys; BasicConversions (metadata): a string is bytes iff it is 0x + even-length hex, a key is an integer iff it is a canonical decimal in the CBOR int range; BasicConversions (datums): 0x-strings denote bytes that are not printable UTF-8, other strings contain no control characters, integer-looking keys are canonical. Documents are compared as JSON values (object member order and white space are not content)".into(),
            "metadatum -> JSON errors (bytes / non-text keys under NoConversions, integers below -2^63) are outside the claim \"whenever the first conversion succeeds\" and only counted".into(),
            "out-of-schema classes with a documented rejection (null, bool, non-integral number, string or bytes over 64 bytes, odd-length / non-hex / 0x-prefixed hex, wrong or missing tag, malformed map entry, integer that has no metadata / constructor representation) must give Err; in-schema spellings outside the normal form (-0, upper-case hex, non-canonical integer keys) may be accepted but must re-decode to the same document after that normalisation".into(),
            "nesting depth <= 3 (quick) / 5 (thorough) for trees, C01's budgets for typed values".into(),
        ],
        subchecks: vec![
            SubCheck { name: "typed_asc", kind: Kind::Tape { quick: 600_000, thorough: 15_000_000, max_len: 600 }, run: typed_asc },
            SubCheck { name: "typed_any", kind: Kind::Tape { quick: 400_000, thorough: 10_000_000, max_len: 600 }, run: typed_any },
            SubCheck { name: "typed_floor", kind: Kind::Enum { count: floor_count, make: floor_make, exhaustive_note: "" }, run: typed_floor },
            SubCheck { name: "typed_decoded", kind: Kind::Enum { count: decoded_count, make: decoded_make, exhaustive_note: "a fixed table of witness sets / auxiliary data / transactions decoded from bytes with tagged definite and indefinite datum lists and the three auxiliary-data formats" }, run: typed_decoded },
            SubCheck { name: "md_json", kind: Kind::Tape { quick: 1_000_000, thorough: 25_000_000, max_len: 300 }, run: md_json },
            SubCheck { name: "md_tree", kind: Kind::Tape { quick: 750_000, thorough: 18_000_000, max_len: 300 }, run: md_tree },
            SubCheck { name: "datum_detailed", kind: Kind::Tape { quick: 750_000, thorough: 18_000_000, max_len: 400 }, run: datum_detailed },
            SubCheck { name: "datum_basic", kind: Kind::Tape { quick: 750_000, thorough: 18_000_000, max_len: 400 }, run: datum_basic },
            SubCheck { name: "bytes_chunks", kind: Kind::Tape { quick: 100_000, thorough: 2_000_000, max_len: 400 }, run: bytes_chunks },
            SubCheck { name: "reject", kind: Kind::Tape { quick: 1_000_000, thorough: 25_000_000, max_len: 200 }, run: reject },
        ],
        crash_prone: false,
        max_reject_fraction: 0.05,
        required_label_fraction: vec![
            ("md_tree", "md_tree:NoConversions:ok", 0.15),
            ("md_tree", "md_tree:DetailedSchema:ok", 0.5),
            ("reject", "reject:outcome:err", 0.5),
        ],
    }
}

// ---------------------------------------------------------------------------------------------
// JSON documents: own model, writer and comparison

#[derive(Clone, Debug, PartialEq, Eq, PartialOrd, Ord)]
enum Doc {
    Null,
    Bool(bool),
    /// raw number text
    Num(String),
    Str(String),
    Arr(Vec<Doc>),
    Obj(Vec<(String, Doc)>),
}

fn num(v: impl ToString) -> Doc {
    Doc::Num(v.to_string())
}
fn st(s: &str) -> Doc {
    Doc::Str(s.to_string())
}
fn obj1(k: &str, v: Doc) -> Doc {
    Doc::Obj(vec![(k.to_string(), v)])
}
fn kv(k: Doc, v: Doc) -> Doc {
    Doc::Obj(vec![("k".to_string(), k), ("v".to_string(), v)])
}

fn esc(s: &str, ascii_only: bool, out: &mut String) {
    out.push('"');
    for c in s.chars() {
        match c {
            '"' => out.push_str("\\\""),
            '\\' => out.push_str("\\\\"),
            '\n' => out.push_str("\\n"),
            '\t' => out.push_str("\\t"),
            c if (c as u32) < 0x20 => {
                let _ = write!(out, "\\u{:04x}", c as u32);
            }
            c if ascii_only && !c.is_ascii() => {
                let mut b = [0u16; 2];
                for u in c.encode_utf16(&mut b) {
                    let _ = write!(out, "\\u{:04X}", u);
                }
            }
            c => out.push(c),
        }
    }
    out.push('"');
}

/// style 0: compact; 1: spaces; 2: spaces, line breaks and \u escapes for everything outside ASCII
fn render_into(d: &Doc, style: usize, out: &mut String) {
    let (sep, colon) = match style {
        0 => (",", ":"),
        1 => (", ", ": "),
        _ => (" ,\n ", " : "),
    };
    match d {
        Doc::Null => out.push_str("null"),
        Doc::Bool(b) => out.push_str(if *b { "true" } else { "false" }),
        Doc::Num(n) => out.push_str(n),
        Doc::Str(s) => esc(s, style == 2, out),
        Doc::Arr(a) => {
            out.push('[');
            for (i, x) in a.iter().enumerate() {
                if i > 0 {
                    out.push_str(sep);
                }
                render_into(x, style, out);
            }
            out.push(']');
        }
        Doc::Obj(o) => {
            out.push('{');
            for (i, (k, x)) in o.iter().enumerate() {
                if i > 0 {
                    out.push_str(sep);
                }
                esc(k, style == 2, out);
                out.push_str(colon);
                render_into(x, style, out);
            }
            out.push('}');
        }
    }
}
fn render(d: &Doc, style: usize) -> String {
    let mut s = String::new();
    render_into(d, style, &mut s);
    s
}

fn doc_of_j(j: &J) -> Doc {
    match j {
        J::Null => Doc::Null,
        J::Bool(b) => Doc::Bool(*b),
        J::Number(n) => Doc::Num(n.to_string()),
        J::String(s) => Doc::Str(s.clone()),
        J::Array(a) => Doc::Arr(a.iter().map(doc_of_j).collect()),
        J::Object(o) => Doc::Obj(o.iter().map(|(k, v)| (k.clone(), doc_of_j(v))).collect()),
    }
}

/// `^-?[0-9]+$`
fn plain_int(s: &str) -> Option<num_bigint::BigInt> {
    let digits = s.strip_prefix('-').unwrap_or(s);
    if digits.is_empty() || !digits.bytes().all(|b| b.is_ascii_digit()) {
        return None;
    }
    s.parse::<num_bigint::BigInt>().ok()
}

/// `^[+-]?[0-9][0-9_]*$` — anything a lenient integer parser might take
fn int_like(s: &str) -> Option<num_bigint::BigInt> {
    let digits = s.strip_prefix('-').or_else(|| s.strip_prefix('+')).unwrap_or(s);
    if digits.is_empty() || !digits.as_bytes()[0].is_ascii_digit() || !digits.bytes().all(|b| b.is_ascii_digit() || b == b'_') {
        return None;
    }
    let clean: String = digits.chars().filter(|c| *c != '_').collect();
    let v = clean.parse::<num_bigint::BigInt>().ok()?;
    Some(if s.starts_with('-') { -v } else { v })
}
fn is_canonical_int(s: &str) -> bool {
    plain_int(s).map(|v| v.to_string() == s).unwrap_or(false)
}
fn cbor_int_range(v: &num_bigint::BigInt) -> bool {
    let lo = -(num_bigint::BigInt::from(1u8) << 64usize);
    let hi = num_bigint::BigInt::from(u64::MAX);
    *v >= lo && *v <= hi
}
fn hex0x(s: &str) -> Option<Vec<u8>> {
    s.strip_prefix("0x").and_then(|h| hex::decode(h).ok())
}

#[derive(Clone, Copy, PartialEq, Eq, Debug)]
enum Target {
    MdNo,
    MdBasic,
    MdDetailed,
    PlBasic,
    PlDetailed,
}
impl Target {
    fn name(self) -> &'static str {
        match self {
            Target::MdNo => "metadata-NoConversions",
            Target::MdBasic => "metadata-BasicConversions",
            Target::MdDetailed => "metadata-DetailedSchema",
            Target::PlBasic => "datum-BasicConversions",
            Target::PlDetailed => "datum-DetailedSchema",
        }
    }
    fn basic(self) -> bool {
        matches!(self, Target::MdBasic | Target::PlBasic)
    }
    fn detailed(self) -> bool {
        matches!(self, Target::MdDetailed | Target::PlDetailed)
    }
}

/// order-insensitive, normalised form of a document under a schema:
/// objects sorted; integers canonical (-0 -> 0); under Basic schemas valid 0x-hex lower-cased and integer keys
/// canonical; under Detailed schemas the string under a "bytes" tag lower-cased
fn norm(d: &Doc, t: Target) -> Doc {
    fn norm_str(s: &str, t: Target) -> String {
        if t.basic() && hex0x(s).is_some() {
            s.to_ascii_lowercase()
        } else {
            s.to_string()
        }
    }
    fn norm_key(s: &str, t: Target) -> String {
        match t {
            Target::MdBasic => {
                // Rust's integer syntax: optional sign, digits
                let body = s.strip_prefix('+').unwrap_or(s);
                match plain_int(body) {
                    Some(v) if cbor_int_range(&v) && !(s.starts_with('+') && body.starts_with('-')) => v.to_string(),
                    _ => norm_str(s, t),
                }
            }
            Target::PlBasic => {
                if s.starts_with("0x") {
                    norm_str(s, t)
                } else {
                    match int_like(s) {
                        Some(v) => v.to_string(),
                        None => s.to_string(),
                    }
                }
            }
            _ => s.to_string(),
        }
    }
    match d {
        Doc::Num(n) => match plain_int(n) {
            Some(v) => Doc::Num(v.to_string()),
            None => Doc::Num(n.clone()),
        },
        Doc::Str(s) => Doc::Str(norm_str(s, t)),
        Doc::Arr(a) => Doc::Arr(a.iter().map(|x| norm(x, t)).collect()),
        Doc::Obj(o) => {
            let mut v: Vec<(String, Doc)> = o
                .iter()
                .map(|(k, x)| {
                    let nx = match (x, t.detailed() && k == "bytes" && o.len() == 1) {
                        (Doc::Str(s), true) => Doc::Str(s.to_ascii_lowercase()),
                        _ => norm(x, t),
                    };
                    (norm_key(k, t), nx)
                })
                .collect();
            v.sort();
            Doc::Obj(v)
        }
        other => other.clone(),
    }
}

fn parse_doc(text: &str) -> Option<Doc> {
    serde_json::from_str::<J>(text).ok().map(|j| doc_of_j(&j))
}

fn clip(s: &str) -> String {
    let mut out: String = s.chars().take(600).collect();
    if out.len() < s.len() {
        out.push('…');
    }
    out
}

// ---------------------------------------------------------------------------------------------
// tree features (non-triviality rule)

#[derive(Default, Clone, Debug)]
struct Feat {
    depth: u32,
    nonstring_key: bool,
    big_int: bool,
    boundary: bool,
    /// BasicConversions metadata: an integer key in -2^64 .. -2^63-1
    key_below_i64: bool,
}
impl Feat {
    fn nontrivial(&self) -> bool {
        self.depth >= 2 || self.nonstring_key || self.big_int || self.boundary
    }
    fn label(&self, ctx: &mut Ctx, p: &str) {
        if self.depth >= 2 {
            ctx.label(&format!("{}:feat:depth>=2", p));
        }
        if self.nonstring_key {
            ctx.label(&format!("{}:feat:non-string-key", p));
        }
        if self.big_int {
            ctx.label(&format!("{}:feat:int-outside-i64", p));
        }
        if self.boundary {
            ctx.label(&format!("{}:feat:boundary-length-string", p));
        }
        if !self.nontrivial() {
            ctx.label(&format!("{}:feat:none(trivial)", p));
        }
    }
    fn see_level(&mut self, level: u32) {
        self.depth = self.depth.max(level);
    }
    fn see_int(&mut self, v: &num_bigint::BigInt) {
        if *v > num_bigint::BigInt::from(i64::MAX) || *v < num_bigint::BigInt::from(i64::MIN) {
            self.big_int = true;
        }
    }
}

fn tree_budget(tier: Tier) -> u32 {
    tier.pick(3, 5)
}

// ---------------------------------------------------------------------------------------------
// (a) typed values

thread_local! {
    static JENTRIES: Vec<Entry> = entries().into_iter().filter(|e| e.has_json).collect();
}

fn script_non_v1(s: &PlutusScript) -> bool {
    s.language_version() != Language::new_plutus_v1()
}
fn scripts_non_v1(s: &PlutusScripts) -> bool {
    (0..s.len()).any(|i| script_non_v1(&s.get(i)))
}
fn script_ref_non_v1(r: &ScriptRef) -> bool {
    r.plutus_script().map(|s| script_non_v1(&s)).unwrap_or(false)
}
fn output_non_v1(o: &TransactionOutput) -> bool {
    o.script_ref().map(|r| script_ref_non_v1(&r)).unwrap_or(false)
}
fn outputs_non_v1(o: &TransactionOutputs) -> bool {
    (0..o.len()).any(|i| output_non_v1(&o.get(i)))
}
fn body_non_v1(b: &TransactionBody) -> bool {
    outputs_non_v1(&b.outputs()) || b.collateral_return().map(|o| output_non_v1(&o)).unwrap_or(false)
}
fn wits_non_v1(w: &TransactionWitnessSet) -> bool {
    w.plutus_scripts().map(|s| scripts_non_v1(&s)).unwrap_or(false)
}
fn aux_non_v1(a: &AuxiliaryData) -> bool {
    a.plutus_scripts().map(|s| scripts_non_v1(&s)).unwrap_or(false)
}
fn tx_non_v1(t: &Transaction) -> bool {
    body_non_v1(&t.body()) || wits_non_v1(&t.witness_set()) || t.auxiliary_data().map(|a| aux_non_v1(&a)).unwrap_or(false)
}
fn block_non_v1(b: &Block) -> bool {
    let bodies = b.transaction_bodies();
    let wits = b.transaction_witness_sets();
    let aux = b.auxiliary_data_set();
    (0..bodies.len()).any(|i| body_non_v1(&bodies.get(i)))
        || (0..wits.len()).any(|i| wits_non_v1(&wits.get(i)))
        || aux.indices().iter().any(|i| aux.get(*i).map(|a| aux_non_v1(&a)).unwrap_or(false))
}

/// does the value hold a Plutus script whose language is not V1 (the JSON form cannot express it)
fn holds_non_v1_script(v: &dyn Val) -> bool {
    let a = v.as_any();
    if let Some(x) = a.downcast_ref::<PlutusScripts>() {
        return scripts_non_v1(x);
    }
    if let Some(x) = a.downcast_ref::<ScriptRef>() {
        return script_ref_non_v1(x);
    }
    if let Some(x) = a.downcast_ref::<TransactionOutput>() {
        return output_non_v1(x);
    }
    if let Some(x) = a.downcast_ref::<TransactionOutputs>() {
        return outputs_non_v1(x);
    }
    if let Some(x) = a.downcast_ref::<TransactionUnspentOutput>() {
        return output_non_v1(&x.output());
    }
    if let Some(x) = a.downcast_ref::<TransactionBody>() {
        return body_non_v1(x);
    }
    if let Some(x) = a.downcast_ref::<TransactionBodies>() {
        return (0..x.len()).any(|i| body_non_v1(&x.get(i)));
    }
    if let Some(x) = a.downcast_ref::<TransactionWitnessSet>() {
        return wits_non_v1(x);
    }
    if let Some(x) = a.downcast_ref::<TransactionWitnessSets>() {
        return (0..x.len()).any(|i| wits_non_v1(&x.get(i)));
    }
    if let Some(x) = a.downcast_ref::<AuxiliaryData>() {
        return aux_non_v1(x);
    }
    if let Some(x) = a.downcast_ref::<Transaction>() {
        return tx_non_v1(x);
    }
    if let Some(x) = a.downcast_ref::<Block>() {
        return block_non_v1(x);
    }
    if let Some(x) = a.downcast_ref::<VersionedBlock>() {
        return block_non_v1(&x.block());
    }
    false
}

/// structural rendering of a CBOR tree in which the entries of every map are sorted (content up to map order;
/// definite / indefinite framing is kept, integer head widths are not)
fn cbor_unordered(n: &cbor::Node, out: &mut Vec<u8>) {
    use cbor::Kind as K;
    match &n.kind {
        K::UInt(v) => {
            out.push(b'u');
            out.extend_from_slice(&v.to_be_bytes());
        }
        K::NInt(v) => {
            out.push(b'n');
            out.extend_from_slice(&v.to_be_bytes());
        }
        K::Bytes { data, chunks } => {
            out.push(if chunks.is_some() { b'B' } else { b'b' });
            out.extend_from_slice(&(data.len() as u64).to_be_bytes());
            out.extend_from_slice(data);
        }
        K::Text { data, chunks } => {
            out.push(if chunks.is_some() { b'T' } else { b't' });
            out.extend_from_slice(&(data.len() as u64).to_be_bytes());
            out.extend_from_slice(data);
        }
        K::Array { items, indef } => {
            out.push(if *indef { b'A' } else { b'a' });
            out.extend_from_slice(&(items.len() as u64).to_be_bytes());
            for i in items {
                cbor_unordered(i, out);
            }
        }
        K::Map { entries, indef } => {
            let mut es: Vec<(Vec<u8>, Vec<u8>)> = entries
                .iter()
                .map(|(k, v)| {
                    let (mut a, mut b) = (Vec::new(), Vec::new());
                    cbor_unordered(k, &mut a);
                    cbor_unordered(v, &mut b);
                    (a, b)
                })
                .collect();
            es.sort();
            out.push(if *indef { b'M' } else { b'm' });
            out.extend_from_slice(&(es.len() as u64).to_be_bytes());
            for (a, b) in es {
                out.extend_from_slice(&a);
                out.extend_from_slice(&b);
            }
        }
        K::Tag(t, inner) => {
            out.push(b'g');
            out.extend_from_slice(&t.to_be_bytes());
            cbor_unordered(inner, out);
        }
        K::Simple(v) => {
            out.push(b's');
            out.push(*v);
        }
        K::Float(bits, w) => {
            out.push(b'f');
            out.push(*w);
            out.extend_from_slice(&bits.to_be_bytes());
        }
    }
}
fn unordered_form(bytes: &[u8]) -> Option<Vec<u8>> {
    let n = cbor::parse_document(bytes).ok()?;
    let mut out = Vec::new();
    cbor_unordered(&n, &mut out);
    Some(out)
}

fn first_diff(a: &str, b: &str) -> String {
    let pos = a.bytes().zip(b.bytes()).position(|(x, y)| x != y).unwrap_or(a.len().min(b.len()));
    let from = pos.saturating_sub(60);
    let cut = |s: &str| String::from_utf8_lossy(&s.as_bytes()[from.min(s.len())..(from + 200).min(s.len())]).to_string();
    format!("…{} <> …{}", cut(a), cut(b))
}

fn byte_diff(a: &[u8], b: &[u8]) -> String {
    let pos = a.iter().zip(b.iter()).position(|(x, y)| x != y).unwrap_or(a.len().min(b.len()));
    let cut = |s: &[u8]| hex::encode(&s[pos.min(s.len())..(pos + 40).min(s.len())]);
    format!("first difference at byte {}: {}… <> {}…", pos, cut(a), cut(b))
}

/// can the value hold transaction metadata
fn holds_metadata(v: &dyn Val) -> bool {
    let a = v.as_any();
    a.is::<GeneralTransactionMetadata>() || a.is::<AuxiliaryData>() || a.is::<Transaction>() || a.is::<Block>() || a.is::<VersionedBlock>()
}

// precondition of the ascending class: every insertion-ordered map reachable through the public getters is in
// ascending order of the library's Ord on its key type
fn sorted_by<T>(n: usize, get: impl Fn(usize) -> T, le: impl Fn(&T, &T) -> bool) -> bool {
    (1..n).all(|i| le(&get(i - 1), &get(i)))
}
fn withdrawals_asc(w: &Withdrawals) -> bool {
    let k = w.keys();
    sorted_by(k.len(), |i| k.get(i), |a, b| a <= b)
}
fn metadata_asc(m: &GeneralTransactionMetadata) -> bool {
    let k = m.keys();
    sorted_by(k.len(), |i| k.get(i), |a, b| a <= b)
}
fn updates_asc(u: &ProposedProtocolParameterUpdates) -> bool {
    let k = u.keys();
    sorted_by(k.len(), |i| k.get(i), |a, b| a <= b)
}
fn aux_asc(a: &AuxiliaryData) -> bool {
    a.metadata().map(|m| metadata_asc(&m)).unwrap_or(true)
}
fn body_asc(b: &TransactionBody) -> bool {
    b.withdrawals().map(|w| withdrawals_asc(&w)).unwrap_or(true) && b.update().map(|u| updates_asc(&u.proposed_protocol_parameter_updates())).unwrap_or(true)
}
fn block_asc(b: &Block) -> bool {
    let bodies = b.transaction_bodies();
    let aux = b.auxiliary_data_set();
    let idx = aux.indices();
    (0..bodies.len()).all(|i| body_asc(&bodies.get(i))) && idx.windows(2).all(|w| w[0] <= w[1]) && idx.iter().all(|i| aux.get(*i).map(|a| aux_asc(&a)).unwrap_or(true))
}
fn insertion_maps_ascending(v: &dyn Val) -> bool {
    let a = v.as_any();
    if let Some(x) = a.downcast_ref::<Withdrawals>() {
        return withdrawals_asc(x);
    }
    if let Some(x) = a.downcast_ref::<GeneralTransactionMetadata>() {
        return metadata_asc(x);
    }
    if let Some(x) = a.downcast_ref::<ProposedProtocolParameterUpdates>() {
        return updates_asc(x);
    }
    if let Some(x) = a.downcast_ref::<Update>() {
        return updates_asc(&x.proposed_protocol_parameter_updates());
    }
    if let Some(x) = a.downcast_ref::<AuxiliaryData>() {
        return aux_asc(x);
    }
    if let Some(x) = a.downcast_ref::<TransactionBody>() {
        return body_asc(x);
    }
    if let Some(x) = a.downcast_ref::<TransactionBodies>() {
        return (0..x.len()).all(|i| body_asc(&x.get(i)));
    }
    if let Some(x) = a.downcast_ref::<Transaction>() {
        return body_asc(&x.body()) && x.auxiliary_data().map(|a| aux_asc(&a)).unwrap_or(true);
    }
    if let Some(x) = a.downcast_ref::<Block>() {
        return block_asc(x);
    }
    if let Some(x) = a.downcast_ref::<VersionedBlock>() {
        return block_asc(&x.block());
    }
    true
}

fn compact(s: &str) -> String {
    // removes the pretty-printer's layout (strings in the typed JSON forms never contain significant blanks runs)
    match serde_json::from_str::<J>(s) {
        Ok(j) => j.to_string(),
        Err(_) => s.to_string(),
    }
}

fn typed_check(ctx: &mut Ctx, e: &Entry, v: &dyn Val, ascending: bool, interesting: bool, how: &str) -> CaseResult {
    let name = e.name;
    // the generator's notion of "ascending" is checked against the library's own key order: a value that does
    // not meet the precondition of the strict clause is judged by the order-insensitive clause
    let ascending = if ascending && !insertion_maps_ascending(v) {
        ctx.label("typed:asc:demoted(a map is not in the library's key order)");
        false
    } else {
        ascending
    };
    let class = if ascending { "asc" } else { "any" };
    let b = match catch(|| v.to_bytes()) {
        Ok(b) => b,
        Err(p) => fail!(format!("typed/to_bytes-panic/{}|{}", name, p.cause()), "{}::to_bytes panicked: {}", name, p.msg),
    };
    let j = match catch(|| v.to_json()) {
        Ok(Some(Ok(j))) => j,
        Ok(Some(Err(er))) => {
            if er.contains("to_bech32") && er.contains("Unknown network") {
                ctx.label(&format!("typed:{}:byron-unknown-network", class));
                fail!("typed/byron-unknown-network-no-json", "{}::to_json fails for a value holding a Byron address with an unknown protocol magic: {} bytes={}", name, er, hex::encode(&b[..b.len().min(300)]))
            }
            if er.contains("out of range integral type conversion") && holds_metadata(v) {
                // TransactionMetadatum's JSON form is its DetailedSchema document, which has no spelling for -2^64 .. -2^63-1
                ctx.label(&format!("typed:{}:metadata-int-below-i64", class));
                fail!("typed/metadata-int-below-i64-no-json", "{}::to_json fails for a value holding a metadatum integer below -2^63: {} bytes={}", name, er, hex::encode(&b[..b.len().min(300)]))
            }
            fail!(format!("typed/to_json-fails/{}", name), "{}::to_json of a value built through the public API fails: {} bytes={}", name, er, hex::encode(&b[..b.len().min(300)]))
        }
        Ok(None) => return Ok(()),
        Err(p) => fail!(format!("typed/to_json-panic/{}|{}", name, p.cause()), "{}::to_json panicked: {} bytes={}", name, p.msg, hex::encode(&b[..b.len().min(300)])),
    };
    let v2 = match catch(|| (e.from_json)(&j)) {
        Ok(Some(Ok(v2))) => v2,
        Ok(Some(Err(er))) => fail!(format!("typed/from_json-rejects-own-json/{}", name), "{}::from_json rejects the library's own JSON: {} json={}", name, er, clip(&compact(&j))),
        Ok(None) => return Ok(()),
        Err(p) => fail!(format!("typed/from_json-panic/{}|{}", name, p.cause()), "{}::from_json panicked on own JSON: {} json={}", name, p.msg, clip(&compact(&j))),
    };
    let b2 = match catch(|| v2.to_bytes()) {
        Ok(b) => b,
        Err(p) => fail!(format!("typed/reencode-panic/{}|{}", name, p.cause()), "{}: to_bytes of the value rebuilt from JSON panicked: {}", name, p.msg),
    };
    let j2 = match catch(|| v2.to_json()) {
        Ok(Some(Ok(j2))) => j2,
        Ok(Some(Err(er))) => fail!(format!("typed/second-to_json-fails/{}", name), "{}: {}", name, er),
        _ => fail!(format!("typed/second-to_json-panic/{}", name), "{}", name),
    };
    let jv: Option<J> = serde_json::from_str(&j).ok();
    let jv2: Option<J> = serde_json::from_str(&j2).ok();
    ensure!(jv.is_some() && jv2.is_some(), format!("typed/to_json-not-json/{}", name), "{}: to_json output does not parse as JSON: {}", name, clip(&j));
    let json_equal = jv == jv2;
    // the one known format limitation: the JSON form of a Plutus script is the hex of its bytes only
    let language_lost = |v2: &dyn Val| json_equal && holds_non_v1_script(v) && !holds_non_v1_script(v2);
    if ascending {
        let same = v2.same(v);
        if !same || b2 != b {
            if language_lost(v2.as_ref()) {
                ctx.label("typed:asc:plutus-script-language-lost");
                fail!("typed/plutus-script-language-lost", "{}: the value holds a V2/V3 Plutus script; after from_json(to_json(v)) every script is V1 (equal={} same-bytes={}); bytes before={} after={}", name, same, b2 == b, hex::encode(&b[..b.len().min(200)]), hex::encode(&b2[..b2.len().min(200)]))
            }
            if e.is_cbor() && unordered_form(&b).is_some() && unordered_form(&b) == unordered_form(&b2) {
                fail!(format!("typed/asc-map-order-changed/{}", name), "{}: from_json(to_json(v)) has the same entries but a map comes back in another order although it was filled in ascending key order (equal={}): {} ; bytes before={} after={}", name, same, byte_diff(&b, &b2), hex::encode(&b[..b.len().min(300)]), hex::encode(&b2[..b2.len().min(300)]))
            }
            if !same {
                fail!(format!("typed/asc-not-equal/{}", name), "{}: from_json(to_json(v)) != v; json diff: {} ; bytes before={} after={}", name, first_diff(&compact(&j), &compact(&j2)), hex::encode(&b[..b.len().min(300)]), hex::encode(&b2[..b2.len().min(300)]))
            }
            fail!(format!("typed/asc-bytes-differ/{}", name), "{}: from_json(to_json(v)) == v but serializes differently: before={} after={} json={}", name, hex::encode(&b[..b.len().min(300)]), hex::encode(&b2[..b2.len().min(300)]), clip(&compact(&j)))
        }
    } else {
        ensure!(json_equal, format!("typed/any-content-differs/{}", name), "{}: to_json(from_json(to_json(v))) differs from to_json(v): {}", name, first_diff(&compact(&j), &compact(&j2)));
        let unordered_equal = if e.is_cbor() {
            match (unordered_form(&b), unordered_form(&b2)) {
                (Some(x), Some(y)) => x == y,
                _ => fail!(format!("typed/malformed-cbor/{}", name), "{}: to_bytes is not one well-formed CBOR item: {} / {}", name, hex::encode(&b[..b.len().min(200)]), hex::encode(&b2[..b2.len().min(200)])),
            }
        } else {
            b == b2
        };
        if !unordered_equal {
            if language_lost(v2.as_ref()) {
                ctx.label("typed:any:plutus-script-language-lost");
                fail!("typed/plutus-script-language-lost", "{}: the value holds a V2/V3 Plutus script; after from_json(to_json(v)) every script is V1; bytes before={} after={}", name, hex::encode(&b[..b.len().min(200)]), hex::encode(&b2[..b2.len().min(200)]))
            }
            fail!(format!("typed/any-cbor-content-differs/{}", name), "{}: equal JSON but the CBOR of the rebuilt value differs beyond map order: before={} after={}", name, hex::encode(&b[..b.len().min(300)]), hex::encode(&b2[..b2.len().min(300)]))
        }
        if b2 != b {
            ctx.label("typed:any:map-order-changed(allowed)");
        }
    }
    ctx.label(&format!("typed:{}:{}", class, name));
    if holds_non_v1_script(v) {
        // reachable only if the language survived
        ctx.label(&format!("typed:{}:non-v1-script-survived", class));
    }
    if interesting {
        ctx.nontrivial(fp_mix(fp_mix(fp64(name.as_bytes()), ascending as u64), fp64(&b)));
        let cls = format!("typed:{}:{}", class, name);
        if ctx.wants_sample(&cls) {
            ctx.sample(&cls, || format!("{} [{} {}] {} bytes; json: {}", name, class, how, b.len(), clip(&compact(&j))));
        }
    }
    Ok(())
}

fn typed_budget(tier: Tier) -> (u32, usize) {
    tier.pick((4, 25), (8, 40))
}

fn typed_case(ctx: &mut Ctx, tape: &[u8], k: Option<usize>, ascending: bool, how: &str) -> CaseResult {
    JENTRIES.with(|es| {
        let (d, c) = typed_budget(ctx.tier);
        let mut g = Gen::new(tape, d, c);
        g.ascending = ascending;
        let k = match k {
            Some(k) => k % es.len(),
            None => g.t.choose(es.len()),
        };
        let e = &es[k];
        let v = match catch(|| (e.make)(&mut g)) {
            Ok(v) => v,
            Err(p) => {
                if p.in_engine() {
                    panic!("generator for {} panicked: {} at {}:{}", e.name, p.msg, p.file, p.line);
                }
                fail!(format!("typed/constructor-panic/{}|{}", e.name, p.cause()), "building a {} through the public API panicked: {}", e.name, p.msg)
            }
        };
        typed_check(ctx, e, v.as_ref(), ascending, g.interesting, how)
    })
}

fn typed_asc(ctx: &mut Ctx, tape: &[u8]) -> CaseResult {
    typed_case(ctx, tape, None, true, "tape")
}
fn typed_any(ctx: &mut Ctx, tape: &[u8]) -> CaseResult {
    typed_case(ctx, tape, None, false, "tape")
}

// every type with a JSON form gets a guaranteed floor of cases in both classes
const FLOOR_PER_TYPE: u64 = 400;
fn floor_count(t: Tier) -> u64 {
    JENTRIES.with(|es| es.len() as u64) * t.pick(FLOOR_PER_TYPE, 25 * FLOOR_PER_TYPE)
}
fn floor_make(_t: Tier, i: u64) -> Vec<u8> {
    let mut out = i.to_le_bytes().to_vec();
    let mut x = i.wrapping_mul(0x9E37_79B9_7F4A_7C15) ^ 0x17C1_7C17_0BAD_5EED;
    let len = 8 + (i % 7) * 24;
    for _ in 0..len {
        x ^= x << 13;
        x ^= x >> 7;
        x ^= x << 17;
        out.push((x >> 32) as u8);
    }
    out
}
fn typed_floor(ctx: &mut Ctx, input: &[u8]) -> CaseResult {
    if input.len() < 8 {
        return Ok(());
    }
    let i = u64::from_le_bytes(input[..8].try_into().unwrap());
    let n = JENTRIES.with(|es| es.len() as u64);
    typed_case(ctx, &input[8..], Some((i % n) as usize), (i / n) % 2 == 0, "floor")
}

// values decoded from bytes whose encoding choices the JSON form records (definite / indefinite datum lists,
// Alonzo-format auxiliary data): the JSON round trip keeps them
const DECODED_DOCS: &[(&str, &str)] = &[
    ("TransactionWitnessSet", "a1048101"),
    ("TransactionWitnessSet", "a1049f01ff"),
    ("TransactionWitnessSet", "a104d90102820102"),
    ("TransactionWitnessSet", "a104d901029f0102ff"),
    ("TransactionWitnessSet", "a10480"),
    ("TransactionWitnessSet", "a1049fff"),
    ("TransactionWitnessSet", "a104d9010280"),
    ("TransactionWitnessSet", "a104d9010281d87980"),
    ("AuxiliaryData", "d90103a100a0"),
    ("AuxiliaryData", "d90103a100a1010a"),
    ("AuxiliaryData", "a1010a"),
    ("AuxiliaryData", "82a1010a80"),
    ("Transaction", "84a300d901028001800200a104d90102820102f5f6"),
    ("Transaction", "84a300d901028001800200a104d901029f01fff5d90103a100a1010a"),
];
fn decoded_count(_t: Tier) -> u64 {
    DECODED_DOCS.len() as u64
}
fn decoded_make(_t: Tier, i: u64) -> Vec<u8> {
    i.to_le_bytes().to_vec()
}
fn typed_decoded(ctx: &mut Ctx, input: &[u8]) -> CaseResult {
    if input.len() < 8 {
        return Ok(());
    }
    let i = (u64::from_le_bytes(input[..8].try_into().unwrap()) as usize) % DECODED_DOCS.len();
    let (ty, hx) = DECODED_DOCS[i];
    let bytes = hex::decode(hx.replace(' ', "")).expect("table hex");
    JENTRIES.with(|es| {
        let e = es.iter().find(|e| e.name == ty).expect("table type");
        let v = match catch(|| (e.from_bytes)(bytes.clone())) {
            Ok(Ok(v)) => v,
            Ok(Err(er)) => {
                // not this property's concern (C01/C02/C04): the document is simply not usable here
                ctx.label(&format!("typed_decoded:undecodable:{}:{}", ty, er.chars().take(60).collect::<String>()));
                ctx.reject();
                return Ok(());
            }
            Err(p) => fail!(format!("typed_decoded/from_bytes-panic/{}|{}", ty, p.cause()), "{}::from_bytes({}) panicked: {}", ty, hx, p.msg),
        };
        let kept = catch(|| v.to_bytes()).map(|b| b == bytes).unwrap_or(false);
        ctx.label(if kept { "typed_decoded:encoding-remembered" } else { "typed_decoded:re-encoded-differently" });
        typed_check(ctx, e, v.as_ref(), true, true, "decoded")
    })
}

// ---------------------------------------------------------------------------------------------
// string material

const NUMLIKE: &[&str] = &[
    "0", "1", "-1", "23", "24", "255", "65536", "9223372036854775807", "9223372036854775808", "18446744073709551615",
    "18446744073709551616", "-9223372036854775808", "-9223372036854775809", "-18446744073709551616", "-18446744073709551617",
    "170141183460469231731687303715884105728", "340282366920938463463374607431768211456", "05", "+5", "-0", "00", "1e5", "1.0", "1_000",
    " 5", "5 ", "-", "+", "٥",
];
const HEXLIKE: &[&str] = &[
    "0x", "0x00", "0xab", "0xAB", "0xaB", "0xabc", "0xzz", "0X12", "0x ", "ab12", "0x0", "x0", "00x12", "0xff", "0x7f", "0xc3a9", "0x41", "0x0a",
];
const ESCAPES: &[&str] = &["\"", "\\", "/", "\n", "\t", "\u{0}", "\u{1f}", "\u{7f}", "\u{85}", "a\"b\\c", "</script>", "\u{2028}", "k", "v", "int", "map"];

fn ascii_n(g: &mut Gen, n: usize) -> String {
    g.t.bytes(n).iter().map(|b| (b'a' + (b % 26)) as char).collect()
}
fn truncate_bytes(mut s: String, max: usize) -> String {
    while s.len() > max {
        s.pop();
    }
    s
}
/// text of at most `max` bytes from the boundary classes
fn gen_text(g: &mut Gen, max: usize, f: &mut Feat) -> String {
    let s = match g.t.choose(10) {
        0 => String::new(),
        1 => ascii_n(g, 1),
        2 => ascii_n(g, max),
        3 => ascii_n(g, max.saturating_sub(1)),
        4 => NUMLIKE[g.t.choose(NUMLIKE.len())].to_string(),
        5 => HEXLIKE[g.t.choose(HEXLIKE.len())].to_string(),
        6 => utf8(g, max),
        7 => ESCAPES[g.t.choose(ESCAPES.len())].to_string(),
        8 => {
            // exactly max bytes, ending in a multi-byte character
            let tail = ["é", "→", "𝄞"][g.t.choose(3)];
            let mut s = ascii_n(g, max.saturating_sub(tail.len()));
            s.push_str(tail);
            s
        }
        _ => {
            let n = g.t.range(0, max.min(40));
            ascii_n(g, n)
        }
    };
    let s = truncate_bytes(s, max);
    if s.len() == 63 || s.len() == 64 {
        f.boundary = true;
    }
    s
}
fn gen_bytes_md(g: &mut Gen, f: &mut Feat) -> Vec<u8> {
    let n = [0usize, 1, 63, 64, 10, 32][g.t.choose(6)];
    if n >= 63 {
        f.boundary = true;
    }
    g.t.bytes(n)
}
/// prefix that makes a string neither 0x-hex nor integer-like, keeping it within `max` bytes
fn detox(s: String, max: usize) -> String {
    let mut out = String::from("~");
    out.push_str(&s);
    truncate_bytes(out, max)
}

// ---------------------------------------------------------------------------------------------
// (b) metadata: documents in each schema's normal form

fn md_schema(t: Target) -> MetadataJsonSchema {
    match t {
        Target::MdNo => MetadataJsonSchema::NoConversions,
        Target::MdBasic => MetadataJsonSchema::BasicConversions,
        _ => MetadataJsonSchema::DetailedSchema,
    }
}

/// out-of-schema fragment to plant at the n-th datum position
type Plant = Option<(u32, Doc)>;
fn planted(p: &mut Plant) -> Option<Doc> {
    match p {
        Some((0, _)) => p.take().map(|(_, d)| d),
        Some((n, _)) => {
            *n -= 1;
            None
        }
        None => None,
    }
}

fn md_int(g: &mut Gen, f: &mut Feat) -> i128 {
    let v = g.t.i128_class().max(i64::MIN as i128);
    if v > i64::MAX as i128 {
        f.big_int = true;
    }
    v
}

/// Basic: is this string, as a value, in normal form (maps onto itself)
fn md_basic_value_normal(s: &str) -> bool {
    match hex0x(s) {
        Some(b) => b.len() <= 64 && !s.bytes().any(|c| c.is_ascii_uppercase()),
        None => s.len() <= 64,
    }
}
/// Basic: key classes — Some(true) normal, Some(false) not normal, None: integer key below i64 (encodes, documented to come back)
fn md_basic_key_class(s: &str) -> Option<bool> {
    // everything an integer parser could take
    if let Some(v) = int_like(s) {
        if s.contains('_') {
            return Some(s.len() <= 64); // not an integer for Rust's parser: text
        }
        if cbor_int_range(&v) {
            if !is_canonical_int(s) {
                return Some(false);
            }
            if v < num_bigint::BigInt::from(i64::MIN) {
                return None;
            }
            return Some(true);
        }
        // outside the CBOR int range: stays text
        return Some(s.len() <= 64);
    }
    Some(md_basic_value_normal(s))
}

fn md_doc(g: &mut Gen, t: Target, f: &mut Feat, level: u32, plant: &mut Plant) -> Doc {
    if let Some(d) = planted(plant) {
        return d;
    }
    f.see_level(level);
    let leaf = !g.descend();
    let kinds = if t == Target::MdNo { 4 } else { 5 };
    let k = if leaf {
        2 + g.t.choose(kinds - 2)
    } else if level == 0 && g.t.chance(150) {
        g.t.choose(2) // documents are mostly containers
    } else {
        g.t.choose(kinds)
    };
    let tagged = t == Target::MdDetailed;
    let tag = |name: &str, d: Doc| if tagged { obj1(name, d) } else { d };
    let r = match k {
        0 => {
            let n = g.small(3);
            if tagged {
                let mut seen: Vec<String> = Vec::new();
                let mut entries = Vec::new();
                for _ in 0..n {
                    let had_plant = plant.is_some();
                    let kd = md_doc(g, t, f, level + 1, plant);
                    let vd = md_doc(g, t, f, level + 1, plant);
                    let key_text = render(&norm(&kd, t), 0);
                    // an entry that carries the planted fragment is never dropped
                    if seen.contains(&key_text) && !(had_plant && plant.is_none()) {
                        continue;
                    }
                    seen.push(key_text);
                    if !matches!(&kd, Doc::Obj(o) if o.len() == 1 && o[0].0 == "string") {
                        f.nonstring_key = true;
                    }
                    entries.push(kv(kd, vd));
                }
                obj1("map", Doc::Arr(entries))
            } else {
                let mut o: Vec<(String, Doc)> = Vec::new();
                for _ in 0..n {
                    let mut key = match g.t.choose(if t == Target::MdBasic { 4 } else { 2 }) {
                        2 => {
                            let v = g.t.i128_class();
                            v.to_string()
                        }
                        3 => format!("0x{}", hex::encode(gen_bytes_md(g, f))),
                        _ => gen_text(g, 64, f),
                    };
                    if t == Target::MdBasic {
                        match md_basic_key_class(&key) {
                            Some(true) => {}
                            Some(false) => key = detox(key, 64),
                            None => f.key_below_i64 = true,
                        }
                        if hex0x(&key).is_some() || (is_canonical_int(&key) && plain_int(&key).map(|v| cbor_int_range(&v)).unwrap_or(false)) {
                            f.nonstring_key = true;
                        }
                    }
                    let had_plant = plant.is_some();
                    let vd = md_doc(g, t, f, level + 1, plant);
                    if o.iter().any(|(k2, _)| *k2 == key) {
                        if had_plant && plant.is_none() {
                            o.retain(|(k2, _)| *k2 != key);
                        } else {
                            continue;
                        }
                    }
                    o.push((key, vd));
                }
                Doc::Obj(o)
            }
        }
        1 => {
            let n = g.small(3);
            let items: Vec<Doc> = (0..n).map(|_| md_doc(g, t, f, level + 1, plant)).collect();
            tag("list", Doc::Arr(items))
        }
        2 => tag("int", num(md_int(g, f))),
        3 => {
            let mut s = gen_text(g, 64, f);
            if t == Target::MdBasic && !md_basic_value_normal(&s) {
                s = detox(s, 64);
            }
            tag("string", Doc::Str(s))
        }
        _ => {
            let b = gen_bytes_md(g, f);
            if tagged {
                obj1("bytes", Doc::Str(hex::encode(b)))
            } else {
                Doc::Str(format!("0x{}", hex::encode(b)))
            }
        }
    };
    if !leaf {
        g.ascend();
    }
    r
}

fn md_encode(text: &str, s: MetadataJsonSchema) -> Result<Result<TransactionMetadatum, String>, PanicInfo> {
    catch(|| encode_json_str_to_metadatum(text.to_string(), s).map_err(|e| format!("{:?}", e)))
}
fn md_decode(m: &TransactionMetadatum, s: MetadataJsonSchema) -> Result<Result<String, String>, PanicInfo> {
    catch(|| decode_metadatum_to_json_str(m, s).map_err(|e| format!("{:?}", e)))
}

fn md_json(ctx: &mut Ctx, tape: &[u8]) -> CaseResult {
    let mut g = Gen::new(tape, tree_budget(ctx.tier), 3);
    let t = [Target::MdNo, Target::MdBasic, Target::MdDetailed][g.t.choose(3)];
    let style = g.t.choose(3);
    let mut f = Feat::default();
    let doc = md_doc(&mut g, t, &mut f, 0, &mut None);
    let text = render(&doc, style);
    match parse_doc(&text) {
        Some(d) if norm(&d, Target::MdNo) == norm(&doc, Target::MdNo) => {}
        _ => panic!("engine: the JSON writer and serde_json disagree on {}", text),
    }
    let tn = t.name();
    let s = md_schema(t);
    let m = match md_encode(&text, s) {
        Ok(Ok(m)) => m,
        Ok(Err(e)) => fail!(format!("md_json/normal-form-rejected/{}", tn), "encode_json_str_to_metadatum rejects a document in the schema's normal form: {} json={}", e, clip(&text)),
        Err(p) => fail!(format!("md_json/encode-panic/{}|{}", tn, p.cause()), "encode_json_str_to_metadatum panicked: {} json={}", p.msg, clip(&text)),
    };
    let out = match md_decode(&m, s) {
        Ok(Ok(o)) => o,
        Ok(Err(e)) => {
            if f.key_below_i64 {
                ctx.label("md_json:basic:int-key-below-i64");
                fail!("md_json/basic-int-key-below-i64-not-decodable", "BasicConversions turns the key into an integer below -2^63 and then cannot convert the metadatum back: {} json={} metadatum={}", e, clip(&text), hex::encode(m.to_bytes()))
            }
            fail!(format!("md_json/decode-fails/{}", tn), "the metadatum built from a normal-form document does not convert back: {} json={} metadatum={}", e, clip(&text), hex::encode(m.to_bytes()))
        }
        Err(p) => fail!(format!("md_json/decode-panic/{}|{}", tn, p.cause()), "decode_metadatum_to_json_str panicked: {} json={}", p.msg, clip(&text)),
    };
    let back = match parse_doc(&out) {
        Some(d) => d,
        None => fail!(format!("md_json/output-not-json/{}", tn), "decode_metadatum_to_json_str output is not JSON: {}", clip(&out)),
    };
    // object member order and layout are not content; nothing else is normalised
    ensure!(norm(&back, Target::MdNo) == norm(&doc, Target::MdNo), format!("md_json/changed/{}", tn), "json -> metadatum -> json is not the identity: in={} out={} metadatum={}", clip(&render(&doc, 0)), clip(&out), hex::encode(m.to_bytes()));
    ctx.label(&format!("md_json:{}", tn));
    f.label(ctx, "md_json");
    if f.nontrivial() {
        ctx.nontrivial(fp_mix(fp64(tn.as_bytes()), fp64(render(&norm(&doc, Target::MdNo), 0).as_bytes())));
        ctx.sample(&format!("md_json:{}", tn), || clip(&text));
    }
    Ok(())
}

// metadata trees ---------------------------------------------------------------------------------

fn md_feat(m: &TransactionMetadatum, level: u32, f: &mut Feat) {
    f.see_level(level);
    match m.kind() {
        TransactionMetadatumKind::MetadataMap => {
            if let Ok(mm) = m.as_map() {
                let keys = mm.keys();
                for i in 0..keys.len() {
                    let k = keys.get(i);
                    if k.kind() != TransactionMetadatumKind::Text {
                        f.nonstring_key = true;
                    }
                    md_feat(&k, level + 1, f);
                    if let Ok(v) = mm.get(&k) {
                        md_feat(&v, level + 1, f);
                    }
                }
            }
        }
        TransactionMetadatumKind::MetadataList => {
            if let Ok(l) = m.as_list() {
                for i in 0..l.len() {
                    md_feat(&l.get(i), level + 1, f);
                }
            }
        }
        TransactionMetadatumKind::Int => {
            if let Ok(i) = m.as_int() {
                if let Ok(v) = i.to_str().parse::<num_bigint::BigInt>() {
                    f.see_int(&v);
                }
            }
        }
        TransactionMetadatumKind::Bytes => {
            if let Ok(b) = m.as_bytes() {
                if b.len() == 63 || b.len() == 64 {
                    f.boundary = true;
                }
            }
        }
        TransactionMetadatumKind::Text => {
            if let Ok(s) = m.as_text() {
                if s.len() == 63 || s.len() == 64 {
                    f.boundary = true;
                }
            }
        }
    }
}

/// own tree generator; `plain` = text keys only and no byte strings (the image of NoConversions),
/// `sorted` = text keys inserted in ascending (byte-wise) order
fn md_value(g: &mut Gen, plain: bool, sorted: bool, f: &mut Feat) -> TransactionMetadatum {
    let leaf = !g.descend();
    let kinds = if plain { 4 } else { 5 };
    let k = if leaf { 2 + g.t.choose(kinds - 2) } else { g.t.choose(kinds) };
    let r = match k {
        0 => {
            let n = g.small(3);
            let mut items: Vec<(TransactionMetadatum, TransactionMetadatum)> = Vec::new();
            for _ in 0..n {
                let key = if plain || g.t.bool() { TransactionMetadatum::new_text(gen_text(g, 64, f)).expect("text <= 64") } else { md_value(g, plain, sorted, f) };
                let v = md_value(g, plain, sorted, f);
                items.push((key, v));
            }
            if sorted {
                items.sort_by(|a, b| a.0.as_text().unwrap_or_default().cmp(&b.0.as_text().unwrap_or_default()));
            }
            let mut m = MetadataMap::new();
            for (k, v) in items {
                m.insert(&k, &v);
            }
            TransactionMetadatum::new_map(&m)
        }
        1 => {
            let mut l = MetadataList::new();
            for _ in 0..g.small(3) {
                l.add(&md_value(g, plain, sorted, f));
            }
            TransactionMetadatum::new_list(&l)
        }
        2 => TransactionMetadatum::new_int(&int(g)),
        3 => TransactionMetadatum::new_text(gen_text(g, 64, f)).expect("text <= 64"),
        _ => TransactionMetadatum::new_bytes(gen_bytes_md(g, f)).expect("bytes <= 64"),
    };
    if !leaf {
        g.ascend();
    }
    r
}

fn md_tree(ctx: &mut Ctx, tape: &[u8]) -> CaseResult {
    let mut g = Gen::new(tape, tree_budget(ctx.tier), 3);
    let profile = g.t.choose(4);
    let mut scratch = Feat::default();
    let m = match profile {
        0 => metadatum(&mut g),
        1 => md_value(&mut g, false, false, &mut scratch),
        2 => md_value(&mut g, true, false, &mut scratch),
        _ => md_value(&mut g, true, true, &mut scratch),
    };
    let mut f = Feat::default();
    md_feat(&m, 0, &mut f);
    let mb = m.to_bytes();
    ctx.label(["md_tree:gen:gen::metadatum", "md_tree:gen:free", "md_tree:gen:text-keys-no-bytes", "md_tree:gen:text-keys-no-bytes-sorted"][profile]);
    let mut ok_any = false;
    for t in [Target::MdDetailed, Target::MdNo] {
        let tn = md_schema_name(t);
        let s = md_schema(t);
        let j = match md_decode(&m, s) {
            Ok(Ok(j)) => j,
            Ok(Err(_)) => {
                ctx.label(&format!("md_tree:{}:decode-err", tn));
                continue;
            }
            Err(p) => fail!(format!("md_tree/decode-panic/{}|{}", tn, p.cause()), "decode_metadatum_to_json_str panicked: {} metadatum={}", p.msg, hex::encode(&mb)),
        };
        let m2 = match md_encode(&j, s) {
            Ok(Ok(m2)) => m2,
            Ok(Err(e)) => fail!(format!("md_tree/own-json-rejected/{}", tn), "encode_json_str_to_metadatum rejects the JSON the library produced: {} json={} metadatum={}", e, clip(&j), hex::encode(&mb)),
            Err(p) => fail!(format!("md_tree/encode-panic/{}|{}", tn, p.cause()), "encode_json_str_to_metadatum panicked: {} json={}", p.msg, clip(&j)),
        };
        if m2 != m || m2.to_bytes() != mb {
            let b2 = m2.to_bytes();
            if unordered_form(&b2).is_some() && unordered_form(&b2) == unordered_form(&mb) {
                ctx.label(&format!("md_tree:{}:map-order-changed", tn));
                // NoConversions writes a metadata map as a JSON object, which cannot record the order of its
                // members: the same entries in the library's key order are accepted (labelled), as the typed
                // clause of the property does for insertion order. DetailedSchema writes an array of k/v
                // objects, there the order must survive.
                if tn != "NoConversions" {
                    fail!(format!("md_tree/map-order-changed/{}", tn), "metadatum -> json -> metadatum keeps the entries but changes the order of a map (other bytes, other hash): before={} json={} after={}", hex::encode(&mb), clip(&j), hex::encode(&b2))
                }
                ok_any = true;
                continue;
            }
            fail!(format!("md_tree/changed/{}", tn), "metadatum -> json -> metadatum is not the identity: before={} json={} after={}", hex::encode(&mb), clip(&j), hex::encode(&b2))
        }
        ctx.label(&format!("md_tree:{}:ok", tn));
        ok_any = true;
    }
    f.label(ctx, "md_tree");
    if ok_any && f.nontrivial() {
        ctx.nontrivial(fp64(&mb));
        ctx.sample("md_tree", || cbor::parse_document(&mb).map(|n| n.diag()).unwrap_or_default());
    }
    Ok(())
}

fn md_schema_name(t: Target) -> &'static str {
    match t {
        Target::MdNo => "NoConversions",
        Target::MdBasic => "BasicConversions",
        _ => "DetailedSchema",
    }
}

// ---------------------------------------------------------------------------------------------
// (c) Plutus data

fn pd_feat(d: &PlutusData, level: u32, f: &mut Feat) {
    f.see_level(level);
    match d.kind() {
        PlutusDataKind::ConstrPlutusData => {
            if let Some(c) = d.as_constr_plutus_data() {
                let l = c.data();
                for i in 0..l.len() {
                    pd_feat(&l.get(i), level + 1, f);
                }
            }
        }
        PlutusDataKind::Map => {
            if let Some(m) = d.as_map() {
                let keys = m.keys();
                for i in 0..keys.len() {
                    let k = keys.get(i);
                    f.nonstring_key = true;
                    pd_feat(&k, level + 1, f);
                    if let Some(vs) = m.get(&k) {
                        for j in 0..vs.len() {
                            if let Some(v) = vs.get(j) {
                                pd_feat(&v, level + 1, f);
                            }
                        }
                    }
                }
            }
        }
        PlutusDataKind::List => {
            if let Some(l) = d.as_list() {
                for i in 0..l.len() {
                    pd_feat(&l.get(i), level + 1, f);
                }
            }
        }
        PlutusDataKind::Integer => {
            if let Some(i) = d.as_integer() {
                if let Ok(v) = i.to_str().parse::<num_bigint::BigInt>() {
                    f.see_int(&v);
                }
            }
        }
        PlutusDataKind::Bytes => {
            if let Some(b) = d.as_bytes() {
                if (63..=65).contains(&b.len()) {
                    f.boundary = true;
                }
            }
        }
    }
}

fn datum_detailed(ctx: &mut Ctx, tape: &[u8]) -> CaseResult {
    let mut g = Gen::new(tape, tree_budget(ctx.tier), 3);
    g.ascending = g.t.bool(); // false: maps may carry several values under one key
    let d = plutus_data(&mut g);
    let db = d.to_bytes();
    let j = match catch(|| d.to_json(PlutusDatumSchema::DetailedSchema).map_err(|e| format!("{:?}", e))) {
        Ok(Ok(j)) => j,
        Ok(Err(e)) => fail!("datum_detailed/to_json-fails", "PlutusData::to_json(DetailedSchema) fails: {} datum={}", e, hex::encode(&db)),
        Err(p) => fail!(format!("datum_detailed/to_json-panic|{}", p.cause()), "PlutusData::to_json(DetailedSchema) panicked: {} datum={}", p.msg, hex::encode(&db)),
    };
    let d2 = match catch(|| PlutusData::from_json(&j, PlutusDatumSchema::DetailedSchema).map_err(|e| format!("{:?}", e))) {
        Ok(Ok(d2)) => d2,
        Ok(Err(e)) => fail!("datum_detailed/own-json-rejected", "PlutusData::from_json rejects the library's own DetailedSchema JSON: {} json={} datum={}", e, clip(&j), hex::encode(&db)),
        Err(p) => fail!(format!("datum_detailed/from_json-panic|{}", p.cause()), "PlutusData::from_json panicked: {} json={}", p.msg, clip(&j)),
    };
    ensure!(d2 == d, "datum_detailed/changed", "datum -> detailed json -> datum is not the identity: before={} json={} after={}", hex::encode(&db), clip(&j), hex::encode(d2.to_bytes()));
    let d2b = d2.to_bytes();
    ensure!(d2b == db, "datum_detailed/bytes-differ", "the datum rebuilt from detailed json is equal but serializes differently: before={} after={} json={}", hex::encode(&db), hex::encode(&d2b), clip(&j));
    // the free-function spelling is the same conversion
    let j_free = catch(|| decode_plutus_datum_to_json_str(&d, PlutusDatumSchema::DetailedSchema).map_err(|e| format!("{:?}", e)));
    ensure!(matches!(&j_free, Ok(Ok(x)) if *x == j), "datum_detailed/free-function-differs", "decode_plutus_datum_to_json_str and PlutusData::to_json disagree: {:?} vs {}", j_free.map_err(|p| p.msg), clip(&j));
    let mut f = Feat::default();
    pd_feat(&d, 0, &mut f);
    ctx.label(match d.kind() {
        PlutusDataKind::ConstrPlutusData => "datum_detailed:root:constr",
        PlutusDataKind::Map => "datum_detailed:root:map",
        PlutusDataKind::List => "datum_detailed:root:list",
        PlutusDataKind::Integer => "datum_detailed:root:integer",
        PlutusDataKind::Bytes => "datum_detailed:root:bytes",
    });
    f.label(ctx, "datum_detailed");
    if f.nontrivial() {
        ctx.nontrivial(fp64(&db));
        ctx.sample("datum_detailed", || clip(&j));
    }
    Ok(())
}

fn gen_big_int_text(g: &mut Gen, f: &mut Feat) -> String {
    let v: num_bigint::BigInt = match g.t.choose(4) {
        0 | 1 => num_bigint::BigInt::from(g.t.i128_class()),
        2 => {
            let n = [8usize, 9, 16, 17, 64, 250][g.t.choose(6)];
            let b = g.t.bytes(n);
            num_bigint::BigInt::from_bytes_be(if g.t.bool() { num_bigint::Sign::Minus } else { num_bigint::Sign::Plus }, &b)
        }
        _ => num_bigint::BigInt::from(g.t.range_u64(0, 30) as i64 - 10),
    };
    f.see_int(&v);
    v.to_string()
}

fn printable_utf8(b: &[u8]) -> bool {
    std::str::from_utf8(b).map(|s| s.chars().all(|c| !c.is_control())).unwrap_or(false)
}

/// BasicConversions (datums) document in normal form
fn pl_basic_doc(g: &mut Gen, f: &mut Feat, level: u32, plant: &mut Plant) -> Doc {
    if let Some(d) = planted(plant) {
        return d;
    }
    f.see_level(level);
    let leaf = !g.descend();
    let k = if leaf {
        2 + g.t.choose(3)
    } else if level == 0 && g.t.chance(150) {
        g.t.choose(2)
    } else {
        g.t.choose(5)
    };
    let r = match k {
        0 => {
            let mut o: Vec<(String, Doc)> = Vec::new();
            for _ in 0..g.small(3) {
                let key = match g.t.choose(3) {
                    0 => {
                        f.nonstring_key = true;
                        gen_big_int_text(g, f)
                    }
                    1 => {
                        // bytes that are not UTF-8 come back as 0x-hex
                        let n = [1usize, 2, 31, 64, 65][g.t.choose(5)];
                        let mut b = g.t.bytes(n);
                        if std::str::from_utf8(&b).is_ok() {
                            b.push(0xff);
                        }
                        f.nonstring_key = true;
                        format!("0x{}", hex::encode(b))
                    }
                    _ => {
                        // any other text (control characters included) is its own UTF-8 bytes
                        let s = gen_text(g, 80, f);
                        if s.starts_with("0x") || int_like(&s).is_some() {
                            detox(s, 80)
                        } else {
                            s
                        }
                    }
                };
                let had_plant = plant.is_some();
                let v = pl_basic_doc(g, f, level + 1, plant);
                if o.iter().any(|(k2, _)| *k2 == key) {
                    if had_plant && plant.is_none() {
                        o.retain(|(k2, _)| *k2 != key);
                    } else {
                        continue;
                    }
                }
                o.push((key, v));
            }
            Doc::Obj(o)
        }
        1 => Doc::Arr((0..g.small(3)).map(|_| pl_basic_doc(g, f, level + 1, plant)).collect()),
        2 => Doc::Num(gen_big_int_text(g, f)),
        3 => {
            let max = [64usize, 65, 200][g.t.choose(3)];
            let mut s = gen_text(g, max, f);
            if s.len() == 65 {
                f.boundary = true;
            }
            if s.starts_with("0x") {
                s = detox(s, max);
            }
            let s: String = s.chars().map(|c| if c.is_control() { '?' } else { c }).collect();
            Doc::Str(s)
        }
        _ => {
            let n = [1usize, 2, 63, 64, 65, 128, 200][g.t.choose(7)];
            let mut b = g.t.bytes(n);
            if printable_utf8(&b) {
                b.push(if g.t.bool() { 0xff } else { 0x00 });
            }
            if (63..=65).contains(&b.len()) {
                f.boundary = true;
            }
            Doc::Str(format!("0x{}", hex::encode(b)))
        }
    };
    if !leaf {
        g.ascend();
    }
    r
}

/// DetailedSchema (datums) document in normal form (base for the out-of-schema plants)
fn pl_detailed_doc(g: &mut Gen, f: &mut Feat, level: u32, plant: &mut Plant) -> Doc {
    if let Some(d) = planted(plant) {
        return d;
    }
    f.see_level(level);
    let leaf = !g.descend();
    let k = if leaf { 3 + g.t.choose(2) } else { g.t.choose(5) };
    let r = match k {
        0 => {
            let alt = [0u64, 1, 6, 7, 127, 128, u64::MAX][g.t.choose(7)];
            let fields: Vec<Doc> = (0..g.small(3)).map(|_| pl_detailed_doc(g, f, level + 1, plant)).collect();
            Doc::Obj(vec![("constructor".to_string(), num(alt)), ("fields".to_string(), Doc::Arr(fields))])
        }
        1 => {
            let mut entries = Vec::new();
            for _ in 0..g.small(3) {
                f.nonstring_key = true;
                let kd = pl_detailed_doc(g, f, level + 1, plant);
                let vd = pl_detailed_doc(g, f, level + 1, plant);
                entries.push(kv(kd, vd));
            }
            obj1("map", Doc::Arr(entries))
        }
        2 => obj1("list", Doc::Arr((0..g.small(3)).map(|_| pl_detailed_doc(g, f, level + 1, plant)).collect())),
        3 => obj1("int", Doc::Num(gen_big_int_text(g, f))),
        _ => {
            let n = [0usize, 1, 63, 64, 65, 130][g.t.choose(6)];
            if (63..=65).contains(&n) {
                f.boundary = true;
            }
            obj1("bytes", Doc::Str(hex::encode(g.t.bytes(n))))
        }
    };
    if !leaf {
        g.ascend();
    }
    r
}

fn pl_schema(t: Target) -> PlutusDatumSchema {
    if t == Target::PlBasic {
        PlutusDatumSchema::BasicConversions
    } else {
        PlutusDatumSchema::DetailedSchema
    }
}
fn pl_encode(text: &str, s: PlutusDatumSchema) -> Result<Result<PlutusData, String>, PanicInfo> {
    catch(|| encode_json_str_to_plutus_datum(text, s).map_err(|e| format!("{:?}", e)))
}
fn pl_decode(d: &PlutusData, s: PlutusDatumSchema) -> Result<Result<String, String>, PanicInfo> {
    catch(|| decode_plutus_datum_to_json_str(d, s).map_err(|e| format!("{:?}", e)))
}

fn datum_basic(ctx: &mut Ctx, tape: &[u8]) -> CaseResult {
    let mut g = Gen::new(tape, tree_budget(ctx.tier), 3);
    let style = g.t.choose(3);
    let mut f = Feat::default();
    let doc = pl_basic_doc(&mut g, &mut f, 0, &mut None);
    let text = render(&doc, style);
    match parse_doc(&text) {
        Some(d) if norm(&d, Target::MdNo) == norm(&doc, Target::MdNo) => {}
        _ => panic!("engine: the JSON writer and serde_json disagree on {}", text),
    }
    let s = PlutusDatumSchema::BasicConversions;
    let d = match pl_encode(&text, s) {
        Ok(Ok(d)) => d,
        Ok(Err(e)) => fail!("datum_basic/normal-form-rejected", "encode_json_str_to_plutus_datum(BasicConversions) rejects a normal-form document: {} json={}", e, clip(&text)),
        Err(p) => fail!(format!("datum_basic/encode-panic|{}", p.cause()), "encode_json_str_to_plutus_datum panicked: {} json={}", p.msg, clip(&text)),
    };
    let out = match pl_decode(&d, s) {
        Ok(Ok(o)) => o,
        Ok(Err(e)) => fail!("datum_basic/decode-fails", "the datum built from a normal-form document does not convert back: {} json={} datum={}", e, clip(&text), hex::encode(d.to_bytes())),
        Err(p) => fail!(format!("datum_basic/decode-panic|{}", p.cause()), "decode_plutus_datum_to_json_str panicked: {} json={}", p.msg, clip(&text)),
    };
    let back = match parse_doc(&out) {
        Some(b) => b,
        None => fail!("datum_basic/output-not-json", "decode_plutus_datum_to_json_str output is not JSON: {}", clip(&out)),
    };
    ensure!(norm(&back, Target::MdNo) == norm(&doc, Target::MdNo), "datum_basic/changed", "json -> datum -> json (BasicConversions) is not the identity: in={} out={} datum={}", clip(&render(&doc, 0)), clip(&out), hex::encode(d.to_bytes()));
    f.label(ctx, "datum_basic");
    if f.nontrivial() {
        ctx.nontrivial(fp64(render(&norm(&doc, Target::MdNo), 0).as_bytes()));
        ctx.sample("datum_basic", || clip(&text));
    }
    Ok(())
}

// ---------------------------------------------------------------------------------------------
// (d) chunk helpers

fn bytes_chunks(ctx: &mut Ctx, tape: &[u8]) -> CaseResult {
    let mut t = Tape::new(tape);
    let n = match t.choose(4) {
        0 => [0usize, 1, 63, 64, 65, 127, 128, 129, 191, 192, 193, 640, 1000][t.choose(13)],
        1 => t.range(0, 300),
        2 => 64 * t.range(0, 12) + [0usize, 1, 63][t.choose(3)],
        _ => t.range(0, 2000),
    };
    let b = t.bytes(n);
    let m = match catch(|| encode_arbitrary_bytes_as_metadatum(&b)) {
        Ok(m) => m,
        Err(p) => fail!(format!("bytes_chunks/encode-panic|{}", p.cause()), "encode_arbitrary_bytes_as_metadatum panicked on {} bytes: {}", n, p.msg),
    };
    let list = match m.as_list() {
        Ok(l) => l,
        Err(_) => fail!("bytes_chunks/not-a-list", "encode_arbitrary_bytes_as_metadatum({} bytes) is not a list: {}", n, hex::encode(m.to_bytes())),
    };
    for i in 0..list.len() {
        match list.get(i).as_bytes() {
            Ok(c) => ensure!(c.len() <= 64, "bytes_chunks/chunk-over-64", "chunk {} of {} has {} bytes (input {} bytes)", i, list.len(), c.len(), n),
            Err(_) => fail!("bytes_chunks/chunk-not-bytes", "element {} is not a byte string (input {} bytes)", i, n),
        }
    }
    // the wire form obeys the limit too
    if let Ok(node) = cbor::parse_document(&m.to_bytes()) {
        if let Some(items) = node.as_array() {
            for it in items {
                ensure!(it.as_bytes().map(|c| c.len() <= 64).unwrap_or(false), "bytes_chunks/wire-chunk-over-64", "wire element is not a byte string of <= 64 bytes: {}", it.diag());
            }
        }
    }
    match catch(|| decode_arbitrary_bytes_from_metadatum(&m).map_err(|e| format!("{:?}", e))) {
        Ok(Ok(back)) => ensure!(back == b, "bytes_chunks/changed", "decode(encode(b)) != b: in={} out={}", hex::encode(&b[..b.len().min(300)]), hex::encode(&back[..back.len().min(300)])),
        Ok(Err(e)) => fail!("bytes_chunks/decode-fails", "decode_arbitrary_bytes_from_metadatum rejects the encoder's output: {} ({} bytes)", e, n),
        Err(p) => fail!(format!("bytes_chunks/decode-panic|{}", p.cause()), "decode_arbitrary_bytes_from_metadatum panicked: {}", p.msg),
    }
    let chunks = list.len();
    ctx.label(match chunks {
        0 => "bytes_chunks:chunks:0",
        1 => "bytes_chunks:chunks:1",
        2..=3 => "bytes_chunks:chunks:2-3",
        _ => "bytes_chunks:chunks:4+",
    });
    let near = n % 64 <= 1 || n % 64 == 63;
    if near {
        ctx.label("bytes_chunks:length-within-1-of-multiple-of-64");
    }
    if chunks > 1 || near {
        ctx.nontrivial(fp64(&b));
        ctx.sample("bytes_chunks", || format!("{} bytes -> {} chunks", n, chunks));
    }
    Ok(())
}

// ---------------------------------------------------------------------------------------------
// (e) just outside a schema

struct Frag {
    class: &'static str,
    /// documented rejection: Ok is a violation whatever the value
    must_err: bool,
    doc: Doc,
    /// plant as the key of a one-member object instead of at a datum position (NoConversions / BasicConversions)
    as_key: bool,
}
fn frag(class: &'static str, must_err: bool, doc: Doc) -> Frag {
    Frag { class, must_err, doc, as_key: false }
}

fn non_integral(g: &mut Gen) -> Doc {
    Doc::Num(["1.5", "-0.5", "0.1e0", "1e-2", "123456789.000001", "2.5E0"][g.t.choose(6)].to_string())
}
fn beyond_cbor_int(g: &mut Gen) -> Doc {
    Doc::Num(["18446744073709551616", "-18446744073709551617", "340282366920938463463374607431768211456", "-170141183460469231731687303715884105729", "99999999999999999999999999999999999999999999"][g.t.choose(5)].to_string())
}
fn oversize_text(g: &mut Gen) -> String {
    match g.t.choose(4) {
        0 => ascii_n(g, 65),
        1 => {
            let mut s = ascii_n(g, 63);
            s.push('é'); // 64 characters, 65 bytes
            s
        }
        2 => ascii_n(g, 200),
        _ => {
            let mut s = ascii_n(g, 62);
            s.push('𝄞'); // 63 characters, 66 bytes
            s
        }
    }
}

fn md_frag(g: &mut Gen, t: Target) -> Frag {
    let tagged = t == Target::MdDetailed;
    let wrap = |tag: &str, d: Doc| if tagged { obj1(tag, d) } else { d };
    let common = 8;
    let extra = match t {
        Target::MdNo => 1,
        Target::MdBasic => 5,
        _ => 17,
    };
    let k = g.t.choose(common + extra);
    match k {
        0 => frag("null", true, wrap("int", Doc::Null)),
        1 => frag("bool", true, wrap("int", Doc::Bool(g.t.bool()))),
        2 => frag("non-integral-number", true, wrap("int", non_integral(g))),
        3 => frag("integer-beyond-cbor-range", true, wrap("int", beyond_cbor_int(g))),
        4 => frag("oversize-text", true, wrap("string", Doc::Str(oversize_text(g)))),
        // representable as metadata (nint) but below what the JSON number path takes: Err or the same value
        5 => frag("integer-below-i64", false, wrap("int", Doc::Num(["-9223372036854775809", "-18446744073709551616", "-12345678901234567890"][g.t.choose(3)].to_string()))),
        6 => frag("minus-zero", false, wrap("int", Doc::Num("-0".to_string()))),
        7 => {
            if tagged {
                frag("bare-null", true, Doc::Null)
            } else {
                Frag { class: "oversize-key", must_err: true, doc: Doc::Str(oversize_text(g)), as_key: true }
            }
        }
        _ => match (t, k - common) {
            (Target::MdNo, _) => frag("bool", true, Doc::Bool(true)),
            (Target::MdBasic, 0) => frag("oversize-0x-bytes", true, Doc::Str(format!("0x{}", hex::encode({ let n = [65usize, 66, 100][g.t.choose(3)]; g.t.bytes(n) })))),
            (Target::MdBasic, 1) => {
                let n = [1usize, 2, 64, 20][g.t.choose(4)];
                let mut b = g.t.bytes(n);
                b[0] = 0xAB;
                frag("upper-case-0x-hex", false, Doc::Str(format!("0x{}", hex::encode_upper(b))))
            }
            (Target::MdBasic, 2) => Frag { class: "non-canonical-integer-key", must_err: false, doc: Doc::Str(["05", "+5", "-0", "00", "+0", "-007", "+18446744073709551615"][g.t.choose(7)].to_string()), as_key: true },
            (Target::MdBasic, 3) => Frag { class: "oversize-0x-key", must_err: true, doc: Doc::Str(format!("0x{}", hex::encode(g.t.bytes(65)))), as_key: true },
            (Target::MdBasic, _) => Frag { class: "upper-case-0x-key", must_err: false, doc: Doc::Str(format!("0x{}", hex::encode_upper([0xABu8, g.t.byte(), 0xCD]))), as_key: true },
            (_, 0) => frag("odd-length-hex", true, obj1("bytes", Doc::Str(["a", "abc", "0", "abcde"][g.t.choose(4)].to_string()))),
            (_, 1) => frag("non-hex-characters", true, obj1("bytes", Doc::Str(["zz", "0g", "ab cd", "äö", "ab\n"][g.t.choose(5)].to_string()))),
            (_, 2) => frag("0x-prefixed-bytes", true, obj1("bytes", Doc::Str(["0x", "0xab", "0xABCD"][g.t.choose(3)].to_string()))),
            (_, 3) => frag("oversize-bytes", true, obj1("bytes", Doc::Str(hex::encode({ let n = [65usize, 66, 128][g.t.choose(3)]; g.t.bytes(n) })))),
            (_, 4) => {
                let n = [1usize, 2, 64, 20][g.t.choose(4)];
                let mut b = g.t.bytes(n);
                b[0] = 0xAB;
                frag("upper-case-hex", false, obj1("bytes", Doc::Str(hex::encode_upper(b))))
            }
            (_, 5) => frag("tag-value-mismatch", true, [obj1("int", st("5")), obj1("string", num(5)), obj1("bytes", num(5)), obj1("list", obj1("int", num(1))), obj1("map", Doc::Obj(vec![])), obj1("int", Doc::Arr(vec![num(1)])), obj1("string", Doc::Null), obj1("bytes", Doc::Arr(vec![]))][g.t.choose(8)].clone()),
            (_, 6) => frag("unknown-tag", true, [obj1("foo", num(1)), obj1("Int", num(1)), obj1("integer", num(1)), obj1("constructor", num(1)), obj1("", num(1)), obj1("k", obj1("int", num(1)))][g.t.choose(6)].clone()),
            (_, 7) => frag("empty-object", true, Doc::Obj(vec![])),
            (_, 8) => frag("two-tags", true, Doc::Obj(vec![("int".to_string(), num(1)), ("string".to_string(), st("a"))])),
            (_, 9) => frag("untagged-value", true, [num(5), st("a"), Doc::Arr(vec![]), Doc::Arr(vec![obj1("int", num(1))]), st("0xab")][g.t.choose(5)].clone()),
            (_, 10) => frag("map-entry-without-v", true, obj1("map", Doc::Arr(vec![obj1("k", obj1("int", num(1)))]))),
            (_, 11) => frag("map-entry-without-k", true, obj1("map", Doc::Arr(vec![obj1("v", obj1("int", num(1)))]))),
            (_, 12) => frag("map-entry-not-an-object", true, obj1("map", Doc::Arr(vec![[num(5), Doc::Arr(vec![obj1("int", num(1)), obj1("int", num(2))]), st("k")][g.t.choose(3)].clone()]))),
            (_, 14) => frag("bare-bool", true, Doc::Bool(false)),
            (_, 15) => frag("non-integral-number", true, obj1("int", non_integral(g))),
            (_, _) => frag("oversize-text", true, obj1("string", Doc::Str(oversize_text(g)))),
        },
    }
}

fn pl_frag(g: &mut Gen, t: Target) -> Frag {
    let tagged = t == Target::PlDetailed;
    let wrap = |tag: &str, d: Doc| if tagged { obj1(tag, d) } else { d };
    let common = 4;
    let extra = if tagged { 19 } else { 5 };
    let k = g.t.choose(common + extra);
    let c2 = |a: Doc, b: Doc| Doc::Obj(vec![("constructor".to_string(), a), ("fields".to_string(), b)]);
    match k {
        0 => frag("null", true, wrap("int", Doc::Null)),
        1 => frag("bool", true, wrap("int", Doc::Bool(g.t.bool()))),
        2 => frag("non-integral-number", true, wrap("int", non_integral(g))),
        3 => frag("minus-zero", false, wrap("int", Doc::Num("-0".to_string()))),
        _ => match (tagged, k - common) {
            (false, 0) => frag("0x-odd-length-hex", true, Doc::Str(["0xa", "0xabc", "0x0"][g.t.choose(3)].to_string())),
            (false, 1) => frag("0x-non-hex-characters", true, Doc::Str(["0xzz", "0x 12", "0xäö", "0x0g"][g.t.choose(4)].to_string())),
            (false, 2) => Frag { class: "0x-odd-length-hex-key", must_err: true, doc: Doc::Str(["0xa", "0xabc"][g.t.choose(2)].to_string()), as_key: true },
            (false, 3) => {
                let n = [2usize, 3, 65][g.t.choose(3)];
                let mut b = g.t.bytes(n);
                b[0] = 0xFF;
                frag("upper-case-0x-hex", false, Doc::Str(format!("0x{}", hex::encode_upper(b))))
            }
            (false, _) => Frag { class: "non-canonical-integer-key", must_err: false, doc: Doc::Str(["05", "+5", "-0", "00", "-007", "+123456789012345678901234567890"][g.t.choose(6)].to_string()), as_key: true },
            (true, 0) => frag("odd-length-hex", true, obj1("bytes", Doc::Str(["a", "abc", "0", "abcde"][g.t.choose(4)].to_string()))),
            (true, 1) => frag("non-hex-characters", true, obj1("bytes", Doc::Str(["zz", "0g", "ab cd", "äö"][g.t.choose(4)].to_string()))),
            (true, 2) => frag("0x-prefixed-bytes", true, obj1("bytes", Doc::Str(["0x", "0xab", "0xABCD"][g.t.choose(3)].to_string()))),
            (true, 3) => {
                let n = [1usize, 2, 65][g.t.choose(3)];
                let mut b = g.t.bytes(n);
                b[0] = 0xAB;
                frag("upper-case-hex", false, obj1("bytes", Doc::Str(hex::encode_upper(b))))
            }
            (true, 4) => frag("tag-value-mismatch", true, [obj1("int", st("5")), obj1("bytes", num(5)), obj1("list", obj1("int", num(1))), obj1("map", Doc::Obj(vec![])), obj1("int", Doc::Arr(vec![num(1)])), obj1("bytes", Doc::Null)][g.t.choose(6)].clone()),
            (true, 5) => frag("unknown-tag", true, [obj1("foo", num(1)), obj1("string", st("a")), obj1("Int", num(1)), obj1("constructor", num(1)), obj1("fields", Doc::Arr(vec![]))][g.t.choose(5)].clone()),
            (true, 6) => frag("empty-object", true, Doc::Obj(vec![])),
            (true, 7) => frag("two-tags", true, Doc::Obj(vec![("int".to_string(), num(1)), ("bytes".to_string(), st("ab"))])),
            (true, 8) => frag("untagged-value", true, [num(5), st("ab"), Doc::Arr(vec![]), Doc::Arr(vec![obj1("int", num(1))])][g.t.choose(4)].clone()),
            (true, 9) => frag("map-entry-without-v", true, obj1("map", Doc::Arr(vec![obj1("k", obj1("int", num(1)))]))),
            (true, 10) => frag("map-entry-without-k", true, obj1("map", Doc::Arr(vec![obj1("v", obj1("int", num(1)))]))),
            (true, 11) => frag("map-entry-not-an-object", true, obj1("map", Doc::Arr(vec![[num(5), Doc::Arr(vec![obj1("int", num(1)), obj1("int", num(2))]), st("k")][g.t.choose(3)].clone()]))),
            (true, 13) => frag("constructor-not-unsigned-64", true, c2([num(-1), Doc::Num("18446744073709551616".to_string()), Doc::Num("1.5".to_string()), st("1"), Doc::Null, Doc::Bool(true)][g.t.choose(6)].clone(), Doc::Arr(vec![]))),
            (true, 14) => frag("constructor-fields-not-a-list", true, c2(num(1), [Doc::Obj(vec![]), obj1("list", Doc::Arr(vec![])), num(1), Doc::Null][g.t.choose(4)].clone())),
            (true, 15) => frag("constructor-extra-member", true, Doc::Obj(vec![("constructor".to_string(), num(1)), ("fields".to_string(), Doc::Arr(vec![])), ("x".to_string(), num(1))])),
            (true, 16) => frag("constructor-wrong-partner", true, Doc::Obj(vec![("constructor".to_string(), num(1)), ("int".to_string(), num(1))])),
            (true, 17) => frag("bare-null", true, Doc::Null),
            (true, _) => frag("constructor-field-untagged", true, c2(num(0), Doc::Arr(vec![num(1)]))),
        },
    }
}

/// two members of one map denote the same key after normalisation (e.g. -0 next to 0, "05" next to "5"):
/// which entry wins / how they are grouped is not specified by any schema
fn has_colliding_keys(d: &Doc) -> bool {
    match d {
        Doc::Arr(a) => {
            let ks: Vec<&Doc> = a.iter().filter_map(|x| if let Doc::Obj(o) = x { o.iter().find(|(k, _)| k == "k").map(|(_, v)| v) } else { None }).collect();
            (0..ks.len()).any(|i| (0..i).any(|j| ks[i] == ks[j])) || a.iter().any(has_colliding_keys)
        }
        Doc::Obj(o) => o.windows(2).any(|w| w[0].0 == w[1].0) || o.iter().any(|(_, x)| has_colliding_keys(x)),
        _ => false,
    }
}

fn reject(ctx: &mut Ctx, tape: &[u8]) -> CaseResult {
    let mut g = Gen::new(tape, 2, 3);
    let t = [Target::MdNo, Target::MdBasic, Target::MdDetailed, Target::PlBasic, Target::PlDetailed][g.t.choose(5)];
    let fr = match t {
        Target::PlBasic | Target::PlDetailed => pl_frag(&mut g, t),
        _ => md_frag(&mut g, t),
    };
    let style = g.t.choose(3);
    let position = g.t.choose(6) as u32;
    let mut f = Feat::default();
    // the fragment sits at a datum position of an otherwise normal-form document (or is its own document)
    let (plant_doc, key): (Doc, Option<String>) = if fr.as_key {
        match &fr.doc {
            Doc::Str(s) => (Doc::Null, Some(s.clone())),
            _ => (fr.doc.clone(), None),
        }
    } else {
        (fr.doc.clone(), None)
    };
    let mut plant: Plant = if key.is_some() { None } else { Some((position, plant_doc)) };
    let base = match t {
        Target::PlBasic => pl_basic_doc(&mut g, &mut f, 0, &mut plant),
        Target::PlDetailed => pl_detailed_doc(&mut g, &mut f, 0, &mut plant),
        _ => md_doc(&mut g, t, &mut f, 0, &mut plant),
    };
    let doc = match (key, plant) {
        (Some(k), _) => Doc::Obj(vec![(k, base)]),
        (None, None) => base,
        (None, Some((_, d))) => {
            // the document had fewer positions: put the fragment next to it in a list
            if t.detailed() {
                obj1("list", Doc::Arr(vec![base, d]))
            } else {
                Doc::Arr(vec![base, d])
            }
        }
    };
    if f.key_below_i64 {
        // covered by md_json with its own signature
        ctx.reject();
        return Ok(());
    }
    if !fr.must_err && has_colliding_keys(&norm(&doc, t)) {
        ctx.reject();
        return Ok(());
    }
    let text = render(&doc, style);
    let tn = t.name();
    let class = fr.class;
    // encode, and if accepted convert back
    let (accepted, back): (bool, Option<Result<String, String>>) = match t {
        Target::PlBasic | Target::PlDetailed => match pl_encode(&text, pl_schema(t)) {
            Ok(Ok(d)) => match pl_decode(&d, pl_schema(t)) {
                Ok(r) => (true, Some(r)),
                Err(p) => fail!(format!("reject/{}/{}/decode-panic|{}", tn, class, p.cause()), "converting the accepted value back panicked: {} json={}", p.msg, clip(&text)),
            },
            Ok(Err(_)) => (false, None),
            Err(p) => fail!(format!("reject/{}/{}/panic|{}", tn, class, p.cause()), "encode_json_str_to_plutus_datum panicked instead of returning Err: {} json={}", p.msg, clip(&text)),
        },
        _ => match md_encode(&text, md_schema(t)) {
            Ok(Ok(m)) => match md_decode(&m, md_schema(t)) {
                Ok(r) => (true, Some(r)),
                Err(p) => fail!(format!("reject/{}/{}/decode-panic|{}", tn, class, p.cause()), "converting the accepted value back panicked: {} json={}", p.msg, clip(&text)),
            },
            Ok(Err(_)) => (false, None),
            Err(p) => fail!(format!("reject/{}/{}/panic|{}", tn, class, p.cause()), "encode_json_str_to_metadatum panicked instead of returning Err: {} json={}", p.msg, clip(&text)),
        },
    };
    ctx.label(&format!("reject:{}:{}", tn, class));
    if !accepted {
        ctx.label("reject:outcome:err");
    } else {
        let same = match &back {
            Some(Ok(out)) => parse_doc(out).map(|b| norm(&b, t) == norm(&doc, t)).unwrap_or(false),
            _ => false,
        };
        let shown = match &back {
            Some(Ok(o)) => clip(o),
            Some(Err(e)) => format!("Err({})", e),
            None => String::new(),
        };
        if !same {
            fail!(format!("reject/{}/{}/different-value", tn, class), "a document outside the schema's normal form ({}) is accepted and converts back to something else: in={} out={}", class, clip(&render(&doc, 0)), shown)
        }
        if fr.must_err {
            fail!(format!("reject/{}/{}/accepted", tn, class), "a document outside the schema ({}) is accepted instead of Err: in={} out={}", class, clip(&render(&doc, 0)), shown)
        }
        ctx.label("reject:outcome:accepted-same-after-normalisation");
    }
    // every case of this sub-check is a document one step outside the normal form
    ctx.nontrivial(fp_mix(fp64(tn.as_bytes()), fp64(text.as_bytes())));
    ctx.sample(&format!("reject:{}:{}", tn, class), || clip(&text));
    Ok(())
}
