//! C19 — collateral return and total collateral are consistent and sufficient.
//!
//! Self-contained scenarios: a `TransactionBuilder` with ordinary key inputs / outputs, 0-4 collateral
//! inputs whose values only this module knows (own map outpoint -> value), a history of raw field
//! setters, balancing and helper calls, and finally the helper route the sub-check is about. The oracle
//! reads the emitted body bytes with the engine's own CBOR reader.
use crate::cbor;
use crate::gen::bn;
use crate::runner::*;
use crate::tape::*;
use cardano_serialization_lib as csl;
use csl::verif_hooks;
use csl::*;
use std::collections::BTreeMap;

pub fn property() -> Property {
    Property {
        id: "C19",
        rule: "tape-decoded history: configuration (linear fee small/large, coins-per-byte 0..2^58, size limits), 0-2 ordinary key inputs and 0-2 outputs, 0-4 collateral inputs (pure ADA or asset-carrying, coins and quantities in width classes), an optional fee request, 0-3 earlier operations out of {raw set_collateral_return, raw set_total_collateral, remove of either field, replacing the collateral set, add_change_if_needed, any of the three helpers}, then the helper route the sub-check is about, then (first two routes) optionally add_change_if_needed. A case counts when the route under test returned Ok and a body was built and compared with the scenario's own collateral values (or, percentage route, returned Err and the body was inspected). Non-trivial = such a case in which the collateral inputs carry native assets, or the requested return output's asset set differs from the collateral's, or the emitted total collateral is a CBOR width boundary (23, 24, 255, 256, 65535, 65536, 2^32-1, 2^32, 2^63-1, 2^63, 2^64-2, 2^64-1); distinct by hash of the rendered history",
        assumptions: vec![
            "the value of a collateral outpoint is what the scenario declared for it (own map outpoint -> value); C is summed in 128-bit integers over the outpoints found under key 13 of the emitted body, never read from the builder".into(),
            "precondition of the statement: the collateral set is replaced and the raw setters are used only BEFORE the helper under test is called; a return / total left in place by the raw setters (or by an earlier helper) before that call is part of the history, the helper under test then owns both fields".into(),
            "the equation, the min-ADA bound and the percentage bound are checked when the helper under test (the last helper of the history) returned Ok; a helper that returned Err makes no claim, except the percentage route whose failure must leave neither key 16 nor key 17 in the body".into(),
            "the body is taken from build_tx() when that succeeds, else from build() (after set_fee on a clone when no fee exists yet); a body that cannot be built (size limit) is counted under a label, not judged".into(),
            "R = value under key 16 (legacy array or map form), zero if absent; T = key 17; an Ok helper without key 17 is a violation; 'nothing else sits in R' is read per quantity: R may hold neither an asset the collateral lacks nor more of an asset than the collateral holds (one signature, same cause)".into(),
            "min-ADA bound of the return output is evaluated on the emitted bytes under key 16: coin >= coins_per_utxo_byte * (160 + length)".into(),
            "percentage route: fee is the one in the emitted body (key 2); required = ceil(fee * percentage / 100) in 128-bit integers; percentages 0..1000 plus a width-class tail".into(),
            "signature stale-return-left-in-place is used when a check fails, the route computes the return itself, nothing is left to return (pure-ADA collateral, T = whole collateral coin) and the emitted return is byte-identical to the one in place before the call".into(),
            "random-improve strategies draw from a schedule installed through the verif-hooks feature (a pure function of the tape)".into(),
            "a panic of balancing / of an earlier operation rejects the case (other properties own those calls); a panic of the helper under test or of build is reported".into(),
        ],
        subchecks: vec![
            SubCheck { name: "return_and_total", kind: Kind::Tape { quick: 1_000_000, thorough: 30_000_000, max_len: 320 }, run: run_rt },
            SubCheck { name: "total_and_return", kind: Kind::Tape { quick: 1_000_000, thorough: 30_000_000, max_len: 320 }, run: run_tr },
            SubCheck { name: "percentage", kind: Kind::Tape { quick: 700_000, thorough: 20_000_000, max_len: 400 }, run: run_pct },
        ],
        crash_prone: false,
        max_reject_fraction: 0.05,
        required_label_fraction: vec![
            ("return_and_total", "rt:checked", 0.15),
            ("total_and_return", "tr:checked", 0.20),
            ("percentage", "pct:checked", 0.20),
            ("percentage", "pct:err-path-checked", 0.25),
            ("return_and_total", "rt:checked:collateral=assets", 0.02),
            ("total_and_return", "tr:checked:collateral=assets", 0.08),
            ("percentage", "pct:checked:collateral=assets", 0.08),
            ("return_and_total", "rt:checked:total-on-width-boundary", 0.005),
            ("total_and_return", "tr:checked:total-on-width-boundary", 0.03),
            ("percentage", "pct:checked:total-on-width-boundary", 0.002),
            ("return_and_total", "rt:order=balanced-after-helper", 0.02),
            ("return_and_total", "rt:order=balanced-before-helper", 0.01),
            ("total_and_return", "tr:order=balanced-after-helper", 0.03),
            ("total_and_return", "tr:order=balanced-before-helper", 0.02),
            ("total_and_return", "tr:checked:fields-in-place-before-helper", 0.05),
        ],
    }
}

fn run_rt(ctx: &mut Ctx, tape: &[u8]) -> CaseResult {
    run(ctx, tape, Route::ReturnAndTotal)
}
fn run_tr(ctx: &mut Ctx, tape: &[u8]) -> CaseResult {
    run(ctx, tape, Route::TotalAndReturn)
}
fn run_pct(ctx: &mut Ctx, tape: &[u8]) -> CaseResult {
    run(ctx, tape, Route::Percentage)
}

#[derive(Clone, Copy, PartialEq, Eq, Debug)]
enum Route {
    ReturnAndTotal,
    TotalAndReturn,
    Percentage,
}

impl Route {
    fn name(self) -> &'static str {
        match self {
            Route::ReturnAndTotal => "return_and_total",
            Route::TotalAndReturn => "total_and_return",
            Route::Percentage => "percentage",
        }
    }
    fn p(self) -> &'static str {
        match self {
            Route::ReturnAndTotal => "rt",
            Route::TotalAndReturn => "tr",
            Route::Percentage => "pct",
        }
    }
}

type AssetId = (Vec<u8>, Vec<u8>);
type AMap = BTreeMap<AssetId, u128>;

/// boundary points of the CBOR width classes that count as "T on a width boundary"
const T_BOUNDARIES: [u64; 12] = [23, 24, 255, 256, 65535, 65536, 0xFFFF_FFFF, 0x1_0000_0000, 0x7FFF_FFFF_FFFF_FFFF, 0x8000_0000_0000_0000, 0xFFFF_FFFF_FFFF_FFFE, 0xFFFF_FFFF_FFFF_FFFF];

#[derive(Clone)]
struct Utxo {
    input: TransactionInput,
    hash: Vec<u8>,
    index: u64,
    addr: Address,
    coin: u64,
    assets: BTreeMap<AssetId, u64>,
}

impl Utxo {
    fn value(&self) -> Value {
        mk_value(self.coin, &self.assets)
    }
    fn render(&self) -> String {
        format!("{}#{}:{}{}", hex::encode(&self.hash[..3]), self.index, self.coin, render_assets_u64(&self.assets))
    }
}

fn asset_tag(id: &AssetId) -> String {
    format!("{}.{}", hex::encode(&id.0[..2.min(id.0.len())]), if id.1.len() > 4 { format!("{}..({}B)", hex::encode(&id.1[..2]), id.1.len()) } else { hex::encode(&id.1) })
}

fn render_assets_u64(a: &BTreeMap<AssetId, u64>) -> String {
    if a.is_empty() {
        return String::new();
    }
    format!("+{{{}}}", a.iter().map(|(k, q)| format!("{}={}", asset_tag(k), q)).collect::<Vec<_>>().join(","))
}

fn render_assets(a: &AMap) -> String {
    if a.is_empty() {
        return String::new();
    }
    format!("+{{{}}}", a.iter().map(|(k, q)| format!("{}={}", asset_tag(k), q)).collect::<Vec<_>>().join(","))
}

fn key_addr(k: u8, kind: usize) -> Address {
    let pay = Credential::from_keyhash(&Ed25519KeyHash::from_bytes(pool_bytes(k, 28, 70)).unwrap());
    match kind {
        0 => EnterpriseAddress::new(1, &pay).to_address(),
        1 => BaseAddress::new(1, &pay, &Credential::from_keyhash(&Ed25519KeyHash::from_bytes(pool_bytes(k, 28, 71)).unwrap())).to_address(),
        _ => PointerAddress::new(1, &pay, &Pointer::new(1 + k as u32 * 1000, 2, 3)).to_address(),
    }
}

/// the fixed pool of native assets: ids 0..=3 are the ones collateral UTxOs usually hold, 4 and 5 are
/// the ones a return output can claim without the collateral holding them
fn asset_pool() -> Vec<AssetId> {
    vec![
        (pool_bytes(0, 28, 72), vec![]),
        (pool_bytes(0, 28, 72), b"A".to_vec()),
        (pool_bytes(1, 28, 72), pool_bytes(7, 32, 73)),
        (pool_bytes(1, 28, 72), b"B".to_vec()),
        (pool_bytes(2, 28, 72), b"C".to_vec()),
        (pool_bytes(0, 28, 72), b"Z".to_vec()),
    ]
}

fn mk_value(coin: u64, assets: &BTreeMap<AssetId, u64>) -> Value {
    let mut ma = MultiAsset::new();
    for ((p, n), q) in assets {
        ma.set_asset(&ScriptHash::from_bytes(p.clone()).unwrap(), &AssetName::new(n.clone()).unwrap(), &bn(*q));
    }
    Value::new_with_assets(&bn(coin), &ma)
}

fn clip(v: u128) -> u64 {
    v.min(u64::MAX as u128) as u64
}

fn min_ada_bound(cpb: u64, size: usize) -> u128 {
    cpb as u128 * (160 + size as u128)
}

/// generator aid (not oracle): the smallest coin c with c = cpb * (160 + |output with coin c|)
fn aim_min_coin(cpb: u64, mk: &dyn Fn(u64) -> TransactionOutput) -> u64 {
    let mut c = 0u64;
    for _ in 0..6 {
        let size = match catch(|| mk(c).to_bytes().len()) {
            Ok(s) => s,
            Err(_) => return c,
        };
        let b = clip(min_ada_bound(cpb, size));
        if b == c {
            break;
        }
        c = b;
    }
    c
}

// ---------------------------------------------------------------------------------------------
// reading the emitted body

#[derive(Clone, Debug)]
struct RetView {
    raw: Vec<u8>,
    coin: u64,
    assets: AMap,
}

#[derive(Clone, Debug)]
struct BodyView {
    collateral: Vec<(Vec<u8>, u64)>,
    ret: Option<RetView>,
    total: Option<u64>,
    fee: u64,
    via_build_tx: bool,
}

impl BodyView {
    fn render(&self) -> String {
        format!(
            "body{{fee(2)={}, collateral(13)=[{}], return(16)={}, total(17)={}}}",
            self.fee,
            self.collateral.iter().map(|(h, i)| format!("{}#{}", hex::encode(&h[..3.min(h.len())]), i)).collect::<Vec<_>>().join(","),
            match &self.ret {
                None => "absent".to_string(),
                Some(r) => format!("{}{} ({} bytes)", r.coin, render_assets(&r.assets), r.raw.len()),
            },
            match self.total {
                None => "absent".to_string(),
                Some(t) => t.to_string(),
            }
        )
    }
}

fn parse_value(n: &cbor::Node) -> Result<(u64, AMap), String> {
    if let Some(c) = n.as_u64() {
        return Ok((c, AMap::new()));
    }
    let items = n.as_array().ok_or("value is neither uint nor array")?;
    if items.len() != 2 {
        return Err(format!("value array of length {}", items.len()));
    }
    let coin = items[0].as_u64().ok_or("value coin is not a uint")?;
    let mut m = AMap::new();
    for (p, assets) in items[1].as_map().ok_or("multiasset is not a map")? {
        let p = p.as_bytes().ok_or("policy id is not bytes")?.to_vec();
        for (name, q) in assets.as_map().ok_or("assets is not a map")? {
            let name = name.as_bytes().ok_or("asset name is not bytes")?.to_vec();
            let q = q.as_u64().ok_or("asset quantity is not a uint")?;
            *m.entry((p.clone(), name)).or_insert(0) += q as u128;
        }
    }
    Ok((coin, m))
}

fn parse_body(bytes: &[u8], via_build_tx: bool) -> Result<BodyView, String> {
    let doc = cbor::parse_document(bytes).map_err(|e| format!("body bytes are not well-formed CBOR: {}", e))?;
    if doc.as_map().is_none() {
        return Err("body is not a map".into());
    }
    let fee = doc.map_get(2).and_then(|n| n.as_u64()).ok_or("body has no uint fee under key 2")?;
    let mut collateral = Vec::new();
    if let Some(n) = doc.map_get(13) {
        for it in n.untag(258).as_array().ok_or("key 13 is not an array")? {
            let pair = it.as_array().ok_or("collateral input is not an array")?;
            if pair.len() != 2 {
                return Err("collateral input is not a pair".into());
            }
            collateral.push((pair[0].as_bytes().ok_or("collateral tx hash is not bytes")?.to_vec(), pair[1].as_u64().ok_or("collateral index is not a uint")?));
        }
    }
    let ret = match doc.map_get(16) {
        None => None,
        Some(n) => {
            let value_node = match &n.kind {
                cbor::Kind::Array { items, .. } if items.len() >= 2 => &items[1],
                cbor::Kind::Map { .. } => n.map_get(1).ok_or("post-alonzo return output without key 1")?,
                _ => return Err("key 16 is neither an array nor a map".into()),
            };
            let (coin, assets) = parse_value(value_node)?;
            Some(RetView { raw: n.slice(bytes).to_vec(), coin, assets })
        }
    };
    let total = match doc.map_get(17) {
        None => None,
        Some(n) => Some(n.as_u64().ok_or("key 17 is not a uint")?),
    };
    Ok(BodyView { collateral, ret, total, fee, via_build_tx })
}

enum BodyRead {
    Built(BodyView),
    Unbuildable,
    Unparseable(String),
    Panic(PanicInfo),
}

/// body of a clone of the builder (the builder under test is not touched)
fn read_body(tb: &TransactionBuilder, fee_if_unset: u64) -> BodyRead {
    read_body_of(tb.clone(), fee_if_unset)
}

/// the return output in place, read from a clone whose total collateral was removed first: that body is
/// never larger than a later body that still carries the same return output, so whenever the later body
/// fits the size limit this one does too
fn return_in_place(tb: &TransactionBuilder, fee_if_unset: u64) -> Option<Option<Vec<u8>>> {
    let mut c = tb.clone();
    c.remove_total_collateral();
    match read_body_of(c, fee_if_unset) {
        BodyRead::Built(b) => Some(b.ret.map(|r| r.raw)),
        _ => None,
    }
}

fn read_body_of(mut c: TransactionBuilder, fee_if_unset: u64) -> BodyRead {
    if c.get_fee_if_set().is_none() {
        c.set_fee(&bn(fee_if_unset));
    }
    let (bytes, via) = match catch(|| c.build_tx().map(|tx| tx.body().to_bytes())) {
        Ok(Ok(b)) => (b, true),
        Err(p) => return BodyRead::Panic(p),
        Ok(Err(_)) => match catch(|| c.build().map(|b| b.to_bytes())) {
            Ok(Ok(b)) => (b, false),
            Ok(Err(_)) => return BodyRead::Unbuildable,
            Err(p) => return BodyRead::Panic(p),
        },
    };
    match parse_body(&bytes, via) {
        Ok(v) => BodyRead::Built(v),
        Err(e) => BodyRead::Unparseable(format!("{} in {}", e, hex::encode(&bytes))),
    }
}

// ---------------------------------------------------------------------------------------------
// scenario state

struct Scn {
    tb: TransactionBuilder,
    cpb: u64,
    asset_mode: usize,
    universe: Vec<Utxo>,
    cur: Vec<usize>,
    change_addr: Address,
    log: Vec<String>,
    next_utxo: usize,
}

impl Scn {
    fn new_utxo(&mut self, c: &mut Tape) -> usize {
        let i = self.next_utxo;
        self.next_utxo += 1;
        let hash = pool_bytes(i as u8, 32, 74);
        let index = (i as u64) % 3;
        let coin = match c.choose(9) {
            0 => 5_000_000,
            1 => 2_000_000,
            2 => 1_000_000 + c.range_u64(0, 4_000_000),
            3 => c.range_u64(0, 1_200_000),
            4 => 0x1_0000_0000u64 - 1_000_000 + c.range_u64(0, 6_000_000),
            5 => 65_536 + c.range_u64(0, 2_000_000),
            6 => 50_000_000 + c.range_u64(0, 1_000_000_000),
            7 => 10_000_000_000 + c.range_u64(0, 1_000_000),
            _ => c.u64_class(),
        };
        let mut assets = BTreeMap::new();
        let with_assets = match self.asset_mode {
            0 => false,
            1 | 3 => c.bool(),
            _ => true,
        };
        if with_assets {
            let pool = asset_pool();
            let n = 1 + c.choose(3);
            for _ in 0..n {
                let id = pool[if c.chance(12) { 4 } else { c.choose(4) }].clone();
                let q = match (self.asset_mode == 3, c.choose(6)) {
                    (_, 0) => 1,
                    (_, 1) | (false, 2) | (false, 3) => 2 + c.range_u64(0, 1000),
                    (_, 4) => 0x1_0000_0000 + c.range_u64(0, 10),
                    (true, 2) => 0x7FFF_FFFF_FFFF_FFFF,
                    (true, 3) => c.u64_class().max(1),
                    _ => 1_000_000,
                };
                assets.insert(id, q);
            }
        }
        let addr = key_addr(c.choose(4) as u8, c.choose(3));
        let input = TransactionInput::new(&TransactionHash::from_bytes(hash.clone()).unwrap(), index as u32);
        self.universe.push(Utxo { input, hash, index, addr, coin, assets });
        i
    }

    /// installs the current collateral set in the builder; false if the library refuses / panics
    fn install_collateral(&mut self) -> bool {
        let mut ib = TxInputsBuilder::new();
        for i in &self.cur {
            let u = &self.universe[*i];
            match catch(|| ib.add_regular_input(&u.addr, &u.input, &u.value())) {
                Ok(Ok(())) => {}
                _ => return false,
            }
        }
        catch(|| self.tb.set_collateral(&ib)).is_ok()
    }

    /// the scenario's own total of the current collateral set
    fn cur_total(&self) -> (u128, AMap) {
        let mut coin = 0u128;
        let mut m = AMap::new();
        for i in &self.cur {
            let u = &self.universe[*i];
            coin += u.coin as u128;
            for (id, q) in &u.assets {
                *m.entry(id.clone()).or_insert(0) += *q as u128;
            }
        }
        (coin, m)
    }

    fn lookup(&self, hash: &[u8], index: u64) -> Option<&Utxo> {
        self.universe.iter().find(|u| u.hash == hash && u.index == index)
    }
}

struct RetSpec {
    out: TransactionOutput,
    assets: BTreeMap<AssetId, u64>,
    asset_mode: &'static str,
    coin_mode: &'static str,
    desc: String,
}

/// a return output relative to the current collateral: fewer / equal / more / different assets, coin
/// below / at / above its min-ADA bound, around the collateral coin, or from the width classes
fn gen_return(s: &Scn, c: &mut Tape, k_assets: usize, k_coin: usize) -> RetSpec {
    let (ccoin, cassets) = s.cur_total();
    let base: BTreeMap<AssetId, u64> = cassets.iter().map(|(k, q)| (k.clone(), clip(*q))).collect();
    let pool = asset_pool();
    let foreign = pool.iter().rev().find(|id| !base.contains_key(*id)).cloned().unwrap_or((pool_bytes(9, 28, 72), b"F".to_vec()));
    let mut assets = base.clone();
    let asset_mode = match k_assets % 8 {
        0 => "equal",
        1 => {
            assets.clear();
            if base.is_empty() { "equal" } else { "none" }
        }
        2 => {
            if let Some(id) = base.keys().nth(c.choose(base.len().max(1))).cloned() {
                let q = base[&id];
                if q > 1 {
                    assets.insert(id, q - 1 - c.range_u64(0, (q - 2).min(500)));
                    "less-quantity"
                } else {
                    assets.remove(&id);
                    "asset-dropped"
                }
            } else {
                "equal"
            }
        }
        3 => {
            if let Some(id) = base.keys().nth(c.choose(base.len().max(1))).cloned() {
                assets.remove(&id);
                "asset-dropped"
            } else {
                "equal"
            }
        }
        4 => {
            if let Some(id) = base.keys().nth(c.choose(base.len().max(1))).cloned() {
                let q = base[&id];
                if q < u64::MAX {
                    assets.insert(id, q + 1 + c.range_u64(0, (u64::MAX - q - 1).min(1000)));
                    "more-quantity"
                } else {
                    "equal"
                }
            } else {
                assets.insert(foreign.clone(), 1 + c.range_u64(0, 1000));
                "foreign-added"
            }
        }
        5 => {
            assets.insert(foreign.clone(), 1 + c.range_u64(0, 1000));
            "foreign-added"
        }
        6 => {
            if let Some(id) = base.keys().nth(c.choose(base.len().max(1))).cloned() {
                assets.remove(&id);
                assets.insert(foreign.clone(), 1 + c.range_u64(0, 1000));
                "asset-swapped"
            } else {
                assets.insert(foreign.clone(), c.u64_class().max(1));
                "foreign-added"
            }
        }
        _ => {
            // an asset the inputs lack under a policy they DO hold, its name sorting before / after a held name
            // (a containment test that compares the bundles of a policy as ordered maps is fooled by the first kind)
            if let Some(id) = base.keys().nth(c.choose(base.len().max(1))).cloned() {
                let (policy, name) = id.clone();
                let candidates: Vec<Vec<u8>> = vec![Vec::new(), vec![0u8], name[..name.len().saturating_sub(1)].to_vec(), [name.clone(), b"z".to_vec()].concat().into_iter().take(32).collect(), vec![0xffu8; 32]];
                let start = c.choose(candidates.len());
                let mut added = false;
                for k in 0..candidates.len() {
                    let n = candidates[(start + k) % candidates.len()].clone();
                    if !base.contains_key(&(policy.clone(), n.clone())) {
                        assets.insert((policy.clone(), n), 1 + c.range_u64(0, 1000));
                        added = true;
                        break;
                    }
                }
                if added && c.bool() {
                    // ... and more of the held tokens of that policy as well
                    let held: Vec<AssetId> = base.keys().filter(|k| k.0 == policy).cloned().collect();
                    for h in held {
                        let q = base[&h];
                        if q < u64::MAX {
                            assets.insert(h, q + 1);
                        }
                    }
                }
                if added { "sibling-name-added" } else { "equal" }
            } else {
                "equal"
            }
        }
    };
    let addr = key_addr(c.choose(4) as u8, c.choose(3));
    let with_datum = c.chance(24);
    let mk = |coin: u64| -> TransactionOutput {
        let mut o = TransactionOutput::new(&addr, &mk_value(coin, &assets));
        if with_datum {
            o.set_data_hash(&DataHash::from_bytes(pool_bytes(3, 32, 75)).unwrap());
        }
        o
    };
    let at = aim_min_coin(s.cpb, &mk);
    let ccoin64 = clip(ccoin);
    let (coin, coin_mode) = match k_coin % 10 {
        0 => (at, "at-min"),
        1 => (at.saturating_sub(1), "below-min"),
        2 => (at.saturating_add(1 + c.range_u64(0, 2_000_000)), "above-min"),
        3 => (ccoin64, "all-collateral-coin"),
        4 => (ccoin64.saturating_add(1), "above-collateral-coin"),
        5 => {
            let b = T_BOUNDARIES[c.choose(T_BOUNDARIES.len())];
            (ccoin64.saturating_sub(b), "total-on-boundary")
        }
        6 => (c.u64_class(), "width-class"),
        7 => (3_000_000, "3-ada"),
        8 => (ccoin64 / 2, "half"),
        _ => (ccoin64.saturating_sub(1 + c.range_u64(0, 300_000)), "just-below-collateral-coin"),
    };
    let out = mk(coin);
    let desc = format!("[{} {}{}{}]", ["enterprise", "base", "pointer"][addr_kind(&addr)], coin, render_assets_u64(&assets), if with_datum { " +datum-hash" } else { "" });
    RetSpec { out, assets, asset_mode, coin_mode, desc }
}

fn addr_kind(a: &Address) -> usize {
    match a.to_bytes().first().map(|b| b >> 4) {
        Some(6) | Some(7) => 0,
        Some(0..=3) => 1,
        _ => 2,
    }
}

struct TotalSpec {
    total: u64,
    addr: Address,
    mode: &'static str,
    desc: String,
}

fn gen_total(s: &Scn, c: &mut Tape, k_mode: usize) -> TotalSpec {
    let (ccoin, cassets) = s.cur_total();
    let base: BTreeMap<AssetId, u64> = cassets.iter().map(|(k, q)| (k.clone(), clip(*q))).collect();
    let addr = key_addr(c.choose(4) as u8, c.choose(3));
    let mk = |coin: u64| -> TransactionOutput { TransactionOutput::new(&addr, &mk_value(coin, &base)) };
    let at = aim_min_coin(s.cpb, &mk);
    let ccoin64 = clip(ccoin);
    let (total, mode) = match k_mode % 10 {
        0 => (ccoin64, "whole-collateral"),
        1 => (ccoin64.saturating_sub(at), "return-at-min"),
        2 => (ccoin64.saturating_sub(at).saturating_add(1), "return-below-min"),
        3 => (ccoin64.saturating_sub(at).saturating_sub(1 + c.range_u64(0, 2_000_000)), "return-above-min"),
        4 => (T_BOUNDARIES[c.choose(T_BOUNDARIES.len())], "boundary"),
        5 => (c.u64_class(), "width-class"),
        6 => (ccoin64.saturating_add(1), "above-collateral-coin"),
        7 => (0, "zero"),
        8 => (c.u64_class_max(ccoin64), "width-class-within-collateral"),
        _ => (ccoin64 / 2, "half"),
    };
    let desc = format!("total={} return-address={}", total, ["enterprise", "base", "pointer"][addr_kind(&addr)]);
    TotalSpec { total, addr, mode, desc }
}

struct PctSpec {
    pct: u64,
    pct_class: &'static str,
    strategy: CoinSelectionStrategyCIP2,
    utxos: TransactionUnspentOutputs,
    change: Address,
    desc: String,
}

fn gen_pct(s: &Scn, c: &mut Tape, k_pct: usize, k_strategy: usize, k_offered: usize) -> PctSpec {
    let (pct, pct_class) = match k_pct % 10 {
        0 => (150, "150"),
        1 => (0, "0"),
        2 => (100, "100"),
        3 => (1, "1"),
        4 => (99 + 2 * c.choose(2) as u64, "99|101"),
        5 => (1000, "1000"),
        6 | 7 => (c.range_u64(0, 1000), "0..1000"),
        8 => (c.range_u64(100, 400), "100..400"),
        _ => (c.u64_class(), "width-class"),
    };
    let sk = k_strategy % 4;
    let strategy = match sk {
        0 => CoinSelectionStrategyCIP2::LargestFirst,
        1 => CoinSelectionStrategyCIP2::RandomImprove,
        2 => CoinSelectionStrategyCIP2::LargestFirstMultiAsset,
        _ => CoinSelectionStrategyCIP2::RandomImproveMultiAsset,
    };
    let n = [3usize, 1, 2, 4, 5, 0][k_offered % 6];
    let mut utxos = TransactionUnspentOutputs::new();
    let mut shown = Vec::new();
    let pool = asset_pool();
    for i in 0..n {
        let coin = match c.choose(6) {
            0 => 20_000_000,
            1 => 2_000_000 + c.range_u64(0, 20_000_000),
            2 => 1_000_000_000,
            3 => 100_000_000 + c.range_u64(0, 400_000_000),
            4 => 20_000_000_000,
            _ => 800_000 + c.range_u64(0, 600_000),
        };
        let mut assets = BTreeMap::new();
        if sk >= 2 && c.chance(60) {
            assets.insert(pool[c.choose(4)].clone(), 1 + c.range_u64(0, 50));
        }
        let input = TransactionInput::new(&TransactionHash::from_bytes(pool_bytes(100 + i as u8, 32, 74)).unwrap(), i as u32);
        let addr = key_addr(c.choose(4) as u8, c.choose(3));
        shown.push(format!("{}{}", coin, render_assets_u64(&assets)));
        utxos.add(&TransactionUnspentOutput::new(&input, &TransactionOutput::new(&addr, &mk_value(coin, &assets))));
    }
    let change = if c.chance(40) { key_addr(c.choose(4) as u8, c.choose(3)) } else { s.change_addr.clone() };
    let desc = format!("pct={} strategy={} offered=[{}] change-address={}", pct, ["LargestFirst", "RandomImprove", "LargestFirstMultiAsset", "RandomImproveMultiAsset"][sk], shown.join(","), ["enterprise", "base", "pointer"][addr_kind(&change)]);
    PctSpec { pct, pct_class, strategy, utxos, change, desc }
}

fn err_class(msg: &str) -> &'static str {
    if msg.contains("collateral inputs are missing") {
        "collateral-missing"
    } else if msg.contains("cannot contain assets") {
        "total-would-hold-assets"
    } else if msg.contains("Not enough coin to make return") {
        "return-below-min-ada"
    } else if msg.contains("cannot exceed the sum of collateral") {
        "total-exceeds-collateral"
    } else if msg.contains("nderflow") {
        "underflow"
    } else if msg.contains("verflow") {
        "overflow"
    } else if msg.contains("Insufficient") || msg.contains("UTxO Balance Insufficient") || msg.contains("Unable to balance") {
        "insufficient-input"
    } else if msg.contains("calculated before") || msg.contains("explicitly specified") {
        "fee-already-final"
    } else if msg.contains("not supported") || msg.contains("No inputs to add") {
        "selection-unsupported"
    } else if msg.contains("Maximum transaction size") {
        "tx-too-large"
    } else if msg.contains("Not enough ADA leftover") {
        "change-impossible"
    } else {
        "other"
    }
}

#[derive(Clone, Copy, PartialEq, Eq, Debug)]
enum PreOp {
    RawReturn,
    RawTotal,
    RawBoth,
    RemoveReturn,
    RemoveTotal,
    Replace,
    Balance,
    HelperRT,
    HelperTR,
    HelperPct,
}

fn run(ctx: &mut Ctx, tape: &[u8], route: Route) -> CaseResult {
    // The plan header carries every decision that must not starve when the tape is short: first the
    // modes of the helper under test, then the shape of the history, then the configuration. Amounts and
    // the parameters of earlier operations come from the content tape, continued by a pseudo-random
    // stream that is a pure function of the header (all-zero header -> all-zero stream).
    let (plan, rest) = split_plan(tape, 22);
    let mut t = Tape::new(plan);
    // ---- plan
    let final_modes = [t.choose(40), t.choose(40), t.choose(6)];
    let n_col = [1usize, 1, 1, 2, 2, 3, 3, 4, 0][t.choose(9)];
    let asset_mode = t.choose(4);
    let n_pre = t.choose(4);
    const PRE: [PreOp; 13] = [PreOp::RawReturn, PreOp::RawTotal, PreOp::RawReturn, PreOp::RawBoth, PreOp::RemoveReturn, PreOp::RemoveTotal, PreOp::Replace, PreOp::Balance, PreOp::HelperRT, PreOp::HelperTR, PreOp::HelperPct, PreOp::RawReturn, PreOp::Replace];
    let pre_ops: Vec<PreOp> = (0..n_pre).map(|_| PRE[t.choose(PRE.len())]).collect();
    let post_balance = t.bool();
    let cpb = [4310u64, 0, 1, 34_482, 4310, 1000, 4310, 1_000_000, 4310, 4310, 1 << 40, 1 << 58][t.choose(12)];
    let (fee_a, fee_b) = [(44u64, 155_381u64), (0, 0), (1, 0), (500, 1_000_000), (44, 20_000_000), (1, 1)][t.choose(6)];
    let fee_pre = t.choose(7);
    let max_tx_size = [16_384u32, 16_384, 16_384, 1_000_000, 16_384, 16_384, 16_384, 260][t.choose(8)];
    let max_value_size = [5000u32, 5000, 5000, 120][t.choose(4)];
    let n_in = [1usize, 2, 0][t.choose(3)];
    let n_out = [1usize, 0, 2][t.choose(3)];
    let explicit_fee = [170_000u64, 0, 2_000_000, 0xFFFF_FFFF, 0x1_0000_0000, 23][t.choose(6)];
    let prefer_pure_change = t.chance(60);

    let cfg = TransactionBuilderConfigBuilder::new()
        .fee_algo(&LinearFee::new(&bn(fee_a), &bn(fee_b)))
        .coins_per_utxo_byte(&bn(cpb))
        .pool_deposit(&bn(500_000_000))
        .key_deposit(&bn(2_000_000))
        .max_value_size(max_value_size)
        .max_tx_size(max_tx_size)
        .prefer_pure_change(prefer_pure_change)
        .build()
        .map_err(|e| Failure::new("engine/config", format!("{:?}", e)))?;

    let mut content = rest.to_vec();
    content.extend_from_slice(&expand(plan, 360));
    let mut c = Tape::new(&content);
    let mut s = Scn { tb: TransactionBuilder::new(&cfg), cpb, asset_mode, universe: Vec::new(), cur: Vec::new(), change_addr: key_addr(5, 1), log: Vec::new(), next_utxo: 0 };
    s.log.push(format!("config: fee={}x+{} coins_per_utxo_byte={} max_tx_size={} max_value_size={}", fee_a, fee_b, cpb, max_tx_size, max_value_size));

    // ---- ordinary inputs and outputs, so that a fee exists and balancing has something to do
    let mut ordinary = Vec::new();
    for i in 0..n_in {
        let coin = match c.choose(4) {
            0 => 50_000_000,
            1 => 5_000_000 + c.range_u64(0, 50_000_000),
            2 => 1_000_000_000 + c.range_u64(0, 1_000_000),
            _ => 1_500_000 + c.range_u64(0, 1_000_000),
        };
        let mut assets = BTreeMap::new();
        if asset_mode >= 2 && c.chance(40) {
            assets.insert(asset_pool()[c.choose(4)].clone(), 1 + c.range_u64(0, 100));
        }
        let input = TransactionInput::new(&TransactionHash::from_bytes(pool_bytes(200 + i as u8, 32, 74)).unwrap(), i as u32);
        let addr = key_addr(c.choose(4) as u8, c.choose(3));
        let v = mk_value(coin, &assets);
        match catch(|| s.tb.add_regular_input(&addr, &input, &v)) {
            Ok(Ok(())) => ordinary.push(format!("{}{}", coin, render_assets_u64(&assets))),
            _ => {
                ctx.reject();
                return Ok(());
            }
        }
    }
    let mut outs = Vec::new();
    for _ in 0..n_out {
        let addr = key_addr(c.choose(4) as u8, c.choose(3));
        let mk = |coin: u64| TransactionOutput::new(&addr, &mk_value(coin, &BTreeMap::new()));
        let coin = aim_min_coin(cpb, &mk).saturating_add(c.range_u64(0, 3_000_000));
        let o = mk(coin);
        if let Ok(Ok(())) = catch(|| s.tb.add_output(&o)) {
            outs.push(coin);
        }
    }
    s.log.push(format!("inputs=[{}] outputs={:?}", ordinary.join(", "), outs));

    // ---- collateral
    for _ in 0..n_col {
        let i = s.new_utxo(&mut c);
        s.cur.push(i);
    }
    if !s.install_collateral() {
        ctx.reject();
        return Ok(());
    }
    s.log.push(format!("set_collateral([{}])", s.cur.iter().map(|i| s.universe[*i].render()).collect::<Vec<_>>().join(", ")));

    // fees small / large: a floor or an exact fee request ahead of balancing; the exact ones include
    // values that put floor(fee * pct / 100) + 1 next to a CBOR width boundary for pct = 100
    match fee_pre {
        4 => {
            let f = [5_000_000u64, 200_000, 0x1_0000_0000, 100_000_000][c.choose(4)];
            s.tb.set_min_fee(&bn(f));
            s.log.push(format!("set_min_fee({})", f));
        }
        5 | 6 => {
            let f = [300_000u64, 2_000_000, 0, 50_000_000, 22, 23, 254, 255, 65_534, 65_535, 0xFFFF_FFFE, 0xFFFF_FFFF, 2300, 6_553_500][c.choose(14)];
            s.tb.set_fee(&bn(f));
            s.log.push(format!("set_fee({})", f));
        }
        _ => {}
    }

    // the random-improve strategies read this schedule instead of the thread RNG
    let words: Vec<u64> = (0..24).map(|i| fp_mix(fp64(plan), i) ^ fp64(rest)).collect();
    verif_hooks::install_schedule(words, fp64(tape));
    let r = history(ctx, &mut s, &mut c, route, final_modes, &pre_ops, post_balance, explicit_fee);
    let _ = verif_hooks::remove_schedule();
    r
}

/// Ok(Some(result)) = helper returned; Ok(None) = panicked in a place that only rejects
fn balance(s: &mut Scn) -> Option<Result<bool, String>> {
    let a = s.change_addr.clone();
    match catch(|| s.tb.add_change_if_needed(&a)) {
        Ok(r) => {
            let r = r.map_err(|e| format!("{:?}", e));
            s.log.push(format!("add_change_if_needed -> {}", match &r {
                Ok(b) => format!("Ok({})", b),
                Err(e) => format!("Err({})", short(e)),
            }));
            Some(r)
        }
        Err(_) => None,
    }
}

fn rendered(s: &Scn) -> String {
    s.log.join("; ")
}

fn short(e: &str) -> String {
    let mut s: String = e.chars().take(110).collect();
    if e.len() > 110 {
        s.push('…');
    }
    s
}

fn history(ctx: &mut Ctx, s: &mut Scn, c: &mut Tape, route: Route, final_modes: [usize; 3], pre_ops: &[PreOp], post_balance: bool, explicit_fee: u64) -> CaseResult {
    let p = route.p();
    let mut balanced_before = false;
    // what the history itself knows to be in place (outer None = not known); used only when no body can be
    // built right before the helper under test (size limit), and only to name the cause of a failure
    let mut model_ret: Option<Option<Vec<u8>>> = Some(None);
    let mut model_total: Option<Option<u64>> = Some(None);
    for op in pre_ops {
        ctx.label(&format!("{}:pre={:?}", p, op));
        match op {
            PreOp::RawReturn | PreOp::RawBoth => {
                // mostly plain ADA outputs of a few ADA: what a caller would leave behind
                let ka = [1usize, 1, 0, 5][c.choose(4)];
                let kc = [7usize, 2, 0, 6][c.choose(4)];
                let r = gen_return(s, c, ka, kc);
                if catch(|| s.tb.set_collateral_return(&r.out)).is_err() {
                    ctx.reject();
                    return Ok(());
                }
                s.log.push(format!("set_collateral_return({})", r.desc));
                model_ret = catch(|| r.out.to_bytes()).ok().map(Some);
                if *op == PreOp::RawBoth {
                    let v = c.u64_class();
                    s.tb.set_total_collateral(&bn(v));
                    s.log.push(format!("set_total_collateral({})", v));
                    model_total = Some(Some(v));
                }
            }
            PreOp::RawTotal => {
                let v = if c.bool() { clip(s.cur_total().0) } else { c.u64_class() };
                s.tb.set_total_collateral(&bn(v));
                s.log.push(format!("set_total_collateral({})", v));
                model_total = Some(Some(v));
            }
            PreOp::RemoveReturn => {
                s.tb.remove_collateral_return();
                s.log.push("remove_collateral_return()".into());
                model_ret = Some(None);
            }
            PreOp::RemoveTotal => {
                s.tb.remove_total_collateral();
                s.log.push("remove_total_collateral()".into());
                model_total = Some(None);
            }
            PreOp::Replace => {
                // a different set: some of the old UTxOs and / or fresh ones
                let n = [1usize, 2, 1, 3][c.choose(4)];
                let mut next = Vec::new();
                for _ in 0..n {
                    if !s.cur.is_empty() && c.bool() {
                        let i = s.cur[c.choose(s.cur.len())];
                        if !next.contains(&i) {
                            next.push(i);
                            continue;
                        }
                    }
                    let i = s.new_utxo(c);
                    next.push(i);
                }
                s.cur = next;
                if !s.install_collateral() {
                    ctx.reject();
                    return Ok(());
                }
                s.log.push(format!("set_collateral([{}])", s.cur.iter().map(|i| s.universe[*i].render()).collect::<Vec<_>>().join(", ")));
            }
            PreOp::Balance => {
                match balance(s) {
                    None => {
                        ctx.reject();
                        return Ok(());
                    }
                    Some(Ok(_)) => balanced_before = true,
                    Some(Err(_)) => {}
                }
            }
            PreOp::HelperRT => {
                let (ka, kc) = (c.choose(8), c.choose(10));
                let r = gen_return(s, c, ka, kc);
                match catch(|| s.tb.set_collateral_return_and_total(&r.out)) {
                    Ok(res) => {
                        model_ret = None;
                        model_total = None;
                        s.log.push(format!("set_collateral_return_and_total({}) -> {}", r.desc, render_unit(&res)))
                    }
                    Err(_) => {
                        ctx.reject();
                        return Ok(());
                    }
                }
            }
            PreOp::HelperTR => {
                let km = c.choose(10);
                let ts = gen_total(s, c, km);
                match catch(|| s.tb.set_total_collateral_and_return(&bn(ts.total), &ts.addr)) {
                    Ok(res) => {
                        model_ret = None;
                        model_total = None;
                        s.log.push(format!("set_total_collateral_and_return({}) -> {}", ts.desc, render_unit(&res)))
                    }
                    Err(_) => {
                        ctx.reject();
                        return Ok(());
                    }
                }
            }
            PreOp::HelperPct => {
                let (kp, ks, ko) = (c.choose(10), c.choose(4), c.choose(6));
                let ps = gen_pct(s, c, kp, ks, ko);
                let cc = ChangeConfig::new(&ps.change);
                match catch(|| s.tb.add_inputs_from_and_change_with_collateral_return(&ps.utxos, ps.strategy, &cc, &bn(ps.pct))) {
                    Ok(res) => {
                        if res.is_ok() {
                            balanced_before = true;
                        }
                        model_ret = None;
                        model_total = None;
                        s.log.push(format!("add_inputs_from_and_change_with_collateral_return({}) -> {}", ps.desc, render_unit(&res)))
                    }
                    Err(_) => {
                        ctx.reject();
                        return Ok(());
                    }
                }
            }
        }
    }

    // ---- what is in place right before the helper under test
    let pre_fields: Option<(Option<Vec<u8>>, Option<u64>)> = match read_body(&s.tb, explicit_fee) {
        BodyRead::Built(b) => Some((b.ret.map(|r| r.raw), b.total)),
        _ => match (return_in_place(&s.tb, explicit_fee).or(model_ret), model_total) {
            (Some(r), Some(t)) => Some((r, t)),
            (Some(r), None) => Some((r, None)),
            _ => None,
        },
    };
    let (ccoin, cassets) = s.cur_total();
    let collateral_has_assets = !cassets.is_empty();

    // ---- the helper under test
    let mut requested_differs = false;
    let mut pct_used: Option<u64> = None;
    let outcome: Result<Result<(), JsError>, PanicInfo> = match route {
        Route::ReturnAndTotal => {
            let r = gen_return(s, c, final_modes[0], final_modes[1]);
            ctx.label(&format!("rt:return-assets={}", r.asset_mode));
            ctx.label(&format!("rt:return-coin={}", r.coin_mode));
            let want: AMap = r.assets.iter().map(|(k, q)| (k.clone(), *q as u128)).collect();
            requested_differs = want.keys().collect::<Vec<_>>() != cassets.keys().collect::<Vec<_>>();
            let res = catch(|| s.tb.set_collateral_return_and_total(&r.out));
            s.log.push(format!("set_collateral_return_and_total({}) -> {}", r.desc, render_outcome(&res)));
            res
        }
        Route::TotalAndReturn => {
            let ts = gen_total(s, c, final_modes[0]);
            ctx.label(&format!("tr:total={}", ts.mode));
            let res = catch(|| s.tb.set_total_collateral_and_return(&bn(ts.total), &ts.addr));
            s.log.push(format!("set_total_collateral_and_return({}) -> {}", ts.desc, render_outcome(&res)));
            res
        }
        Route::Percentage => {
            let ps = gen_pct(s, c, final_modes[0], final_modes[1], final_modes[2]);
            ctx.label(&format!("pct:percentage={}", ps.pct_class));
            pct_used = Some(ps.pct);
            let cc = ChangeConfig::new(&ps.change);
            let res = catch(|| s.tb.add_inputs_from_and_change_with_collateral_return(&ps.utxos, ps.strategy, &cc, &bn(ps.pct)));
            s.log.push(format!("add_inputs_from_and_change_with_collateral_return({}) -> {}", ps.desc, render_outcome(&res)));
            res
        }
    };
    let res = match outcome {
        Err(pi) => fail!(format!("{}/helper-panicked|{}", route.name(), pi.cause()), "the helper panicked: {} at {}:{}; history: {}", pi.msg, pi.file, pi.line, rendered(s)),
        Ok(r) => r,
    };
    ctx.label(&format!("{}:ncol={}", p, s.cur.len()));

    match res {
        Err(e) => {
            let msg = format!("{:?}", e);
            ctx.label(&format!("{}:final=err:{}", p, err_class(&msg)));
            if route != Route::Percentage {
                return Ok(());
            }
            // a failed attempt of the percentage route leaves neither field set
            match read_body(&s.tb, explicit_fee) {
                BodyRead::Built(b) => {
                    ctx.label("pct:err-path-checked");
                    if b.ret.is_some() || b.total.is_some() {
                        let unchanged = pre_fields.as_ref().map(|(r, t)| *r == b.ret.as_ref().map(|x| x.raw.clone()) && *t == b.total).unwrap_or(false);
                        let sig = if unchanged { "percentage/failed-attempt-leaves-earlier-fields-in-place" } else { "percentage/failed-attempt-leaves-field-set" };
                        fail!(sig, "the percentage helper returned Err({}) but the builder still emits {}; history: {}", short(&msg), b.render(), rendered(s));
                    }
                    if collateral_has_assets {
                        ctx.label("pct:err-path-checked:collateral=assets");
                        let d = rendered(s);
                        ctx.nontrivial(fp64(d.as_bytes()));
                        ctx.sample("percentage:err-path", || d);
                    }
                }
                BodyRead::Unbuildable => ctx.label("pct:err-path-body-unbuildable"),
                BodyRead::Unparseable(e) => fail!("percentage/body-unparseable", "{}; history: {}", e, rendered(s)),
                BodyRead::Panic(pi) => fail!(format!("percentage/build-panicked|{}", pi.cause()), "{} at {}:{}; history: {}", pi.msg, pi.file, pi.line, rendered(s)),
            }
            return Ok(());
        }
        Ok(()) => ctx.label(&format!("{}:final=ok", p)),
    }

    // ---- the other order: balancing after the collateral fields were set
    let fee_known = catch(|| s.tb.get_fee_if_set()).ok().flatten().is_some();
    if route != Route::Percentage {
        if balanced_before {
            ctx.label(&format!("{}:order=balanced-before-helper", p));
        } else if post_balance {
            match balance(s) {
                None => {
                    ctx.reject();
                    return Ok(());
                }
                Some(Ok(_)) => ctx.label(&format!("{}:order=balanced-after-helper", p)),
                Some(Err(_)) => ctx.label(&format!("{}:order=balancing-failed", p)),
            }
        } else {
            ctx.label(&format!("{}:order={}", p, if fee_known { "explicit-fee-earlier" } else { "explicit-fee-after" }));
        }
    }

    // ---- the body
    let body = match read_body(&s.tb, explicit_fee) {
        BodyRead::Built(b) => b,
        BodyRead::Unbuildable => {
            ctx.label(&format!("{}:body-unbuildable", p));
            return Ok(());
        }
        BodyRead::Unparseable(e) => fail!(format!("{}/body-unparseable", route.name()), "{}; history: {}", e, rendered(s)),
        BodyRead::Panic(pi) => fail!(format!("{}/build-panicked|{}", route.name(), pi.cause()), "{} at {}:{}; history: {}", pi.msg, pi.file, pi.line, rendered(s)),
    };
    ctx.label(&format!("{}:checked", p));
    ctx.label(&format!("{}:body-via={}", p, if body.via_build_tx { "build_tx" } else { "build" }));
    let detail = |s: &Scn| -> String { format!("{}; own collateral total = {}{}; history: {}", body.render(), ccoin, render_assets(&cassets), rendered(s)) };

    // C from the scenario's own map, over the outpoints the body names
    let mut c_coin = 0u128;
    let mut c_assets = AMap::new();
    for (h, i) in &body.collateral {
        match s.lookup(h, *i) {
            Some(u) => {
                c_coin += u.coin as u128;
                for (id, q) in &u.assets {
                    *c_assets.entry(id.clone()).or_insert(0) += *q as u128;
                }
            }
            None => fail!(format!("{}/collateral-outpoint-not-from-scenario", route.name()), "{}", detail(s)),
        }
    }
    let total = match body.total {
        Some(t) => t,
        None => fail!(format!("{}/ok-but-total-collateral-absent", route.name()), "{}", detail(s)),
    };
    let (r_coin, r_assets, r_raw) = match &body.ret {
        Some(r) => (r.coin as u128, r.assets.clone(), Some(r.raw.clone())),
        None => (0, AMap::new(), None),
    };
    let mut ids: Vec<AssetId> = c_assets.keys().chain(r_assets.keys()).cloned().collect();
    ids.sort();
    ids.dedup();
    let assets_equal = ids.iter().all(|id| c_assets.get(id).copied().unwrap_or(0) == r_assets.get(id).copied().unwrap_or(0));
    let coin_equal = c_coin == r_coin + total as u128;
    // The two routes that compute the return themselves write no return output when nothing is left
    // (pure-ADA collateral, total = whole collateral coin). A return output that is then still emitted,
    // byte-identical to the one in place before the call, is a leftover, whatever check it trips.
    let leftover_return = route != Route::ReturnAndTotal
        && c_assets.is_empty()
        && total as u128 == c_coin
        && match (&r_raw, &pre_fields) {
            (Some(raw), Some((Some(before), _))) => raw == before,
            _ => false,
        };
    if !(assets_equal && coin_equal) {
        if leftover_return {
            fail!(format!("{}/stale-return-left-in-place", route.name()), "return + total != collateral inputs: the total is the whole collateral, yet the return output that was in place before the helper was called is still emitted: {}", detail(s));
        }
        for id in &ids {
            let cq = c_assets.get(id).copied().unwrap_or(0);
            let rq = r_assets.get(id).copied().unwrap_or(0);
            if rq > cq {
                fail!(format!("{}/return-claims-foreign-assets", route.name()), "asset {}: the return output holds {} but the collateral inputs hold {}: {}", asset_tag(id), rq, cq, detail(s));
            }
            if rq < cq {
                fail!(format!("{}/collateral-asset-not-in-return", route.name()), "asset {}: the collateral inputs hold {} but the return output holds {} (the total is pure lovelace): {}", asset_tag(id), cq, rq, detail(s));
            }
        }
        fail!(format!("{}/coin-not-conserved", route.name()), "collateral coin {} != return coin {} + total {}: {}", c_coin, r_coin, total, detail(s));
    }
    if let Some(r) = &body.ret {
        let need = min_ada_bound(s.cpb, r.raw.len());
        if (r.coin as u128) < need && leftover_return {
            fail!(format!("{}/stale-return-left-in-place", route.name()), "the total is the whole collateral, yet the (valueless, below min-ADA) return output that was in place before the helper was called is still emitted: {}", detail(s));
        }
        ensure!(r.coin as u128 >= need, format!("{}/return-below-min-ada", route.name()), "return coin {} < {} * (160 + {}) = {}: {}", r.coin, s.cpb, r.raw.len(), need, detail(s));
    }
    if let Some(pct) = pct_used {
        let need = (body.fee as u128 * pct as u128 + 99) / 100;
        ensure!(total as u128 >= need, "percentage/total-below-required", "total collateral {} < ceil(fee {} * {} / 100) = {}: {}", total, body.fee, pct, need, detail(s));
        ctx.label(if total as u128 == need { "pct:total=exactly-required" } else { "pct:total=above-required" });
    }

    // ---- distribution
    ctx.label(&format!("{}:checked:collateral={}", p, if collateral_has_assets { "assets" } else { "pure-ada" }));
    ctx.label(&format!("{}:checked:return={}", p, if body.ret.is_some() { "present" } else { "absent" }));
    ctx.label(&format!("{}:checked:total-width={}", p, cbor::min_width(total)));
    let on_boundary = T_BOUNDARIES.contains(&total);
    if on_boundary {
        ctx.label(&format!("{}:checked:total-on-width-boundary", p));
    }
    if requested_differs {
        ctx.label(&format!("{}:checked:return-asset-set-differs", p));
    }
    if let Some((before_ret, before_total)) = &pre_fields {
        if before_ret.is_some() || before_total.is_some() {
            ctx.label(&format!("{}:checked:fields-in-place-before-helper", p));
        }
    }
    if collateral_has_assets || requested_differs || on_boundary {
        let d = rendered(s);
        ctx.nontrivial(fp64(d.as_bytes()));
        ctx.sample(route.name(), || format!("{} => {}", d, body.render()));
    }
    Ok(())
}

fn render_unit(r: &Result<(), JsError>) -> String {
    match r {
        Ok(()) => "Ok".into(),
        Err(e) => format!("Err({})", short(&format!("{:?}", e))),
    }
}

fn render_outcome(r: &Result<Result<(), JsError>, PanicInfo>) -> String {
    match r {
        Ok(r) => render_unit(r),
        Err(p) => format!("panic({})", short(&p.msg)),
    }
}
