//! C12 — signatures verify, derivation commutes, key encodings and encryption round-trip.
//!
//! Seven sub-checks over the public crypto wrappers:
//!   sign    — `PrivateKey::sign` / `PublicKey::verify` for every key kind, with one other message, one other
//!             key and one single-bit change of the signature per case
//!   witness — `make_vkey_witness`, `make_icarus_bootstrap_witness`, `make_daedalus_bootstrap_witness` sign exactly
//!             the 32 hash bytes and carry key, chain code and attributes of their inputs; for an address that
//!             belongs to the key the address root is recomputed from the witness alone (what a ledger does)
//!   derive  — soft BIP32-Ed25519 derivation commutes with `to_public` along whole paths (depth <= 6), a hard
//!             index on the public side is refused
//!   codec   — raw / hex / Bech32 / 128-byte forms of keys and signatures are identities
//!   emip3   — password based encryption round trip; single-bit changes and truncations of the container are
//!             refused (count-bounded: PBKDF2 at 19 162 iterations)
//!   emip3_password — other passwords are refused
//!   emip3_hmac_equivalent — enumeration of the distinct passwords that HMAC-SHA512 cannot tell apart
//!
//! Every library call runs under `catch`; all choices are read from the tape BEFORE the bulk payload bytes
//! so that short tapes still drive all the variety.
use crate::cbor;
use crate::runner::*;
use crate::tape::*;
use cardano_serialization_lib as csl;
use cryptoxide::digest::Digest;
use cryptoxide::mac::Mac;
use csl::{
    decrypt_with_password, encrypt_with_password, make_daedalus_bootstrap_witness, make_icarus_bootstrap_witness,
    make_vkey_witness, Bip32PrivateKey, Bip32PublicKey, BootstrapWitness, ByronAddress, Ed25519Signature,
    LegacyDaedalusPrivateKey, PrivateKey, PublicKey, TransactionHash,
};

pub fn property() -> Property {
    Property {
        id: "C12",
        rule: "tape-decoded keys of every kind (normal from 32-byte seeds; extended from 64 bytes: force3rd-clamped, SHA-512-expanded, and with only bits 255/254 fixed to 0/1; BIP32 roots from 96 clamped bytes and from BIP39 entropy 16..32 bytes + password; children along paths of depth <= 6 mixing soft and hard indices incl. 0, 2^31-1, 2^31, 2^32-1; legacy Daedalus keys from seeds and from raw 96 bytes), messages of 0..300 bytes, 32-byte hashes, Byron addresses (Icarus via the library, Daedalus-style with a derivation-path attribute built by the engine), passwords 1..64 bytes / salt 32 / nonce 12 / plaintext 0..300. Non-trivial = path depth >= 2, or message >= 1 byte (the witness helpers always sign 32 bytes), or a mutated container was submitted; distinct by hash of (key material, path, message / hash / address, mutation positions)",
        assumptions: vec![
            "no independent implementation of Ed25519 / BIP32-Ed25519 is available offline: the oracle is algebraic (verify after sign, rejection of every changed input, private and public derivation agree, decode after encode) and cannot see a primitive that is self-consistently wrong; the repository's literal vectors cover that side".into(),
            "rejections (other message, other key, one flipped signature bit, other password, changed container) are expected with probability 1 - 2^-100 or better; no retry is made".into(),
            "extended and legacy keys whose scalar has bit 255 set or bit 254 clear are outside the domain: no seed derivation produces them. (PrivateKey::from_extended_bytes has no structure check: with bit 255 set cryptoxide's base-point multiplication asserts; the all-zero scalar has the neutral element as public key and its signatures verify for every message.)".into(),
            "two passwords that HMAC-SHA512 maps to the same key (a password and the same password followed by 0x00 bytes; a password longer than 128 bytes and its SHA-512 digest) are, by the letter of the property, 'other passwords': that family is enumerated by the sub-check emip3_hmac_equivalent (every password length 1..64 with one zero byte appended, zero padding to the 128-byte block, long passwords against their digest) under the one signature emip3_hmac_equivalent/other-password-accepted; the random sub-check emip3_password skips such pairs".into(),
            "Bech32 forms are additionally decoded by the engine's own BIP-173 reader and must carry exactly the raw key bytes; hex forms must be the lower-case hex of the raw bytes (narrow signatures codec/bech32-* and codec/hex-* keep these apart from the round-trip identities)".into(),
            "encryption cases are bounded by count (PBKDF2-HMAC-SHA512 at 19 162 iterations, about 30 ms per call in this build profile; 8 calls per emip3 case, 3 per emip3_password case, 2 per emip3_hmac_equivalent case)".into(),
        ],
        subchecks: vec![
            SubCheck { name: "sign", kind: Kind::Tape { quick: 70_000, thorough: 3_500_000, max_len: 560 }, run: sign },
            SubCheck { name: "witness", kind: Kind::Tape { quick: 40_000, thorough: 2_000_000, max_len: 400 }, run: witness },
            SubCheck { name: "derive", kind: Kind::Tape { quick: 50_000, thorough: 2_500_000, max_len: 400 }, run: derive },
            SubCheck { name: "codec", kind: Kind::Tape { quick: 40_000, thorough: 2_000_000, max_len: 400 }, run: codec },
            SubCheck { name: "emip3", kind: Kind::Tape { quick: 256, thorough: 16_000, max_len: 520 }, run: emip3 },
            SubCheck { name: "emip3_password", kind: Kind::Tape { quick: 128, thorough: 6_000, max_len: 520 }, run: emip3_password },
            SubCheck { name: "emip3_hmac_equivalent", kind: Kind::Enum { count: hmac_equivalent_count, make: hmac_equivalent_make, exhaustive_note: "" }, run: emip3_hmac_equivalent },
        ],
        crash_prone: false,
        max_reject_fraction: 0.02,
        required_label_fraction: vec![
            ("derive", "derive:depth>=2", 0.5),
            ("derive", "derive:soft-steps>=2", 0.3),
            ("derive", "derive:hard-refused-on-public-side", 0.9),
            ("sign", "sign:msg>=1", 0.7),
            ("emip3", "emip3:mutated-container-submitted", 0.7),
        ],
    }
}

// ---------------------------------------------------------------------------------------------
// small helpers

fn hx(b: &[u8]) -> String {
    hex::encode(b)
}

/// runs a library call; a panic is a failure `<sub>/panic/<entry point>`
macro_rules! lib {
    ($sub:expr, $entry:expr, $e:expr) => {
        match catch(|| $e) {
            Ok(v) => v,
            Err(p) => {
                return Err(Failure::new(
                    format!("{}/panic/{}", $sub, $entry),
                    format!("{} panicked at {}:{}: {}", $entry, p.file, p.line, p.msg),
                ))
            }
        }
    };
}

#[derive(Clone, Copy, Debug)]
enum Fill {
    Zero,
    Ones,
    Pool(u8),
    Tape,
}

fn fill_mode(t: &mut Tape) -> Fill {
    match t.choose(8) {
        0 => Fill::Zero,
        1 => Fill::Ones,
        2 => Fill::Pool(t.choose(4) as u8),
        _ => Fill::Tape,
    }
}

fn fill(t: &mut Tape, f: Fill, n: usize, domain: u8) -> Vec<u8> {
    match f {
        Fill::Zero => vec![0u8; n],
        Fill::Ones => vec![0xFF; n],
        Fill::Pool(k) => pool_bytes(k, n, domain),
        Fill::Tape => t.bytes(n),
    }
}

fn clamp_force3rd(b: &mut [u8]) {
    b[0] &= 0b1111_1000;
    b[31] &= 0b0001_1111;
    b[31] |= 0b0100_0000;
}

fn sha512(data: &[u8]) -> [u8; 64] {
    let mut h = cryptoxide::sha2::Sha512::new();
    h.input(data);
    let mut out = [0u8; 64];
    h.result(&mut out);
    out
}

fn msg_len(t: &mut Tape) -> usize {
    match t.choose(8) {
        0 => 0,
        1 => 1,
        2 => 32,
        3 => 64,
        4 => t.range(2, 31),
        5 => t.range(33, 299),
        6 => 300,
        _ => t.range(1, 300),
    }
}

fn len_class(n: usize) -> &'static str {
    match n {
        0 => "0",
        1 => "1",
        2..=31 => "2..31",
        32 => "32",
        33..=63 => "33..63",
        64 => "64",
        65..=299 => "65..299",
        _ => "300",
    }
}

// ---------------------------------------------------------------------------------------------
// BIP32 roots and paths

const HARD: u32 = 0x8000_0000;

#[derive(Clone, Copy)]
struct RootPlan {
    bip39: bool,
    fill: Fill,
    ent_len: usize,
    pw_len: usize,
}

fn plan_root(t: &mut Tape) -> RootPlan {
    // BIP39 roots cost a 4096-round PBKDF2 (about 12 ms): one case in 16
    let bip39 = t.choose(16) == 15;
    let fill = fill_mode(t);
    let (ent_len, pw_len) = if bip39 {
        let e = match t.choose(6) {
            0 => 16,
            1 => 20,
            2 => 24,
            3 => 28,
            4 => 32,
            _ => t.range(16, 32),
        };
        let p = match t.choose(4) {
            0 => 0,
            1 => 1,
            2 => 8,
            _ => t.range(0, 32),
        };
        (e, p)
    } else {
        (0, 0)
    };
    RootPlan { bip39, fill, ent_len, pw_len }
}

struct Root {
    key: Bip32PrivateKey,
    desc: String,
    bip39: bool,
}

/// None = the library's constructor refused the clamped bytes (counted as a rejected case)
fn build_root(t: &mut Tape, sub: &str, p: &RootPlan) -> Result<Option<Root>, Failure> {
    if p.bip39 {
        let ent = fill(t, p.fill, p.ent_len, 5);
        let pw = t.bytes(p.pw_len);
        let key = lib!(sub, "Bip32PrivateKey::from_bip39_entropy", Bip32PrivateKey::from_bip39_entropy(&ent, &pw));
        Ok(Some(Root { key, desc: format!("Bip32PrivateKey::from_bip39_entropy(entropy={}, password={})", hx(&ent), hx(&pw)), bip39: true }))
    } else {
        let mut b = fill(t, p.fill, 96, 6);
        clamp_force3rd(&mut b);
        match lib!(sub, "Bip32PrivateKey::from_bytes", Bip32PrivateKey::from_bytes(&b)) {
            Ok(key) => Ok(Some(Root { key, desc: format!("Bip32PrivateKey::from_bytes({})", hx(&b)), bip39: false })),
            Err(_) => Ok(None),
        }
    }
}

fn gen_index(t: &mut Tape, soft_only: bool) -> u32 {
    let hard = !soft_only && t.choose(3) == 2;
    let low = match t.choose(8) {
        0 => 0,
        1 => 1,
        2 => 0x7FFF_FFFF,
        3 => 0x7FFF_FFFE,
        4 => t.range_u64(0, 255) as u32,
        5 => 1852,
        6 => 1815,
        _ => t.range_u64(0, 0x7FFF_FFFF) as u32,
    };
    if hard {
        HARD | low
    } else {
        low
    }
}

/// flavours: soft-only (half of the cases), mixed, CIP-1852 shaped (m/1852'/1815'/a'/role/index)
fn gen_path(t: &mut Tape, min_depth: usize, max_depth: usize) -> Vec<u32> {
    let flavour = t.choose(4);
    let depth = min_depth + t.choose(max_depth - min_depth + 1);
    let mut p = Vec::with_capacity(depth);
    for d in 0..depth {
        let i = match flavour {
            0 | 1 => gen_index(t, true),
            2 => gen_index(t, false),
            _ => match d {
                0 => HARD | 1852,
                1 => HARD | 1815,
                2 => HARD | (t.choose(4) as u32),
                3 => t.choose(3) as u32,
                _ => gen_index(t, true),
            },
        };
        p.push(i);
    }
    p
}

fn path_str(p: &[u32]) -> String {
    let mut s = String::from("m");
    for i in p {
        if i & HARD != 0 {
            s.push_str(&format!("/{}'", i & !HARD));
        } else {
            s.push_str(&format!("/{}", i));
        }
    }
    s
}

fn path_bytes(p: &[u32]) -> Vec<u8> {
    p.iter().flat_map(|i| i.to_le_bytes()).collect()
}

fn index_label(i: u32) -> &'static str {
    match i {
        0 => "0",
        0x7FFF_FFFF => "2^31-1",
        0x8000_0000 => "2^31",
        0xFFFF_FFFF => "2^32-1",
        x if x & HARD == 0 => "other-soft",
        _ => "other-hard",
    }
}

fn derive_private(sub: &str, root: &Bip32PrivateKey, path: &[u32]) -> Result<Bip32PrivateKey, Failure> {
    let mut cur = lib!(sub, "Bip32PrivateKey::from_bytes", Bip32PrivateKey::from_bytes(&root.as_bytes()))
        .map_err(|e| Failure::new(format!("{}/own-bytes-refused/Bip32PrivateKey", sub), format!("from_bytes(as_bytes()) = Err({})", e)))?;
    for i in path {
        cur = lib!(sub, "Bip32PrivateKey::derive", cur.derive(*i));
    }
    Ok(cur)
}

// ---------------------------------------------------------------------------------------------
// private keys of every kind

struct SkPlan {
    kind: usize,
    fill: Fill,
    root: RootPlan,
    path: Vec<u32>,
}

fn plan_sk(t: &mut Tape) -> SkPlan {
    let kind = t.choose(6);
    let fill = fill_mode(t);
    let root = plan_root(t);
    let path = if kind == 5 { gen_path(t, 1, 4) } else { Vec::new() };
    SkPlan { kind, fill, root, path }
}

struct Sk {
    key: PrivateKey,
    /// generator class, for labels
    kind: &'static str,
    /// normal / extended, for signatures
    family: &'static str,
    desc: String,
    canon: Vec<u8>,
}

fn build_sk(t: &mut Tape, sub: &str, p: &SkPlan) -> Result<Option<Sk>, Failure> {
    match p.kind {
        0 => {
            let seed = fill(t, p.fill, 32, 1);
            match lib!(sub, "PrivateKey::from_normal_bytes", PrivateKey::from_normal_bytes(&seed)) {
                Ok(key) => Ok(Some(Sk { key, kind: "normal", family: "normal", desc: format!("PrivateKey::from_normal_bytes({})", hx(&seed)), canon: seed })),
                Err(_) => Ok(None),
            }
        }
        1 | 2 | 3 => {
            let (bytes, kind) = match p.kind {
                1 => {
                    let mut b = fill(t, p.fill, 64, 2);
                    clamp_force3rd(&mut b);
                    (b, "extended:force3rd-clamped")
                }
                2 => {
                    // the RFC 8032 expansion of a 32-byte seed
                    let seed = fill(t, p.fill, 32, 1);
                    let mut b = sha512(&seed).to_vec();
                    b[0] &= 248;
                    b[31] &= 127;
                    b[31] |= 64;
                    (b, "extended:sha512-expanded")
                }
                _ => {
                    // no clamping of the low bits and of bit 253; bit 254 set as in every seed derivation (this
                    // keeps the zero scalar out, whose public key is the neutral element), bit 255 clear
                    let mut b = fill(t, p.fill, 64, 2);
                    b[31] = (b[31] & 0x7F) | 0x40;
                    (b, "extended:unclamped-low-bits")
                }
            };
            match lib!(sub, "PrivateKey::from_extended_bytes", PrivateKey::from_extended_bytes(&bytes)) {
                Ok(key) => Ok(Some(Sk { key, kind, family: "extended", desc: format!("PrivateKey::from_extended_bytes({})", hx(&bytes)), canon: bytes })),
                Err(_) => Ok(None),
            }
        }
        _ => {
            let root = match build_root(t, sub, &p.root)? {
                Some(r) => r,
                None => return Ok(None),
            };
            let child = derive_private(sub, &root.key, &p.path)?;
            let key = lib!(sub, "Bip32PrivateKey::to_raw_key", child.to_raw_key());
            let mut canon = lib!(sub, "Bip32PrivateKey::as_bytes", root.key.as_bytes());
            canon.extend_from_slice(&path_bytes(&p.path));
            let kind = if p.kind == 4 {
                if root.bip39 {
                    "bip32-root:bip39"
                } else {
                    "bip32-root:raw96"
                }
            } else {
                "bip32-child"
            };
            Ok(Some(Sk { key, kind, family: "extended", desc: format!("{}.derive({}).to_raw_key()", root.desc, path_str(&p.path)), canon }))
        }
    }
}

// ---------------------------------------------------------------------------------------------
// sign

fn other_message(t: &mut Tape, msg: &[u8], variant: usize) -> Option<(&'static str, Vec<u8>)> {
    let n = msg.len();
    let mut m = msg.to_vec();
    match variant {
        0 if n >= 1 => {
            let bit = t.choose(n * 8);
            m[bit / 8] ^= 1 << (bit % 8);
            Some(("bit-flip", m))
        }
        1 if n >= 1 => {
            m.pop();
            Some(("drop-last-byte", m))
        }
        2 if n >= 1 => {
            m.remove(0);
            Some(("drop-first-byte", m))
        }
        3 => {
            m.push(t.byte());
            Some(("append-byte", m))
        }
        4 => {
            m.insert(0, t.byte());
            Some(("prepend-byte", m))
        }
        5 if n >= 1 => Some(("hex-text", hx(msg).into_bytes())),
        6 if n >= 1 => Some(("empty", Vec::new())),
        _ => {
            let o = t.bytes(n.max(1));
            if o == msg {
                None
            } else {
                Some(("unrelated", o))
            }
        }
    }
}

fn sign(ctx: &mut Ctx, tape: &[u8]) -> CaseResult {
    const S: &str = "sign";
    let mut t = Tape::new(tape);
    let plan = plan_sk(&mut t);
    let mlen = msg_len(&mut t);
    let mfill = fill_mode(&mut t);
    let neg_msg = t.choose(8);
    let neg_key = t.choose(2);
    let other_fill = fill_mode(&mut t);
    let sig_bit = t.choose(512);
    let pk_bit = t.choose(256);

    let sk = match build_sk(&mut t, S, &plan)? {
        Some(k) => k,
        None => {
            ctx.reject();
            return Ok(());
        }
    };
    let msg = fill(&mut t, mfill, mlen, 3);
    let pk = lib!(S, "PrivateKey::to_public", sk.key.to_public());
    let sig = lib!(S, "PrivateKey::sign", sk.key.sign(&msg));
    let ok = lib!(S, "PublicKey::verify", pk.verify(&msg, &sig));
    ensure!(ok, format!("sign/valid-signature-rejected/{}", sk.family), "key = {}; message = {}; signature = {}; public key = {}: verify returned false", sk.desc, hx(&msg), sig.to_hex(), pk.to_hex());
    ctx.label(&format!("sign:key={}", sk.kind));
    ctx.label(&format!("sign:msg-len={}", len_class(msg.len())));

    // another message
    if let Some((name, m2)) = other_message(&mut t, &msg, neg_msg) {
        if m2 != msg {
            let r = lib!(S, "PublicKey::verify", pk.verify(&m2, &sig));
            ensure!(!r, format!("sign/signature-valid-for-other-message/{}", sk.family), "key = {}; signed message = {}; signature also verifies for {} = {}", sk.desc, hx(&msg), name, hx(&m2));
            ctx.label(&format!("sign:other-message={}", name));
        }
    }
    // another key
    let (kname, pk2) = if neg_key == 0 {
        let mut seed = fill(&mut t, other_fill, 32, 4);
        // keep it apart from a normal key built from the same pattern
        seed[0] ^= 0x5A;
        match lib!(S, "PrivateKey::from_normal_bytes", PrivateKey::from_normal_bytes(&seed)) {
            Ok(k) => ("unrelated-key", Some(lib!(S, "PrivateKey::to_public", k.to_public()))),
            Err(_) => ("unrelated-key", None),
        }
    } else {
        let mut b = lib!(S, "PublicKey::as_bytes", pk.as_bytes());
        b[pk_bit / 8] ^= 1 << (pk_bit % 8);
        ("one-bit-of-key-flipped", lib!(S, "PublicKey::from_bytes", PublicKey::from_bytes(&b)).ok())
    };
    match pk2 {
        Some(pk2) if pk2 != pk => {
            let r = lib!(S, "PublicKey::verify", pk2.verify(&msg, &sig));
            ensure!(!r, format!("sign/signature-valid-under-other-key/{}", sk.family), "key = {}; message = {}; signature verifies under {} {} as well as under {}", sk.desc, hx(&msg), kname, pk2.to_hex(), pk.to_hex());
            ctx.label(&format!("sign:other-key={}", kname));
        }
        _ => ctx.label("sign:other-key=unavailable"),
    }
    // one bit of the signature flipped
    let mut sb = lib!(S, "Ed25519Signature::to_bytes", sig.to_bytes());
    ensure!(sb.len() == 64, "sign/signature-not-64-bytes", "signature of {} bytes", sb.len());
    sb[sig_bit / 8] ^= 1 << (sig_bit % 8);
    match lib!(S, "Ed25519Signature::from_bytes", Ed25519Signature::from_bytes(sb.clone())) {
        Ok(sig2) => {
            let r = lib!(S, "PublicKey::verify", pk.verify(&msg, &sig2));
            ensure!(!r, format!("sign/modified-signature-accepted/{}", sk.family), "key = {}; message = {}; signature {} with bit {} flipped ({}) still verifies", sk.desc, hx(&msg), sig.to_hex(), sig_bit, hx(&sb));
            ctx.label(if sig_bit < 256 { "sign:sig-bit-flipped=R" } else { "sign:sig-bit-flipped=S" });
        }
        Err(_) => ctx.label("sign:sig-bit-flipped=refused-by-from_bytes"),
    }
    if !msg.is_empty() {
        ctx.label("sign:msg>=1");
        let mut c = vec![plan.kind as u8];
        c.extend_from_slice(&sk.canon);
        c.push(0xFF);
        c.extend_from_slice(&msg);
        ctx.nontrivial(fp64(&c));
        ctx.sample(&format!("sign:{}", sk.kind), || format!("{} signs {} bytes {} -> {}; verified under {}", sk.desc, msg.len(), hx(&msg), sig.to_hex(), pk.to_hex()));
    }
    Ok(())
}

// ---------------------------------------------------------------------------------------------
// Byron addresses built by the engine

fn crc32(data: &[u8]) -> u32 {
    let mut crc = 0xFFFF_FFFFu32;
    for b in data {
        crc ^= *b as u32;
        for _ in 0..8 {
            crc = if crc & 1 == 1 { (crc >> 1) ^ 0xEDB8_8320 } else { crc >> 1 };
        }
    }
    !crc
}

fn attributes_cbor(derivation_path: Option<&[u8]>, magic: Option<u32>) -> Vec<u8> {
    let mut e = Vec::new();
    if let Some(d) = derivation_path {
        e.push((cbor::uint(1), cbor::bytes(d)));
    }
    if let Some(m) = magic {
        e.push((cbor::uint(2), cbor::bytes(&cbor::encode(&cbor::uint(m as u64)))));
    }
    cbor::encode(&cbor::map(e))
}

/// Blake2b-224(SHA3-256(cbor [0, [0, xpub], attributes])) — the Byron address root of a public-key address
fn address_root(xpub64: &[u8], attributes: &[u8]) -> [u8; 28] {
    let mut buf = vec![0x83, 0x00, 0x82, 0x00, 0x58, 0x40];
    buf.extend_from_slice(xpub64);
    buf.extend_from_slice(attributes);
    let mut s = cryptoxide::sha3::Sha3_256::new();
    s.input(&buf);
    let mut mid = [0u8; 32];
    s.result(&mut mid);
    let mut b = cryptoxide::blake2b::Blake2b::new(28);
    Digest::input(&mut b, &mid);
    let mut out = [0u8; 28];
    Digest::result(&mut b, &mut out);
    out
}

fn byron_address_bytes(root: &[u8; 28], attributes: &[u8]) -> Vec<u8> {
    let mut inner = vec![0x83, 0x58, 0x1C];
    inner.extend_from_slice(root);
    inner.extend_from_slice(attributes);
    inner.push(0x00);
    let crc = crc32(&inner);
    cbor::encode(&cbor::array(vec![cbor::tag(24, cbor::bytes(&inner)), cbor::uint(crc as u64)]))
}

/// (root, attribute bytes) read back from the bytes of a Byron address with the engine's own reader
fn split_byron(bytes: &[u8]) -> Option<(Vec<u8>, Vec<u8>)> {
    let outer = cbor::parse_document(bytes).ok()?;
    let items = outer.as_array()?;
    let (tag, inner) = items.get(0)?.as_tag()?;
    if tag != 24 {
        return None;
    }
    let inner_bytes = inner.as_bytes()?;
    let doc = cbor::parse_document(inner_bytes).ok()?;
    let parts = doc.as_array()?;
    let root = parts.get(0)?.as_bytes()?.to_vec();
    let attrs = parts.get(1)?.slice(inner_bytes).to_vec();
    Some((root, attrs))
}

fn gen_magic(t: &mut Tape) -> u32 {
    match t.choose(7) {
        0 => 764824073,
        1 => 1,
        2 => 2,
        3 => 0,
        4 => u32::MAX,
        5 => 1097911063,
        _ => t.u32_class(),
    }
}

/// the Daedalus root-key construction (HMAC-SHA512 over "Root Seed Chain n", SHA-512 expansion, legacy clamp)
fn daedalus_from_seed(seed: &[u8]) -> [u8; 96] {
    let mut out = [0u8; 96];
    let mut iter = 1u32;
    loop {
        let mut mac = cryptoxide::hmac::Hmac::new(cryptoxide::sha2::Sha512::new(), seed);
        mac.input(format!("Root Seed Chain {}", iter).as_bytes());
        let mut block = [0u8; 64];
        mac.raw_result(&mut block);
        let ext = sha512(&block[0..32]);
        out[0..64].copy_from_slice(&ext);
        out[0] &= 248;
        out[31] &= 63;
        out[31] |= 64;
        if out[31] & 0x20 == 0 {
            out[64..96].copy_from_slice(&block[32..64]);
            return out;
        }
        iter += 1;
    }
}

// ---------------------------------------------------------------------------------------------
// witness

/// byte strings that are not the hash but that a wrong helper could have signed
fn near_hashes(h: &[u8], bit: usize) -> Vec<(&'static str, Vec<u8>)> {
    let mut v: Vec<(&'static str, Vec<u8>)> = Vec::new();
    v.push(("hex-text-of-hash", hx(h).into_bytes()));
    v.push(("first-31-bytes", h[..31].to_vec()));
    let mut p = h.to_vec();
    p.push(0);
    v.push(("hash-plus-zero-byte", p));
    let mut f = h.to_vec();
    f[bit / 8] ^= 1 << (bit % 8);
    v.push(("one-bit-flipped", f));
    let mut r = h.to_vec();
    r.reverse();
    if r != h {
        v.push(("reversed", r));
    }
    // the CBOR byte string holding the hash
    let mut c = vec![0x58, 0x20];
    c.extend_from_slice(h);
    v.push(("cbor-bytes-of-hash", c));
    v.push(("empty", Vec::new()));
    v
}

fn check_signs_exactly(entry: &str, who: &str, pk: &PublicKey, sig: &Ed25519Signature, h: &[u8], bit: usize) -> CaseResult {
    const S: &str = "witness";
    let ok = lib!(S, "PublicKey::verify", pk.verify(h, sig));
    ensure!(ok, format!("witness/signature-not-over-the-hash/{}", entry), "{}; hash = {}; witness key {}; signature {} does not verify over the 32 hash bytes", who, hx(h), pk.to_hex(), sig.to_hex());
    for (name, m) in near_hashes(h, bit) {
        let r = lib!(S, "PublicKey::verify", pk.verify(&m, sig));
        ensure!(!r, format!("witness/signature-valid-for-other-bytes/{}", entry), "{}; hash = {}; signature {} also verifies over {} = {}", who, hx(h), sig.to_hex(), name, hx(&m));
    }
    Ok(())
}

fn witness(ctx: &mut Ctx, tape: &[u8]) -> CaseResult {
    const S: &str = "witness";
    let mut t = Tape::new(tape);
    let mode = t.choose(3);
    let hfill = fill_mode(&mut t);
    let bit = t.choose(256);
    // plans (all choices before payloads)
    let sk_plan = plan_sk(&mut t);
    let root_plan = plan_root(&mut t);
    let path = gen_path(&mut t, 0, 5);
    let addr_mode = t.choose(4);
    let magic = gen_magic(&mut t);
    let with_magic = t.choose(4) != 0;
    let dp_len = match t.choose(5) {
        0 => 0,
        1 => 20,
        2 => 28,
        3 => 40,
        _ => t.range(1, 64),
    };
    let dd_mode = t.choose(4);
    let dd_fill = fill_mode(&mut t);
    let foreign_plan = plan_root(&mut t);

    let h = fill(&mut t, hfill, 32, 7);
    let tx_hash = match lib!(S, "TransactionHash::from_bytes", TransactionHash::from_bytes(h.clone())) {
        Ok(x) => x,
        Err(_) => {
            ctx.reject();
            return Ok(());
        }
    };

    match mode {
        0 => {
            const E: &str = "make_vkey_witness";
            let sk = match build_sk(&mut t, S, &sk_plan)? {
                Some(k) => k,
                None => {
                    ctx.reject();
                    return Ok(());
                }
            };
            let w = lib!(S, E, make_vkey_witness(&tx_hash, &sk.key));
            let pk = lib!(S, "PrivateKey::to_public", sk.key.to_public());
            let wpk = lib!(S, "Vkeywitness::vkey", w.vkey().public_key());
            ensure!(wpk == pk, format!("witness/wrong-public-key/{}", E), "key = {}; to_public() = {} but the witness carries {}", sk.desc, pk.to_hex(), wpk.to_hex());
            let sig = lib!(S, "Vkeywitness::signature", w.signature());
            check_signs_exactly(E, &format!("key = {}", sk.desc), &pk, &sig, &h, bit)?;
            ctx.label(&format!("witness:vkey:key={}", sk.kind));
            let mut c = vec![0u8, sk_plan.kind as u8];
            c.extend_from_slice(&sk.canon);
            c.extend_from_slice(&h);
            ctx.nontrivial(fp64(&c));
            ctx.sample("witness:vkey", || format!("make_vkey_witness(hash={}, {}) -> vkey {} signature {}", hx(&h), sk.desc, wpk.to_hex(), sig.to_hex()));
        }
        1 => {
            const E: &str = "make_icarus_bootstrap_witness";
            let root = match build_root(&mut t, S, &root_plan)? {
                Some(r) => r,
                None => {
                    ctx.reject();
                    return Ok(());
                }
            };
            let key = derive_private(S, &root.key, &path)?;
            let who = format!("key = {}.derive({})", root.desc, path_str(&path));
            let xpub = lib!(S, "Bip32PrivateKey::to_public", key.to_public());
            let xpub_bytes = lib!(S, "Bip32PublicKey::as_bytes", xpub.as_bytes());
            // the address: the key's own Icarus address, an Icarus address of another key, or a Daedalus-style one
            let (addr, own, addr_kind): (ByronAddress, bool, &str) = match addr_mode {
                0 | 1 => (lib!(S, "ByronAddress::icarus_from_key", ByronAddress::icarus_from_key(&xpub, magic)), true, "own-icarus"),
                2 => {
                    let other = match build_root(&mut t, S, &foreign_plan)? {
                        Some(r) => r,
                        None => {
                            ctx.reject();
                            return Ok(());
                        }
                    };
                    let op = lib!(S, "Bip32PrivateKey::to_public", other.key.to_public());
                    (lib!(S, "ByronAddress::icarus_from_key", ByronAddress::icarus_from_key(&op, magic)), false, "foreign-icarus")
                }
                _ => {
                    let payload = t.bytes(dp_len);
                    let dp = cbor::encode(&cbor::bytes(&payload));
                    let attrs = attributes_cbor(Some(&dp), if with_magic { Some(magic) } else { None });
                    let bytes = byron_address_bytes(&address_root(&xpub_bytes, &attrs), &attrs);
                    match lib!(S, "ByronAddress::from_bytes", ByronAddress::from_bytes(bytes)) {
                        Ok(a) => (a, true, "own-with-derivation-path"),
                        Err(_) => {
                            ctx.reject();
                            return Ok(());
                        }
                    }
                }
            };
            let w = lib!(S, E, make_icarus_bootstrap_witness(&tx_hash, &addr, &key));
            let expect_pk = lib!(S, "Bip32PublicKey::to_raw_key", xpub.to_raw_key());
            let cc = lib!(S, "Bip32PrivateKey::chaincode", key.chaincode());
            let kb = lib!(S, "Bip32PrivateKey::as_bytes", key.as_bytes());
            ensure!(kb.len() == 96 && cc == kb[64..96], "witness/chaincode-accessor-disagrees-with-bytes/Bip32PrivateKey", "{}; chaincode() = {} but as_bytes() = {}", who, hx(&cc), hx(&kb));
            check_bootstrap(ctx, E, &who, &w, &expect_pk, &cc, &xpub_bytes, &addr, own, &h, bit)?;
            ctx.label(&format!("witness:icarus:address={}", addr_kind));
            ctx.label(&format!("witness:icarus:depth={}", path.len()));
            let mut c = vec![1u8];
            c.extend_from_slice(&kb);
            c.extend_from_slice(&h);
            c.extend_from_slice(&lib!(S, "ByronAddress::to_bytes", addr.to_bytes()));
            ctx.nontrivial(fp64(&c));
            ctx.sample(&format!("witness:icarus:{}", addr_kind), || format!("make_icarus_bootstrap_witness(hash={}, address={}, {}) -> vkey {} chain code {} attributes {}", hx(&h), addr.to_base58(), who, w.vkey().public_key().to_hex(), hx(&w.chain_code()), hx(&w.attributes())));
        }
        _ => {
            const E: &str = "make_daedalus_bootstrap_witness";
            let (kbytes, kkind): (Vec<u8>, &str) = match dd_mode {
                0 | 1 => {
                    let seed = fill(&mut t, dd_fill, 32, 8);
                    (daedalus_from_seed(&seed).to_vec(), "seed-derived")
                }
                2 => {
                    let mut b = fill(&mut t, dd_fill, 96, 9);
                    clamp_force3rd(&mut b);
                    (b, "raw96-clamped")
                }
                _ => {
                    let mut b = fill(&mut t, dd_fill, 96, 9);
                    b[31] = (b[31] & 0x7F) | 0x40;
                    (b, "raw96-unclamped-low-bits")
                }
            };
            let key = match lib!(S, "LegacyDaedalusPrivateKey::from_bytes", LegacyDaedalusPrivateKey::from_bytes(&kbytes)) {
                Ok(k) => k,
                Err(_) => {
                    ctx.reject();
                    return Ok(());
                }
            };
            let who = format!("key = LegacyDaedalusPrivateKey::from_bytes({})", hx(&kbytes));
            let mut ext = [0u8; 64];
            ext.copy_from_slice(&kbytes[0..64]);
            let pub32 = match catch(|| cryptoxide::ed25519::extended_to_public(&ext)) {
                Ok(p) => p,
                Err(_) => {
                    ctx.reject();
                    return Ok(());
                }
            };
            let expect_pk = match lib!(S, "PublicKey::from_bytes", PublicKey::from_bytes(&pub32)) {
                Ok(p) => p,
                Err(_) => {
                    ctx.reject();
                    return Ok(());
                }
            };
            let mut xpub_bytes = pub32.to_vec();
            xpub_bytes.extend_from_slice(&kbytes[64..96]);
            let (addr, own, addr_kind): (ByronAddress, bool, &str) = match addr_mode {
                0 | 1 | 3 => {
                    let payload = t.bytes(dp_len);
                    let dp = cbor::encode(&cbor::bytes(&payload));
                    let attrs = attributes_cbor(Some(&dp), if with_magic { Some(magic) } else { None });
                    let bytes = byron_address_bytes(&address_root(&xpub_bytes, &attrs), &attrs);
                    match lib!(S, "ByronAddress::from_bytes", ByronAddress::from_bytes(bytes)) {
                        Ok(a) => (a, true, "own-with-derivation-path"),
                        Err(_) => {
                            ctx.reject();
                            return Ok(());
                        }
                    }
                }
                _ => {
                    let other = match build_root(&mut t, S, &foreign_plan)? {
                        Some(r) => r,
                        None => {
                            ctx.reject();
                            return Ok(());
                        }
                    };
                    let op = lib!(S, "Bip32PrivateKey::to_public", other.key.to_public());
                    (lib!(S, "ByronAddress::icarus_from_key", ByronAddress::icarus_from_key(&op, magic)), false, "foreign-icarus")
                }
            };
            let w = lib!(S, E, make_daedalus_bootstrap_witness(&tx_hash, &addr, &key));
            let cc = lib!(S, "LegacyDaedalusPrivateKey::chaincode", key.chaincode());
            ensure!(cc == kbytes[64..96], "witness/chaincode-accessor-disagrees-with-bytes/LegacyDaedalusPrivateKey", "{}; chaincode() = {}", who, hx(&cc));
            check_bootstrap(ctx, E, &who, &w, &expect_pk, &cc, &xpub_bytes, &addr, own, &h, bit)?;
            ctx.label(&format!("witness:daedalus:key={}", kkind));
            ctx.label(&format!("witness:daedalus:address={}", addr_kind));
            let mut c = vec![2u8];
            c.extend_from_slice(&kbytes);
            c.extend_from_slice(&h);
            c.extend_from_slice(&lib!(S, "ByronAddress::to_bytes", addr.to_bytes()));
            ctx.nontrivial(fp64(&c));
            ctx.sample(&format!("witness:daedalus:{}", kkind), || format!("make_daedalus_bootstrap_witness(hash={}, address={}, {}) -> vkey {} chain code {} attributes {}", hx(&h), addr.to_base58(), who, w.vkey().public_key().to_hex(), hx(&w.chain_code()), hx(&w.attributes())));
        }
    }
    Ok(())
}

#[allow(clippy::too_many_arguments)]
fn check_bootstrap(
    ctx: &mut Ctx,
    entry: &str,
    who: &str,
    w: &BootstrapWitness,
    expect_pk: &PublicKey,
    chain_code: &[u8],
    xpub_bytes: &[u8],
    addr: &ByronAddress,
    own_address: bool,
    h: &[u8],
    bit: usize,
) -> CaseResult {
    const S: &str = "witness";
    let wpk = lib!(S, "BootstrapWitness::vkey", w.vkey().public_key());
    ensure!(&wpk == expect_pk, format!("witness/wrong-public-key/{}", entry), "{}; expected vkey {} but the witness carries {}", who, expect_pk.to_hex(), wpk.to_hex());
    ensure!(xpub_bytes.len() == 64 && wpk.as_bytes() == xpub_bytes[0..32], format!("witness/wrong-public-key/{}", entry), "{}; extended public key {} but the witness carries vkey {}", who, hx(xpub_bytes), wpk.to_hex());
    let wcc = lib!(S, "BootstrapWitness::chain_code", w.chain_code());
    ensure!(wcc == chain_code, format!("witness/wrong-chain-code/{}", entry), "{}; chain code {} but the witness carries {}", who, hx(chain_code), hx(&wcc));
    let wattr = lib!(S, "BootstrapWitness::attributes", w.attributes());
    let aattr = lib!(S, "ByronAddress::attributes", addr.attributes());
    ensure!(wattr == aattr, format!("witness/wrong-attributes/{}", entry), "{}; address attributes {} but the witness carries {}", who, hx(&aattr), hx(&wattr));
    let sig = lib!(S, "BootstrapWitness::signature", w.signature());
    check_signs_exactly(entry, who, &wpk, &sig, h, bit)?;
    // what a ledger does with a bootstrap witness: rebuild the address root from the witness alone
    let abytes = lib!(S, "ByronAddress::to_bytes", addr.to_bytes());
    match split_byron(&abytes) {
        Some((root, attrs_in_address)) => {
            ensure!(wattr == attrs_in_address, format!("witness/attributes-differ-from-address-bytes/{}", entry), "{}; address {} holds attributes {} but the witness carries {}", who, hx(&abytes), hx(&attrs_in_address), hx(&wattr));
            if own_address {
                let mut x = wpk.as_bytes();
                x.extend_from_slice(&wcc);
                let rebuilt = address_root(&x, &wattr);
                ensure!(root == rebuilt, format!("witness/address-root-not-reproduced/{}", entry), "{}; address {} has root {} but vkey|chain code|attributes of the witness hash to {}", who, hx(&abytes), hx(&root), hx(&rebuilt));
                ctx.label("witness:address-root-rebuilt-from-witness");
            }
        }
        None => fail!(format!("witness/address-bytes-unreadable/{}", entry), "{}; ByronAddress::to_bytes() = {} is not [#6.24(bytes [root, attributes, type]), crc]", who, hx(&abytes)),
    }
    Ok(())
}

// ---------------------------------------------------------------------------------------------
// derive

fn derive(ctx: &mut Ctx, tape: &[u8]) -> CaseResult {
    const S: &str = "derive";
    let mut t = Tape::new(tape);
    let root_plan = plan_root(&mut t);
    let path = gen_path(&mut t, 0, 6);
    let final_hard = HARD | gen_index(&mut t, true);
    let mlen = msg_len(&mut t);
    let mfill = fill_mode(&mut t);

    let root = match build_root(&mut t, S, &root_plan)? {
        Some(r) => r,
        None => {
            ctx.reject();
            return Ok(());
        }
    };
    let msg = fill(&mut t, mfill, mlen, 3);
    let root_bytes = lib!(S, "Bip32PrivateKey::as_bytes", root.key.as_bytes());
    let mut prv = derive_private(S, &root.key, &[])?;
    // the public chain is derived on the public side only, from the last hardened step on
    let mut pubk = lib!(S, "Bip32PrivateKey::to_public", prv.to_public());
    let mut soft_run = 0usize;
    let mut longest_soft_run = 0usize;
    let mut hard_refusals = 0u64;
    for (d, i) in path.iter().enumerate() {
        let here = path_str(&path[..d]);
        if i & HARD != 0 {
            match lib!(S, "Bip32PublicKey::derive", pubk.derive(*i)) {
                Err(_) => hard_refusals += 1,
                Ok(k) => fail!("derive/hard-index-accepted-on-public-side", "root = {}; at {} the public key {} accepted the hardened index {} (0x{:08x}) and returned {}", root.desc, here, hx(&pubk.as_bytes()), i & !HARD, i, hx(&k.as_bytes())),
            }
            prv = lib!(S, "Bip32PrivateKey::derive", prv.derive(*i));
            pubk = lib!(S, "Bip32PrivateKey::to_public", prv.to_public());
            soft_run = 0;
        } else {
            let next_prv = lib!(S, "Bip32PrivateKey::derive", prv.derive(*i));
            let next_pub = match lib!(S, "Bip32PublicKey::derive", pubk.derive(*i)) {
                Ok(k) => k,
                Err(e) => fail!("derive/soft-index-refused-on-public-side", "root = {}; at {} the public key refused the soft index {}: {}", root.desc, here, i, e),
            };
            let a = lib!(S, "Bip32PrivateKey::to_public", next_prv.to_public().as_bytes());
            let b = lib!(S, "Bip32PublicKey::as_bytes", next_pub.as_bytes());
            ensure!(a == b, "derive/soft-derivation-does-not-commute", "root = {}; path {} then soft index {}: derive-then-to_public = {} but to_public-then-derive (public side since the last hardened step, {} soft steps) = {}", root.desc, here, i, hx(&a), soft_run + 1, hx(&b));
            prv = next_prv;
            pubk = next_pub;
            soft_run += 1;
            longest_soft_run = longest_soft_run.max(soft_run);
        }
        ctx.label(&format!("derive:index={}", index_label(*i)));
    }
    // a hardened index is refused by whatever public key we ended with
    match lib!(S, "Bip32PublicKey::derive", pubk.derive(final_hard)) {
        Err(_) => hard_refusals += 1,
        Ok(k) => fail!("derive/hard-index-accepted-on-public-side", "root = {}; at {} the public key {} accepted the hardened index {} (0x{:08x}) and returned {}", root.desc, path_str(&path), hx(&pubk.as_bytes()), final_hard & !HARD, final_hard, hx(&k.as_bytes())),
    }
    ctx.label_n("derive:hard-refusals", hard_refusals);
    ctx.label("derive:hard-refused-on-public-side");
    // the publicly derived child verifies what the privately derived child signs
    let raw = lib!(S, "Bip32PrivateKey::to_raw_key", prv.to_raw_key());
    let rawpub = lib!(S, "Bip32PublicKey::to_raw_key", pubk.to_raw_key());
    let sig = lib!(S, "PrivateKey::sign", raw.sign(&msg));
    let ok = lib!(S, "PublicKey::verify", rawpub.verify(&msg, &sig));
    ensure!(ok, "derive/public-child-rejects-private-child-signature", "root = {}; path {}; message {}; signature {} by the private child does not verify under the publicly derived key {}", root.desc, path_str(&path), hx(&msg), sig.to_hex(), rawpub.to_hex());
    let pcc = lib!(S, "Bip32PublicKey::chaincode", pubk.chaincode());
    let scc = lib!(S, "Bip32PrivateKey::chaincode", prv.chaincode());
    ensure!(pcc == scc, "derive/chain-codes-differ", "root = {}; path {}; private child chain code {} but public child chain code {}", root.desc, path_str(&path), hx(&scc), hx(&pcc));

    ctx.label(&format!("derive:depth={}", path.len()));
    ctx.label(if root.bip39 { "derive:root=bip39" } else { "derive:root=raw96" });
    let soft_only = path.iter().all(|i| i & HARD == 0);
    if !path.is_empty() {
        ctx.label(if soft_only { "derive:soft-only-path" } else { "derive:path-with-hard-index" });
    }
    if longest_soft_run >= 2 {
        ctx.label("derive:soft-steps>=2");
    }
    if path.len() >= 2 {
        ctx.label("derive:depth>=2");
    }
    if path.len() >= 2 || !msg.is_empty() {
        let mut c = root_bytes.clone();
        c.extend_from_slice(&path_bytes(&path));
        c.push(0xFF);
        c.extend_from_slice(&msg);
        ctx.nontrivial(fp64(&c));
        ctx.sample(if soft_only { "derive:soft-only" } else { "derive:mixed" }, || format!("{} path {} -> private child public key = publicly derived key = {}", root.desc, path_str(&path), hx(&pubk.as_bytes())));
    }
    Ok(())
}

// ---------------------------------------------------------------------------------------------
// codec

const BECH32_CHARSET: &[u8; 32] = b"qpzry9x8gf2tvdw0s3jn54khce6mua7l";

fn bech32_polymod(values: &[u8]) -> u32 {
    const GEN: [u32; 5] = [0x3b6a57b2, 0x26508e6d, 0x1ea119fa, 0x3d4233dd, 0x2a1462b3];
    let mut chk: u32 = 1;
    for v in values {
        let top = chk >> 25;
        chk = ((chk & 0x01ff_ffff) << 5) ^ (*v as u32);
        for (i, g) in GEN.iter().enumerate() {
            if (top >> i) & 1 == 1 {
                chk ^= g;
            }
        }
    }
    chk
}

/// BIP-173 reader written for this engine (no length limit): (human readable part, payload bytes)
fn bech32_decode(s: &str) -> Result<(String, Vec<u8>), &'static str> {
    if s.bytes().any(|c| c.is_ascii_uppercase()) && s.bytes().any(|c| c.is_ascii_lowercase()) {
        return Err("mixed case");
    }
    let s = s.to_ascii_lowercase();
    let pos = s.rfind('1').ok_or("no separator")?;
    let (hrp, data) = (&s[..pos], &s[pos + 1..]);
    if hrp.is_empty() || data.len() < 6 {
        return Err("empty part");
    }
    let mut values = Vec::with_capacity(data.len());
    for c in data.bytes() {
        match BECH32_CHARSET.iter().position(|x| *x == c) {
            Some(i) => values.push(i as u8),
            None => return Err("character outside the alphabet"),
        }
    }
    let mut chk_in: Vec<u8> = hrp.bytes().map(|c| c >> 5).collect();
    chk_in.push(0);
    chk_in.extend(hrp.bytes().map(|c| c & 31));
    chk_in.extend_from_slice(&values);
    if bech32_polymod(&chk_in) != 1 {
        return Err("checksum");
    }
    let five = &values[..values.len() - 6];
    let mut out = Vec::with_capacity(five.len() * 5 / 8);
    let mut acc: u32 = 0;
    let mut bits = 0;
    for v in five {
        acc = (acc << 5) | *v as u32;
        bits += 5;
        if bits >= 8 {
            bits -= 8;
            out.push((acc >> bits) as u8);
            acc &= (1 << bits) - 1;
        }
    }
    if bits >= 5 || acc != 0 {
        return Err("padding");
    }
    Ok((hrp.to_string(), out))
}

fn check_text_forms(ty: &str, who: &str, raw: &[u8], hex_form: &str, bech: &str) -> CaseResult {
    ensure!(hex_form == hx(raw), format!("codec/hex-is-not-hex-of-raw-bytes/{}", ty), "{}; raw bytes {} but to_hex() = {}", who, hx(raw), hex_form);
    match bech32_decode(bech) {
        Ok((_hrp, payload)) => ensure!(payload == raw, format!("codec/bech32-payload-differs-from-raw-bytes/{}", ty), "{}; raw bytes {} but {} carries {}", who, hx(raw), bech, hx(&payload)),
        Err(why) => fail!(format!("codec/bech32-malformed/{}", ty), "{}; to_bech32() = {} is not Bech32: {}", who, bech, why),
    }
    Ok(())
}

/// `$back` must be `Ok(value)` whose bytes (`$bytes_of`) equal `$raw`
macro_rules! roundtrip {
    ($form:expr, $ty:expr, $who:expr, $raw:expr, $entry:expr, $back:expr, $bytes_of:expr) => {
        match lib!("codec", $entry, $back) {
            Ok(v) => {
                let got: Vec<u8> = lib!("codec", $entry, $bytes_of(&v));
                ensure!(got == $raw, format!("codec/{}-roundtrip-changes-value/{}", $form, $ty), "{}; {} gave back {} for {}", $who, $entry, hx(&got), hx(&$raw));
            }
            Err(e) => fail!(format!("codec/{}-roundtrip-refused/{}", $form, $ty), "{}; {} of the library's own output failed: {}", $who, $entry, e),
        }
    };
}

fn codec(ctx: &mut Ctx, tape: &[u8]) -> CaseResult {
    const S: &str = "codec";
    let mut t = Tape::new(tape);
    let which = t.choose(5);
    let sk_plan = plan_sk(&mut t);
    let root_plan = plan_root(&mut t);
    let path = gen_path(&mut t, 0, 6);
    let mlen = msg_len(&mut t);
    let mfill = fill_mode(&mut t);
    let dd_fill = fill_mode(&mut t);

    match which {
        0 | 1 => {
            // PrivateKey (normal or extended), its PublicKey and a signature
            let sk = match build_sk(&mut t, S, &sk_plan)? {
                Some(k) => k,
                None => {
                    ctx.reject();
                    return Ok(());
                }
            };
            let msg = fill(&mut t, mfill, mlen, 3);
            let ty = if sk.family == "normal" { "PrivateKey:normal" } else { "PrivateKey:extended" };
            let raw = lib!(S, "PrivateKey::as_bytes", sk.key.as_bytes());
            let want_len = if sk.family == "normal" { 32 } else { 64 };
            ensure!(raw.len() == want_len, format!("codec/raw-length/{}", ty), "{}; as_bytes() has {} bytes", sk.desc, raw.len());
            let hex_form = lib!(S, "PrivateKey::to_hex", sk.key.to_hex());
            let bech = lib!(S, "PrivateKey::to_bech32", sk.key.to_bech32());
            check_text_forms(ty, &sk.desc, &raw, &hex_form, &bech)?;
            if sk.family == "normal" {
                roundtrip!("bytes", ty, sk.desc, raw, "PrivateKey::from_normal_bytes", PrivateKey::from_normal_bytes(&raw), |k: &PrivateKey| k.as_bytes());
            } else {
                roundtrip!("bytes", ty, sk.desc, raw, "PrivateKey::from_extended_bytes", PrivateKey::from_extended_bytes(&raw), |k: &PrivateKey| k.as_bytes());
            }
            roundtrip!("hex", ty, sk.desc, raw, "PrivateKey::from_hex", PrivateKey::from_hex(&hex_form), |k: &PrivateKey| k.as_bytes());
            roundtrip!("bech32", ty, sk.desc, raw, "PrivateKey::from_bech32", PrivateKey::from_bech32(&bech), |k: &PrivateKey| k.as_bytes());
            // the decoded key is the same key: same public key
            let pk = lib!(S, "PrivateKey::to_public", sk.key.to_public());
            for (form, back) in [("hex", lib!(S, "PrivateKey::from_hex", PrivateKey::from_hex(&hex_form))), ("bech32", lib!(S, "PrivateKey::from_bech32", PrivateKey::from_bech32(&bech)))] {
                if let Ok(k) = back {
                    let p2 = lib!(S, "PrivateKey::to_public", k.to_public());
                    ensure!(p2 == pk, format!("codec/{}-roundtrip-changes-key-kind/{}", form, ty), "{}; public key {} before, {} after the {} round trip", sk.desc, pk.to_hex(), p2.to_hex(), form);
                }
            }
            // PublicKey
            let praw = lib!(S, "PublicKey::as_bytes", pk.as_bytes());
            ensure!(praw.len() == 32, "codec/raw-length/PublicKey", "{}; public key of {} bytes", sk.desc, praw.len());
            let phex = lib!(S, "PublicKey::to_hex", pk.to_hex());
            let pbech = lib!(S, "PublicKey::to_bech32", pk.to_bech32());
            let pwho = format!("public key of {}", sk.desc);
            check_text_forms("PublicKey", &pwho, &praw, &phex, &pbech)?;
            roundtrip!("bytes", "PublicKey", pwho, praw, "PublicKey::from_bytes", PublicKey::from_bytes(&praw), |k: &PublicKey| k.as_bytes());
            roundtrip!("hex", "PublicKey", pwho, praw, "PublicKey::from_hex", PublicKey::from_hex(&phex), |k: &PublicKey| k.as_bytes());
            roundtrip!("bech32", "PublicKey", pwho, praw, "PublicKey::from_bech32", PublicKey::from_bech32(&pbech), |k: &PublicKey| k.as_bytes());
            // Ed25519Signature
            let sig = lib!(S, "PrivateKey::sign", sk.key.sign(&msg));
            let sraw = lib!(S, "Ed25519Signature::to_bytes", sig.to_bytes());
            ensure!(sraw.len() == 64, "codec/raw-length/Ed25519Signature", "{}; signature of {} bytes", sk.desc, sraw.len());
            let shex = lib!(S, "Ed25519Signature::to_hex", sig.to_hex());
            let sbech = lib!(S, "Ed25519Signature::to_bech32", sig.to_bech32());
            let swho = format!("signature of {} over {}", sk.desc, hx(&msg));
            check_text_forms("Ed25519Signature", &swho, &sraw, &shex, &sbech)?;
            roundtrip!("bytes", "Ed25519Signature", swho, sraw, "Ed25519Signature::from_bytes", Ed25519Signature::from_bytes(sraw.clone()), |k: &Ed25519Signature| k.to_bytes());
            roundtrip!("hex", "Ed25519Signature", swho, sraw, "Ed25519Signature::from_hex", Ed25519Signature::from_hex(&shex), |k: &Ed25519Signature| k.to_bytes());
            roundtrip!("bech32", "Ed25519Signature", swho, sraw, "Ed25519Signature::from_bech32", Ed25519Signature::from_bech32(&sbech), |k: &Ed25519Signature| k.to_bytes());
            if let Ok(s2) = lib!(S, "Ed25519Signature::from_bech32", Ed25519Signature::from_bech32(&sbech)) {
                ensure!(s2 == sig, "codec/bech32-roundtrip-changes-value/Ed25519Signature", "{}; decoded signature differs by ==", swho);
                let ok = lib!(S, "PublicKey::verify", pk.verify(&msg, &s2));
                ensure!(ok, "codec/decoded-signature-no-longer-verifies", "{}; {} decoded from {} does not verify", swho, s2.to_hex(), sbech);
            }
            ctx.label(&format!("codec:{}", ty));
            ctx.label("codec:PublicKey");
            ctx.label("codec:Ed25519Signature");
            ctx.label(&format!("codec:key={}", sk.kind));
            if !msg.is_empty() || sk_plan.path.len() >= 2 {
                let mut c = vec![0u8, sk_plan.kind as u8];
                c.extend_from_slice(&sk.canon);
                c.push(0xFF);
                c.extend_from_slice(&msg);
                ctx.nontrivial(fp64(&c));
                ctx.sample(&format!("codec:{}", ty), || format!("{} <-> {} <-> {}; public {}; signature {}", sk.desc, hex_form, bech, pbech, sbech));
            }
        }
        2 | 3 => {
            // Bip32PrivateKey / Bip32PublicKey along a path
            let root = match build_root(&mut t, S, &root_plan)? {
                Some(r) => r,
                None => {
                    ctx.reject();
                    return Ok(());
                }
            };
            let key = derive_private(S, &root.key, &path)?;
            let who = format!("{}.derive({})", root.desc, path_str(&path));
            let raw = lib!(S, "Bip32PrivateKey::as_bytes", key.as_bytes());
            ensure!(raw.len() == 96, "codec/raw-length/Bip32PrivateKey", "{}; as_bytes() has {} bytes", who, raw.len());
            let hex_form = lib!(S, "Bip32PrivateKey::to_hex", key.to_hex());
            let bech = lib!(S, "Bip32PrivateKey::to_bech32", key.to_bech32());
            check_text_forms("Bip32PrivateKey", &who, &raw, &hex_form, &bech)?;
            roundtrip!("bytes", "Bip32PrivateKey", who, raw, "Bip32PrivateKey::from_bytes", Bip32PrivateKey::from_bytes(&raw), |k: &Bip32PrivateKey| k.as_bytes());
            roundtrip!("hex", "Bip32PrivateKey", who, raw, "Bip32PrivateKey::from_hex", Bip32PrivateKey::from_hex(&hex_form), |k: &Bip32PrivateKey| k.as_bytes());
            roundtrip!("bech32", "Bip32PrivateKey", who, raw, "Bip32PrivateKey::from_bech32", Bip32PrivateKey::from_bech32(&bech), |k: &Bip32PrivateKey| k.as_bytes());
            // 128-byte form: prv | pub | chain code
            let x128 = lib!(S, "Bip32PrivateKey::to_128_xprv", key.to_128_xprv());
            ensure!(x128.len() == 128, "codec/xprv128-length", "{}; to_128_xprv() has {} bytes", who, x128.len());
            roundtrip!("xprv128", "Bip32PrivateKey", who, raw, "Bip32PrivateKey::from_128_xprv", Bip32PrivateKey::from_128_xprv(&x128), |k: &Bip32PrivateKey| k.as_bytes());
            ensure!(x128[0..64] == raw[0..64], "codec/xprv128-wrong-private-part", "{}; 96-byte form {} but 128-byte form {}", who, hx(&raw), hx(&x128));
            ensure!(x128[96..128] == raw[64..96], "codec/xprv128-wrong-chain-code", "{}; 96-byte form {} but 128-byte form {}", who, hx(&raw), hx(&x128));
            let xpub = lib!(S, "Bip32PrivateKey::to_public", key.to_public());
            let xraw = lib!(S, "Bip32PublicKey::as_bytes", xpub.as_bytes());
            ensure!(xraw.len() == 64, "codec/raw-length/Bip32PublicKey", "{}; public as_bytes() has {} bytes", who, xraw.len());
            // the embedded public key is the key that verifies what the private part signs
            let msg = fill(&mut t, mfill, mlen, 3);
            let embedded = match lib!(S, "PublicKey::from_bytes", PublicKey::from_bytes(&x128[64..96])) {
                Ok(p) => p,
                Err(e) => fail!("codec/xprv128-wrong-public-key", "{}; bytes 64..96 of {} are not a public key: {}", who, hx(&x128), e),
            };
            ensure!(x128[64..96] == xraw[0..32], "codec/xprv128-wrong-public-key", "{}; to_public() = {} but the 128-byte form {} embeds {}", who, hx(&xraw), hx(&x128), hx(&x128[64..96]));
            let signer = match lib!(S, "PrivateKey::from_extended_bytes", PrivateKey::from_extended_bytes(&x128[0..64])) {
                Ok(k) => k,
                Err(e) => fail!("codec/xprv128-wrong-private-part", "{}; bytes 0..64 of the 128-byte form are refused as an extended key: {}", who, e),
            };
            let sig = lib!(S, "PrivateKey::sign", signer.sign(&msg));
            let ok = lib!(S, "PublicKey::verify", embedded.verify(&msg, &sig));
            ensure!(ok, "codec/xprv128-wrong-public-key", "{}; the public key embedded in {} does not verify a signature made with the private part", who, hx(&x128));
            ensure!(raw[64..96] == xraw[32..64], "codec/public-key-chain-code-differs", "{}; private {} public {}", who, hx(&raw), hx(&xraw));
            // Bip32PublicKey
            let xhex = lib!(S, "Bip32PublicKey::to_hex", xpub.to_hex());
            let xbech = lib!(S, "Bip32PublicKey::to_bech32", xpub.to_bech32());
            let xwho = format!("public key of {}", who);
            check_text_forms("Bip32PublicKey", &xwho, &xraw, &xhex, &xbech)?;
            roundtrip!("bytes", "Bip32PublicKey", xwho, xraw, "Bip32PublicKey::from_bytes", Bip32PublicKey::from_bytes(&xraw), |k: &Bip32PublicKey| k.as_bytes());
            roundtrip!("hex", "Bip32PublicKey", xwho, xraw, "Bip32PublicKey::from_hex", Bip32PublicKey::from_hex(&xhex), |k: &Bip32PublicKey| k.as_bytes());
            roundtrip!("bech32", "Bip32PublicKey", xwho, xraw, "Bip32PublicKey::from_bech32", Bip32PublicKey::from_bech32(&xbech), |k: &Bip32PublicKey| k.as_bytes());
            ctx.label("codec:Bip32PrivateKey");
            ctx.label("codec:Bip32PublicKey");
            ctx.label("codec:xprv128");
            ctx.label(&format!("codec:bip32-depth={}", path.len()));
            if path.len() >= 2 || !msg.is_empty() {
                let mut c = vec![1u8];
                c.extend_from_slice(&lib!(S, "Bip32PrivateKey::as_bytes", root.key.as_bytes()));
                c.extend_from_slice(&path_bytes(&path));
                c.push(0xFF);
                c.extend_from_slice(&msg);
                ctx.nontrivial(fp64(&c));
                ctx.sample("codec:Bip32", || format!("{} <-> {} <-> 128-byte {}; public {}", who, bech, hx(&x128), xbech));
            }
        }
        _ => {
            // LegacyDaedalusPrivateKey: raw bytes only
            let seed = fill(&mut t, dd_fill, 32, 8);
            let bytes = if sk_plan.kind % 2 == 0 {
                daedalus_from_seed(&seed).to_vec()
            } else {
                let mut b = fill(&mut t, dd_fill, 96, 9);
                b[31] = (b[31] & 0x7F) | 0x40;
                b
            };
            let who = format!("LegacyDaedalusPrivateKey::from_bytes({})", hx(&bytes));
            let key = match lib!(S, "LegacyDaedalusPrivateKey::from_bytes", LegacyDaedalusPrivateKey::from_bytes(&bytes)) {
                Ok(k) => k,
                Err(_) => {
                    ctx.reject();
                    return Ok(());
                }
            };
            let raw = lib!(S, "LegacyDaedalusPrivateKey::as_bytes", key.as_bytes());
            ensure!(raw.len() == 96, "codec/raw-length/LegacyDaedalusPrivateKey", "{}; as_bytes() has {} bytes", who, raw.len());
            roundtrip!("bytes", "LegacyDaedalusPrivateKey", who, raw, "LegacyDaedalusPrivateKey::from_bytes", LegacyDaedalusPrivateKey::from_bytes(&raw), |k: &LegacyDaedalusPrivateKey| k.as_bytes());
            ctx.label("codec:LegacyDaedalusPrivateKey");
            // neither a path nor a message is involved: evaluated, but trivial by the stated rule
            ctx.sample("codec:LegacyDaedalusPrivateKey", || format!("{} <-> {}", who, hx(&raw)));
        }
    }
    Ok(())
}

// ---------------------------------------------------------------------------------------------
// emip3

/// HMAC pads keys of at most one block (128 bytes for SHA-512) with zeros and replaces longer keys by their digest
fn hmac_key_block(pw: &[u8]) -> [u8; 128] {
    let mut k = [0u8; 128];
    if pw.len() <= 128 {
        k[..pw.len()].copy_from_slice(pw);
    } else {
        k[..64].copy_from_slice(&sha512(pw));
    }
    k
}

fn region(pos_byte: usize) -> &'static str {
    match pos_byte {
        0..=31 => "salt",
        32..=43 => "nonce",
        44..=59 => "tag",
        _ => "ciphertext",
    }
}

struct Emip3Input {
    pw: Vec<u8>,
    salt: Vec<u8>,
    nonce: Vec<u8>,
    pt: Vec<u8>,
}

impl Emip3Input {
    fn describe(&self) -> String {
        format!("password = {}; salt = {}; nonce = {}; plaintext ({} bytes) = {}", hx(&self.pw), hx(&self.salt), hx(&self.nonce), self.pt.len(), hx(&self.pt))
    }
    fn canon(&self) -> Vec<u8> {
        let mut c = Vec::new();
        for part in [&self.pw, &self.salt, &self.nonce, &self.pt] {
            c.extend_from_slice(part);
            c.push(0xFF);
        }
        c
    }
}

/// (password length, plaintext length); the plaintext class is the first tape byte. `empty_first` puts the empty
/// plaintext on choice 0 (so that the simplest tape is the boundary case), otherwise on choice 1.
fn emip3_lengths(t: &mut Tape, empty_first: bool) -> (usize, usize) {
    let k = t.choose(10);
    let k = if empty_first { k } else { [1, 0, 2, 3, 4, 5, 6, 7, 8, 9][k] };
    let pt_len = match k {
        0 => 0,
        1 => 1,
        2 => 63,
        3 => 64,
        4 => 65,
        5 => 300,
        6 => t.range(2, 62),
        _ => t.range(1, 300),
    };
    let pw_len = match t.choose(6) {
        0 => 1,
        1 => 64,
        2 => t.range(2, 8),
        3 => t.range(9, 63),
        4 => 63,
        _ => t.range(1, 64),
    };
    (pw_len, pt_len)
}

fn emip3_input(t: &mut Tape, pw_len: usize, pt_len: usize, fills: [Fill; 4]) -> Emip3Input {
    let mut pw = fill(t, fills[0], pw_len, 10);
    if pw.iter().all(|b| *b == 0) {
        // an all-zero password is HMAC-equivalent to every other all-zero password and to the empty one
        pw[0] = 0x70;
    }
    let salt = fill(t, fills[1], 32, 11);
    let nonce = fill(t, fills[2], 12, 12);
    let pt = fill(t, fills[3], pt_len, 13);
    Emip3Input { pw, salt, nonce, pt }
}

/// encrypts; the container must be hex of salt 32 + nonce 12 + tag 16 + plaintext length bytes
fn emip3_encrypt(sub: &str, i: &Emip3Input) -> Result<(String, Vec<u8>), Failure> {
    let enc = lib!(sub, "encrypt_with_password", encrypt_with_password(&hx(&i.pw), &hx(&i.salt), &hx(&i.nonce), &hx(&i.pt)));
    let container_hex = match enc {
        Ok(c) => c,
        Err(e) => return Err(Failure::new(format!("{}/encrypt-refused", sub), format!("{}: encrypt_with_password = Err({})", i.describe(), e))),
    };
    let container = match hex::decode(&container_hex) {
        Ok(c) => c,
        Err(_) => return Err(Failure::new(format!("{}/container-not-hex", sub), format!("{}: container {:?}", i.describe(), container_hex))),
    };
    if container.len() != 60 + i.pt.len() {
        return Err(Failure::new(format!("{}/container-length", sub), format!("{}: container of {} bytes, expected salt 32 + nonce 12 + tag 16 + {} = {}", i.describe(), container.len(), i.pt.len(), 60 + i.pt.len())));
    }
    Ok((container_hex, container))
}

/// round trip under the right password; every single-bit change and every truncation of the container is refused
fn emip3(ctx: &mut Ctx, tape: &[u8]) -> CaseResult {
    const S: &str = "emip3";
    let mut t = Tape::new(tape);
    let (pw_len, pt_len) = emip3_lengths(&mut t, true);
    let fills = [fill_mode(&mut t), fill_mode(&mut t), fill_mode(&mut t), fill_mode(&mut t)];
    let total = 60 + pt_len;
    // one bit in each region, plus one anywhere
    let salt_bit = t.choose(32 * 8);
    let nonce_bit = 32 * 8 + t.choose(12 * 8);
    let tag_bit = 44 * 8 + t.choose(16 * 8);
    let ct_bit = if pt_len > 0 { Some(60 * 8 + t.choose(pt_len * 8)) } else { None };
    let any_bit = t.choose(total * 8);
    let trunc_variant = t.choose(4);
    let trunc_k = 1 + t.choose(total - 1);
    let input = emip3_input(&mut t, pw_len, pt_len, fills);
    let (container_hex, container) = emip3_encrypt(S, &input)?;
    let pw_hex = hx(&input.pw);
    ctx.label(&format!("emip3:plaintext-len={}", len_class(input.pt.len())));
    ctx.label(&format!("emip3:password-len={}", len_class(input.pw.len())));

    // the right password
    match lib!(S, "decrypt_with_password", decrypt_with_password(&pw_hex, &container_hex)) {
        Ok(s) => {
            let back = hex::decode(&s).ok();
            ensure!(back.as_deref() == Some(&input.pt[..]), "emip3/roundtrip-wrong-plaintext", "{}: container = {}; decrypt returned {:?}", input.describe(), container_hex, s);
        }
        Err(e) => {
            if input.pt.is_empty() && e.to_string() == "Missing input data" {
                fail!("emip3/empty-plaintext-not-decryptable", "{}: container = {} ({} bytes); decrypt_with_password under the same password = Err({})", input.describe(), container_hex, container.len(), e)
            }
            fail!("emip3/roundtrip-error", "{}: container = {}; decrypt_with_password under the same password = Err({})", input.describe(), container_hex, e)
        }
    }

    // single-bit changes of the container
    let mut positions = vec![salt_bit, nonce_bit, tag_bit, any_bit];
    if let Some(b) = ct_bit {
        positions.push(b);
    }
    for bit in &positions {
        let mut c = container.clone();
        c[bit / 8] ^= 1 << (bit % 8);
        if let Ok(s) = lib!(S, "decrypt_with_password", decrypt_with_password(&pw_hex, &hx(&c))) {
            fail!("emip3/modified-container-accepted", "{}: container = {}; with bit {} flipped (byte {}, {}) decrypt returned Ok({:?})", input.describe(), container_hex, bit, bit / 8, region(bit / 8), s)
        }
        ctx.label(&format!("emip3:bit-flipped-in={}", region(bit / 8)));
    }
    ctx.label("emip3:mutated-container-submitted");

    // truncation
    let (tname, truncated): (&str, String) = match trunc_variant {
        0 => ("last-byte-dropped", hx(&container[..total - 1])),
        1 => ("last-hex-digit-dropped", container_hex[..container_hex.len() - 1].to_string()),
        2 => ("first-byte-dropped", hx(&container[1..])),
        _ => ("tail-dropped", hx(&container[..total - trunc_k])),
    };
    if let Ok(s) = lib!(S, "decrypt_with_password", decrypt_with_password(&pw_hex, &truncated)) {
        fail!("emip3/truncated-container-accepted", "{}: container = {}; truncated ({}) to {} decrypt returned Ok({:?})", input.describe(), container_hex, tname, truncated, s)
    }
    ctx.label(&format!("emip3:truncation={}", tname));

    let mut c = input.canon();
    for b in &positions {
        c.extend_from_slice(&(*b as u32).to_le_bytes());
    }
    c.push(trunc_variant as u8);
    ctx.nontrivial(fp64(&c));
    ctx.sample("emip3", || format!("{} -> container {}; decrypts back; refused with bit {:?} flipped and with {}", input.describe(), container_hex, positions, tname));
    Ok(())
}

/// every other password is refused (kept apart from `emip3` so that a case costs 3-4 key derivations, not 9)
fn emip3_password(ctx: &mut Ctx, tape: &[u8]) -> CaseResult {
    const S: &str = "emip3_password";
    let mut t = Tape::new(tape);
    let (pw_len, pt_len) = emip3_lengths(&mut t, false);
    let fills = [fill_mode(&mut t), fill_mode(&mut t), fill_mode(&mut t), fill_mode(&mut t)];
    let second = t.choose(5);
    let pw_bit = t.choose(pw_len * 8);
    let appended = t.byte() | 1;
    let input = emip3_input(&mut t, pw_len, pt_len, fills);
    let (container_hex, _container) = emip3_encrypt(S, &input)?;
    let pw = &input.pw;
    ctx.label(&format!("emip3_password:password-len={}", len_class(pw.len())));
    ctx.label(&format!("emip3_password:plaintext-len={}", len_class(input.pt.len())));

    let mut others: Vec<(&str, Vec<u8>)> = Vec::new();
    let mut p = pw.clone();
    p[pw_bit / 8] ^= 1 << (pw_bit % 8);
    others.push(("one-bit-flipped", p));
    match second {
        0 if pw.len() >= 2 => {
            let mut p = pw.clone();
            p.pop();
            others.push(("last-byte-dropped", p));
        }
        1 => {
            let mut p = pw.clone();
            p.push(appended);
            others.push(("nonzero-byte-appended", p));
        }
        2 => others.push(("empty", Vec::new())),
        3 => {
            let mut p = pw.clone();
            p.reverse();
            others.push(("reversed", p));
        }
        _ => others.push(("unrelated", t.bytes(pw.len()))),
    }
    let mut tried: Vec<String> = Vec::new();
    for (oname, other) in &others {
        if other == pw {
            continue;
        }
        if hmac_key_block(pw) == hmac_key_block(other) {
            // e.g. the dropped last byte was 0x00: that family is enumerated by emip3_hmac_equivalent
            ctx.label("emip3_password:other=skipped(hmac-equivalent)");
            continue;
        }
        if let Ok(s) = lib!(S, "decrypt_with_password", decrypt_with_password(&hx(other), &container_hex)) {
            fail!("emip3_password/other-password-accepted", "{}: container = {}; the different password {} ({}) decrypts it: Ok({:?})", input.describe(), container_hex, hx(other), oname, s)
        }
        ctx.label(&format!("emip3_password:other={}", oname));
        tried.push(format!("{} {}", oname, hx(other)));
    }
    // (no container is mutated here; by the rule a case counts through its plaintext, the "message")
    if !input.pt.is_empty() && !tried.is_empty() {
        let mut c = input.canon();
        c.extend_from_slice(&(pw_bit as u32).to_le_bytes());
        c.push(second as u8);
        ctx.nontrivial(fp64(&c));
        ctx.sample("emip3_password", || format!("{} -> container {}; refused under {}", input.describe(), container_hex, tried.join(", ")));
    }
    Ok(())
}

// the family of distinct passwords that HMAC-SHA512 maps to one key, enumerated (no shrinking: two key derivations per case)

const EQ_BLOCK_LENS: [usize; 8] = [1, 2, 8, 31, 32, 33, 63, 64];
const EQ_LONG_LENS: [usize; 8] = [129, 130, 136, 160, 192, 255, 256, 300];

fn hmac_equivalent_count(tier: Tier) -> u64 {
    tier.pick(80, 320)
}

fn hmac_equivalent_make(_t: Tier, i: u64) -> Vec<u8> {
    i.to_le_bytes().to_vec()
}

fn emip3_hmac_equivalent(ctx: &mut Ctx, input: &[u8]) -> CaseResult {
    const S: &str = "emip3_hmac_equivalent";
    let mut ib = [0u8; 8];
    let n = input.len().min(8);
    ib[..n].copy_from_slice(&input[..n]);
    let i = (u64::from_le_bytes(ib) % 320) as usize;
    let k8 = i as u8;
    // (password the container is made under, the other password, family)
    let (pw, other, family): (Vec<u8>, Vec<u8>, &str) = {
        let short = |len: usize, zeros: usize| {
            let mut pw = pool_bytes(k8, len, 20);
            let l = pw.len();
            pw[l - 1] |= 1;
            let mut o = pw.clone();
            o.extend(std::iter::repeat(0u8).take(zeros));
            (pw, o)
        };
        let long = |len: usize| {
            let mut l = pool_bytes(k8, len, 24);
            l[0] |= 1;
            (sha512(&l).to_vec(), l)
        };
        if i < 64 {
            let (a, b) = short(i + 1, 1);
            (a, b, "one-zero-byte-appended")
        } else if i < 72 {
            let len = EQ_BLOCK_LENS[i - 64];
            let (a, b) = short(len, 128 - len);
            (a, b, "zero-padded-to-the-hmac-block")
        } else if i < 80 {
            let (a, b) = long(EQ_LONG_LENS[i - 72]);
            (a, b, "long-password-vs-its-sha512-digest")
        } else if i < 272 {
            let j = i - 80;
            let (a, b) = short(j % 64 + 1, [2, 3, 64][j / 64]);
            (a, b, "several-zero-bytes-appended")
        } else {
            let (a, b) = long(129 + (i - 272) * 7);
            (a, b, "long-password-vs-its-sha512-digest")
        }
    };
    let inp = Emip3Input { pw, salt: pool_bytes(k8, 32, 21), nonce: pool_bytes(k8, 12, 22), pt: pool_bytes(k8, 1 + i % 40, 23) };
    let (container_hex, _) = emip3_encrypt(S, &inp)?;
    if let Ok(s) = lib!(S, "decrypt_with_password", decrypt_with_password(&hx(&other), &container_hex)) {
        fail!("emip3_hmac_equivalent/other-password-accepted", "{}: container = {}; the different password {} ({} bytes, {}) decrypts it: Ok({:?}) — HMAC pads a key shorter than its 128-byte block with zero bytes and replaces a longer one by its SHA-512 digest, so both passwords give the same PBKDF2 key", inp.describe(), container_hex, hx(&other), other.len(), family, s)
    }
    // refused: make sure that is not because nothing decrypts
    match lib!(S, "decrypt_with_password", decrypt_with_password(&hx(&inp.pw), &container_hex)) {
        Ok(s) if hex::decode(&s).ok().as_deref() == Some(&inp.pt[..]) => {}
        other_result => fail!("emip3_hmac_equivalent/roundtrip-error", "{}: container = {}; under the right password: {:?}", inp.describe(), container_hex, other_result.map_err(|e| e.to_string())),
    }
    ctx.label(&format!("emip3_hmac_equivalent:{}", family));
    let mut c = inp.canon();
    c.extend_from_slice(&other);
    ctx.nontrivial(fp64(&c));
    ctx.sample(&format!("emip3_hmac_equivalent:{}", family), || format!("{} -> container {}; refused under {}", inp.describe(), container_hex, hx(&other)));
    Ok(())
}

#[cfg(test)]
mod tests {
    use super::*;

    #[test]
    fn crc32_check_value() {
        assert_eq!(crc32(b"123456789"), 0xCBF4_3926);
    }

    #[test]
    fn bech32_reader_on_bip173_vectors() {
        // valid strings of BIP-173 with an empty data part
        assert_eq!(bech32_decode("a12uel5l").unwrap(), ("a".to_string(), vec![]));
        assert_eq!(bech32_decode("A12UEL5L").unwrap(), ("a".to_string(), vec![]));
        // a segwit address is valid Bech32 but its data part is not whole bytes (version group + program)
        assert_eq!(bech32_decode("bc1qw508d6qejxtdg4y5r3zarvary0c5xw7kv8f3t4"), Err("padding"));
        assert!(bech32_decode("a12uel5m").is_err());
        assert!(bech32_decode("A12uEL5L").is_err());
        // CIP-5 style key from the library's documentation comment
        let (hrp, data) = bech32_decode("ed25519_pk1dgaagyh470y66p899txcl3r0jaeaxu6yd7z2dxyk55qcycdml8gszkxze2").unwrap();
        assert_eq!(hrp, "ed25519_pk");
        assert_eq!(data.len(), 32);
    }

    #[test]
    fn hmac_equivalence_classes() {
        assert_eq!(hmac_key_block(b"ab"), hmac_key_block(b"ab\0"));
        assert_ne!(hmac_key_block(b"ab"), hmac_key_block(b"ac"));
        let long = vec![7u8; 200];
        assert_eq!(hmac_key_block(&long), hmac_key_block(&sha512(&long)));
    }

    #[test]
    fn daedalus_keys_are_legacy_clamped() {
        let k = daedalus_from_seed(&[1u8; 32]);
        assert_eq!(k[0] & 7, 0);
        assert_eq!(k[31] & 0xE0, 0x40);
    }

    #[test]
    fn empty_tapes_decode() {
        let mut ctx = Ctx::new(Tier::Quick, true);
        for sc in property().subchecks {
            if sc.name.starts_with("emip3") {
                continue;
            }
            assert!((sc.run)(&mut ctx, &[]).is_ok(), "{}", sc.name);
        }
    }
}
