//! C08 — coin selection is sound under every random outcome.
use crate::gen::bn;
use crate::runner::*;
use crate::tape::*;
use cardano_serialization_lib as csl;
use csl::verif_hooks;
use csl::*;
use std::collections::BTreeMap;

pub fn property() -> Property {
    Property {
        id: "C08",
        rule: "tape-decoded (configuration, outputs, pre-existing inputs, offered UTxO set with duplicates / dust / values around 1x-3x of the outputs, strategy, schedule of random words): the library's thread RNG is replaced through the verif-hooks feature, so the schedule is part of the generated input. Non-trivial = the schedule made an improvement swap, or drew a fee top-up input, or the strategy ran >= 2 asset passes, or (largest-first) >= 2 inputs were added; distinct by hash of (scenario, schedule)",
        assumptions: vec![
            "hook: cargo feature verif-hooks makes rand::thread_rng() inside builders/tx_builder.rs read the installed per-thread schedule (gen_range(0..n) = floor(word * n / 2^64)); without an installed schedule the real thread RNG is used".into(),
            "the builder's actual input set is read from build() of a clone with a dummy fee; input values come from the scenario's own UTxO map, never from the builder".into(),
            "covering is judged with the library's own min_fee() of the final builder, as the property's observation points state".into(),
            "the offered UTxOs form a set, as the property says: the same outpoint is never listed twice (a list that repeats an outpoint is double-counted by every strategy; that is outside the stated domain and recorded in DESIGN.md as an observation)".into(),
            "amounts stay below 2^40 so that the improvement phase's 2*x / 3*x targets cannot overflow (overflow there is arithmetic, not selection)".into(),
            "sub-check combined: builder histories of the scenario engine (see C06's assumptions) that were balanced through add_inputs_from_and_change / add_inputs_from_and_change_with_collateral_return; the fee the call set must reach the ledger minimum of the really signed transaction (C06's oracle), i.e. the inputs it selected pay for outputs plus minimum fee".into(),
            "largest-first order and minimality are checked when lovelace (resp. the single requested asset) was short at entry; the 'no inputs yet but already covered' branch that takes one arbitrary UTxO is outside that precondition".into(),
        ],
        subchecks: vec![
            SubCheck { name: "selection", kind: Kind::Tape { quick: 3_000_000, thorough: 40_000_000, max_len: 400 }, run: selection },
            // the combined select-and-change entry points, inside whole builder histories (scenario engine, C06's fee oracle)
            SubCheck { name: "combined", kind: Kind::Tape { quick: 300_000, thorough: 6_000_000, max_len: 500 }, run: super::builder::c08_combined_case },
        ],
        crash_prone: false,
        max_reject_fraction: 0.2,
        required_label_fraction: vec![("selection", "random-improve:swap-then-top-up", 0.002)],
    }
}

#[derive(Clone)]
struct Utxo {
    input: TransactionInput,
    addr: Address,
    value: Value,
    coin: u64,
    assets: BTreeMap<(Vec<u8>, Vec<u8>), u64>,
    /// reference script carried by the UTxO (offered UTxOs only)
    script_ref: Option<ScriptRef>,
}

impl Utxo {
    /// the UTxO as the caller offers it (with its reference script, which has a price)
    fn as_unspent(&self) -> TransactionUnspentOutput {
        let mut out = TransactionOutput::new(&self.addr, &self.value);
        if let Some(s) = &self.script_ref {
            out.set_script_ref(s);
        }
        TransactionUnspentOutput::new(&self.input, &out)
    }
}

fn key_addr(k: u8, kind: usize) -> Address {
    let pay = Credential::from_keyhash(&Ed25519KeyHash::from_bytes(pool_bytes(k, 28, 50)).unwrap());
    match kind {
        0 => EnterpriseAddress::new(1, &pay).to_address(),
        1 => BaseAddress::new(1, &pay, &Credential::from_keyhash(&Ed25519KeyHash::from_bytes(pool_bytes(k, 28, 51)).unwrap())).to_address(),
        _ => PointerAddress::new(1, &pay, &Pointer::new(1, 2, 3)).to_address(),
    }
}

fn mk_value(coin: u64, assets: &BTreeMap<(Vec<u8>, Vec<u8>), u64>) -> Value {
    let mut ma = MultiAsset::new();
    for ((p, n), q) in assets {
        ma.set_asset(&ScriptHash::from_bytes(p.clone()).unwrap(), &AssetName::new(n.clone()).unwrap(), &bn(*q));
    }
    Value::new_with_assets(&bn(coin), &ma)
}

fn body_inputs(tb: &TransactionBuilder) -> Result<Vec<Vec<u8>>, String> {
    let mut c = tb.clone();
    c.set_fee(&bn(0));
    match catch(|| c.build()) {
        Ok(Ok(b)) => {
            let ins = b.inputs();
            Ok((0..ins.len()).map(|i| ins.get(i).to_bytes()).collect())
        }
        Ok(Err(e)) => Err(format!("{:?}", e)),
        Err(p) => Err(format!("panic {}", p.msg)),
    }
}

fn selection(ctx: &mut Ctx, tape: &[u8]) -> CaseResult {
    let (plan, rest) = split_plan(tape, 24);
    let mut t = Tape::new(plan);
    let strategy_k = t.choose(4);
    let strategy = match strategy_k {
        0 => CoinSelectionStrategyCIP2::LargestFirst,
        1 => CoinSelectionStrategyCIP2::RandomImprove,
        2 => CoinSelectionStrategyCIP2::LargestFirstMultiAsset,
        _ => CoinSelectionStrategyCIP2::RandomImproveMultiAsset,
    };
    let multi = strategy_k >= 2;
    let n_out = 1 + t.choose(4);
    let n_off = t.choose(25);
    let n_pre = t.choose(3);
    let scale = [1_000u64, 1_000_000, 50_000_000, 1_000_000_000][t.choose(4)];
    let fee_a = [0u64, 1, 44, 500][t.choose(4)];
    let fee_b = [0u64, 1000, 155_381][t.choose(3)];
    let n_asset_kinds = if multi { t.choose(4) } else { 0 };
    let dup = t.chance(70);
    let key_deposit = [0u64, 2_000_000][t.choose(2)];
    let with_cert = t.chance(50);
    // a withdrawal is an implicit input: with it the lovelace can be covered before any input is selected
    let wd_mode = if dup { 1 + t.choose(4) } else { 0 };
    // a caller-requested minimum fee at or below the real one must not change what has to be covered
    let fee_req = if t.chance(64) { 1 + t.choose(4) } else { 0 };
    // a fifth of the cases: reference scripts have a price and some offered UTxOs carry one (selecting such a UTxO
    // raises the minimum fee by more than its size). Drawn last, and 0 means no, so that earlier tapes keep their meaning
    let ref_scripts = t.byte() >= 206;
    // pure-ADA strategies: the outputs ask for lovelace only, but the UTxOs offered (and held) may well carry tokens
    let tokens_on_utxos = !multi && t.byte() >= 128;

    let cfg = TransactionBuilderConfigBuilder::new()
        .fee_algo(&LinearFee::new(&bn(fee_a), &bn(fee_b)))
        .coins_per_utxo_byte(&bn(1))
        .pool_deposit(&bn(500_000_000))
        .key_deposit(&bn(key_deposit))
        .max_value_size(5000)
        .max_tx_size(1_000_000)
        .ref_script_coins_per_byte(&UnitInterval::new(&bn(if ref_scripts { 15 } else { 0 }), &bn(1)))
        .build()
        .map_err(|e| Failure::new("engine/config", format!("{:?}", e)))?;
    let mut tb = TransactionBuilder::new(&cfg);

    let mut c = Tape::new(rest);
    let asset_ids: Vec<(Vec<u8>, Vec<u8>)> = (0..n_asset_kinds).map(|i| (pool_bytes((i / 2) as u8, 28, 52), vec![i as u8])).collect();
    let utxo_asset_ids: Vec<(Vec<u8>, Vec<u8>)> = if tokens_on_utxos { (0..2usize).map(|i| (pool_bytes(i as u8, 28, 52), vec![i as u8])).collect() } else { asset_ids.clone() };
    if tokens_on_utxos {
        ctx.label("pure-ada-strategy:utxos-may-carry-tokens");
    }
    // outputs
    let mut out_specs: Vec<(u64, BTreeMap<(Vec<u8>, Vec<u8>), u64>)> = Vec::new();
    for _ in 0..n_out {
        let coin = 400 + c.range_u64(scale / 4, scale * 2);
        let mut assets = BTreeMap::new();
        for id in &asset_ids {
            if c.chance(150) {
                assets.insert(id.clone(), 1 + c.range_u64(0, 1000));
            }
        }
        let o = TransactionOutput::new(&key_addr(c.choose(4) as u8, 0), &mk_value(coin, &assets));
        match catch(|| tb.add_output(&o)) {
            Ok(Ok(())) => out_specs.push((coin, assets)),
            _ => {
                ctx.reject();
                return Ok(());
            }
        }
    }
    if with_cert {
        // a deposit moves the target without being an output amount (the top-up phase matters then)
        let mut certs = Certificates::new();
        certs.add(&Certificate::new_stake_registration(&StakeRegistration::new(&Credential::from_keyhash(&Ed25519KeyHash::from_bytes(pool_bytes(9, 28, 53)).unwrap()))));
        let _ = tb.set_certs(&certs);
    }
    let total_out_early: u64 = out_specs.iter().map(|o| o.0).sum();
    let withdrawal: u64 = match wd_mode {
        0 => 0,
        1 => total_out_early.saturating_mul(2).saturating_add(5_000_000),
        2 => total_out_early / 2 + 1,
        3 => 1,
        _ => total_out_early.saturating_add(200_000),
    };
    if withdrawal > 0 {
        let mut w = Withdrawals::new();
        w.insert(&RewardAddress::new(1, &Credential::from_keyhash(&Ed25519KeyHash::from_bytes(pool_bytes(8, 28, 53)).unwrap())), &bn(withdrawal));
        tb.set_withdrawals(&w);
    }
    // UTxO universe
    let mut utxos: BTreeMap<Vec<u8>, Utxo> = BTreeMap::new();
    let mk_utxo = |c: &mut Tape, idx: usize, coin: u64, asset_ids: &Vec<(Vec<u8>, Vec<u8>)>| -> Utxo {
        let input = TransactionInput::new(&TransactionHash::from_bytes(pool_bytes((idx % 200) as u8, 32, 54)).unwrap(), (idx / 200) as u32);
        let mut assets = BTreeMap::new();
        for id in asset_ids {
            if c.chance(110) {
                assets.insert(id.clone(), 1 + c.range_u64(0, 1500));
            }
        }
        let addr = key_addr(c.choose(5) as u8, c.choose(3));
        Utxo { input, addr, value: mk_value(coin, &assets), coin, assets, script_ref: None }
    };
    let total_out: u64 = out_specs.iter().map(|o| o.0).sum();
    let marks: Vec<u64> = out_specs.iter().flat_map(|o| vec![o.0, o.0 * 2, o.0 * 3, o.0 / 2, o.0 + 200_000, total_out / 3 + 1]).collect();
    let mut before_value: BTreeMap<Vec<u8>, u64> = BTreeMap::new();
    for i in 0..n_pre {
        let coin = match c.choose(3) {
            0 => 1_000 + c.range_u64(0, scale / 2),
            1 => marks[c.choose(marks.len())],
            _ => 500,
        };
        let u = mk_utxo(&mut c, 1000 + i, coin, &utxo_asset_ids);
        if catch(|| tb.add_regular_input(&u.addr, &u.input, &u.value)).map(|r| r.is_ok()).unwrap_or(false) {
            before_value.insert(u.input.to_bytes(), coin);
            utxos.insert(u.input.to_bytes(), u);
        }
    }
    let mut offered = TransactionUnspentOutputs::new();
    let mut offered_keys: Vec<Vec<u8>> = Vec::new();
    for i in 0..n_off {
        let coin = match c.choose(6) {
            0 => 300 + c.range_u64(0, 3000),
            1 | 2 => {
                let m = marks[c.choose(marks.len())];
                (m + c.range_u64(0, 400_000)).saturating_sub(c.range_u64(0, 200_000)).max(300)
            }
            3 => c.range_u64(scale / 10, scale * 3).max(300),
            4 => marks[c.choose(marks.len())].max(300),
            _ => c.range_u64(300, scale).max(300),
        };
        let mut u = mk_utxo(&mut c, i, coin, &utxo_asset_ids);
        if ref_scripts && c.chance(90) {
            let size = [30usize, 2_000, 20_000, 26_000][c.choose(4)];
            u.script_ref = Some(ScriptRef::new_plutus_script(&PlutusScript::new_v2(pool_bytes(3, size, 55))));
            ctx.label("offered-utxo-carries-reference-script");
        }
        let out = u.as_unspent().output();
        offered.add(&TransactionUnspentOutput::new(&u.input, &out));
        offered_keys.push(u.input.to_bytes());
        // (the offered list is a set: the same outpoint is never offered twice, see assumptions)
        let _ = dup;
        utxos.insert(u.input.to_bytes(), u);
    }
    // schedule: remaining content bytes, two per word
    let mut words: Vec<u64> = Vec::new();
    while !c.is_dry() && words.len() < 200 {
        let hi = c.byte() as u64;
        let lo = c.byte() as u64;
        words.push((hi << 56) | (lo << 48) | (hi.wrapping_mul(lo + 1) << 8));
    }
    let fallback_seed = fp64(tape);

    let before = match body_inputs(&tb) {
        Ok(b) => b,
        Err(_) => {
            ctx.reject();
            return Ok(());
        }
    };
    let value_of = |keys: &[Vec<u8>]| -> (u128, BTreeMap<(Vec<u8>, Vec<u8>), u128>) {
        let mut coin = 0u128;
        let mut m: BTreeMap<(Vec<u8>, Vec<u8>), u128> = BTreeMap::new();
        for k in keys {
            if let Some(u) = utxos.get(k) {
                coin += u.coin as u128;
                for (id, q) in &u.assets {
                    *m.entry(id.clone()).or_insert(0) += *q as u128;
                }
            }
        }
        (coin, m)
    };
    let implicit = withdrawal as u128;
    let deposit = if with_cert { key_deposit as u128 } else { 0 };
    let need_assets: BTreeMap<(Vec<u8>, Vec<u8>), u128> = {
        let mut m = BTreeMap::new();
        for o in &out_specs {
            for (id, q) in &o.1 {
                *m.entry(id.clone()).or_insert(0u128) += *q as u128;
            }
        }
        m
    };
    let out_coin: u128 = total_out as u128 + deposit;
    let mut min_fee_request: Option<u64> = None;
    if fee_req > 0 {
        if let Some(real) = catch(|| tb.min_fee()).ok().and_then(|r| r.ok()).map(u64::from) {
            let f = match fee_req {
                1 => 1,
                2 => real / 2,
                3 => real.saturating_sub(1),
                _ => real,
            };
            tb.set_min_fee(&bn(f));
            min_fee_request = Some(f);
            ctx.label("min-fee-requested-at-or-below-the-real-fee");
        }
    }
    let entry_fee = catch(|| tb.min_fee()).ok().and_then(|r| r.ok()).map(|f| u64::from(f) as u128).unwrap_or(0);
    let (before_coin, before_assets) = value_of(&before);
    let short_at_entry = before_coin + implicit < out_coin + entry_fee;

    verif_hooks::install_schedule(words.clone(), fallback_seed);
    let r = catch(|| tb.add_inputs_from(&offered, strategy));
    let log = verif_hooks::remove_schedule();
    let scenario = || {
        format!(
            "strategy={} fee={}x+{} outputs={:?} pre={:?} offered={:?}{} schedule_draws={:?}",
            ["LargestFirst", "RandomImprove", "LargestFirstMultiAsset", "RandomImproveMultiAsset"][strategy_k],
            fee_a,
            fee_b,
            out_specs.iter().map(|o| (o.0, o.1.values().cloned().collect::<Vec<_>>())).collect::<Vec<_>>(),
            before.iter().map(|k| utxos.get(k).map(|u| u.coin).unwrap_or(0)).collect::<Vec<_>>(),
            offered_keys.iter().map(|k| (utxos[k].coin, utxos[k].assets.values().cloned().collect::<Vec<_>>(), utxos[k].script_ref.as_ref().map(|s| format!("ref-script {} bytes", s.to_unwrapped_bytes().len())).unwrap_or_default())).collect::<Vec<_>>(),
            format!("{}{}", if with_cert { format!(" +stake_registration(deposit {})", key_deposit) } else { String::new() }, if withdrawal > 0 { format!(" +withdrawal({})", withdrawal) } else { String::new() }) + &min_fee_request.map(|f| format!(" +set_min_fee({})", f)).unwrap_or_default(),
            log
        )
    };
    let strat_label = ["largest-first", "random-improve", "largest-first-multiasset", "random-improve-multiasset"][strategy_k];
    match r {
        Err(p) => fail!(format!("selection/panic|{}", p.cause()), "add_inputs_from panicked: {} at {}:{}; {}", p.msg, p.file, p.line, scenario()),
        Ok(Ok(())) => {
            ctx.label(&format!("{}:ok", strat_label));
            let after = match body_inputs(&tb) {
                Ok(a) => a,
                Err(e) => fail!("selection/inputs-unreadable", "build() of the selected builder fails: {}; {}", e, scenario()),
            };
            // pre-existing inputs untouched
            for k in &before {
                ensure!(after.contains(k), "selection/pre-existing-input-removed", "{}", scenario());
            }
            let added: Vec<Vec<u8>> = after.iter().filter(|k| !before.contains(k)).cloned().collect();
            for k in &added {
                ensure!(offered_keys.contains(k), "selection/added-input-not-offered", "{}", scenario());
            }
            let mut uniq = added.clone();
            uniq.sort();
            uniq.dedup();
            ensure!(uniq.len() == added.len(), "selection/added-input-twice", "{}", scenario());
            // the builder's own idea of its input value must equal the real UTxO values (amounts untouched)
            let (in_coin, in_assets) = value_of(&after);
            let lib_in = catch(|| tb.get_explicit_input()).ok().and_then(|r| r.ok());
            if let Some(v) = &lib_in {
                ensure!(u64::from(v.coin()) as u128 == in_coin, "selection/input-amount-changed", "builder says {} lovelace of inputs, the UTxOs hold {}; {}", u64::from(v.coin()), in_coin, scenario());
            }
            // coverage
            let fee = match catch(|| tb.min_fee()) {
                Ok(Ok(f)) => u64::from(f) as u128,
                _ => fail!("selection/min_fee-unavailable", "{}", scenario()),
            };
            ensure!(
                in_coin + implicit >= out_coin + fee,
                format!("selection/reports-success-but-lovelace-short/{}", strat_label),
                "success reported, but the actual inputs hold {} lovelace < outputs {} + deposit {} + min_fee {}; added {:?}; {}",
                in_coin, total_out, deposit, fee, added.iter().map(|k| utxos[k].coin).collect::<Vec<_>>(), scenario()
            );
            for (id, need) in &need_assets {
                let have = *in_assets.get(id).unwrap_or(&0);
                ensure!(have >= *need, format!("selection/reports-success-but-asset-short/{}", strat_label), "asset {:?}: inputs hold {} < requested {}; {}", id.1, have, need, scenario());
            }
            let _ = before_assets;
            // largest-first: top-k and minimal
            if strategy_k == 0 && short_at_entry && !added.is_empty() {
                let min_added = added.iter().map(|k| utxos[k].coin).min().unwrap();
                let left_out_max = offered_keys.iter().filter(|k| !after.contains(k)).map(|k| utxos[k].coin).max();
                if let Some(m) = left_out_max {
                    ensure!(min_added >= m, "selection/largest-first-not-largest", "an added UTxO holds {} lovelace while an offered one left out holds {}; {}", min_added, m, scenario());
                }
                // stops as soon as it is covered: the UTxO added last holds the smallest added quantity, and before
                // it was added the builder was short. Which of several added UTxOs with that same quantity came
                // last is the library's choice (they differ in fee when they differ in owner), so the check asks
                // for ONE smallest added UTxO whose removal leaves the builder short.
                let min_coin = added.iter().map(|k| utxos[k].coin).min().unwrap();
                let mut some_removal_is_short = false;
                let mut undecided = false;
                let mut witness = String::new();
                for smallest in added.iter().filter(|k| utxos[*k].coin == min_coin) {
                    let mut c2 = tb.clone();
                    let mut ib = TxInputsBuilder::new();
                    for k in &after {
                        if k != smallest {
                            let u = &utxos[k];
                            let _ = ib.add_regular_utxo(&u.as_unspent());
                        }
                    }
                    c2.set_inputs(&ib);
                    match catch(|| c2.min_fee()) {
                        Ok(Ok(f2)) => {
                            let coin2 = in_coin - utxos[smallest].coin as u128;
                            if coin2 + implicit < out_coin + u64::from(f2) as u128 {
                                some_removal_is_short = true;
                                break;
                            }
                            witness = format!("{} >= {} + {}", coin2, out_coin, u64::from(f2));
                        }
                        _ => undecided = true,
                    }
                }
                if added.iter().filter(|k| utxos[*k].coin == min_coin).count() > 1 {
                    ctx.label("largest-first:tie-among-smallest-added");
                }
                ensure!(some_removal_is_short || undecided, "selection/largest-first-not-minimal", "the selection stays covered without any one of its smallest added UTxOs ({}): {}; {}", min_coin, witness, scenario());
            }
            // classification from the draw log
            let mut nontrivial = false;
            if strategy_k == 1 || strategy_k == 3 {
                // phase 1 picks shrink the range by one each time; improvement draws repeat one range
                let mut swaps_possible = false;
                for w in log.windows(2) {
                    if w[0].0 == w[1].0 {
                        swaps_possible = true;
                    }
                }
                let draws = log.len();
                let picks = added.len();
                let topups = draws > 0 && draws >= picks && strategy_k == 1 && {
                    // improvement draws = phase-1 picks (when any index was left); anything beyond is a top-up
                    let p1 = log.iter().take_while(|d| true && d.0 > 0).count();
                    let _ = p1;
                    draws > 2 * picks.saturating_sub(draws.saturating_sub(picks))
                };
                let improved = strategy_k == 1 && swaps_possible && draws > picks;
                if improved {
                    ctx.label("random-improve:improvement-phase-ran");
                }
                // a swap shows as: some phase-1 pick is not in the final selection. Phase 1 is replayed from the log.
                let mut relevant: Vec<usize> = (0..offered.len()).collect();
                let mut swapped = false;
                let mut replay_ok = true;
                let mut picked: Vec<usize> = Vec::new();
                if strategy_k == 1 {
                    // outputs by coin descending, available starts with the builder's current coin
                    let mut outs: Vec<u64> = out_specs.iter().map(|o| o.0).collect();
                    outs.sort();
                    let mut avail: u128 = before_coin + implicit;
                    // the library's target for "already have" uses input_total coin
                    let mut li = 0usize;
                    for need in outs.iter().rev() {
                        let mut added_c = avail;
                        while added_c < *need as u128 {
                            if li >= log.len() || relevant.is_empty() || log[li].0 != relevant.len() {
                                replay_ok = false;
                                break;
                            }
                            let i = relevant.swap_remove(log[li].1);
                            li += 1;
                            picked.push(i);
                            added_c += u64::from(offered.get(i).output().amount().coin()) as u128;
                        }
                        if !replay_ok {
                            break;
                        }
                        avail = added_c - *need as u128;
                    }
                    if replay_ok {
                        for i in &picked {
                            let k = offered.get(*i).input().to_bytes();
                            if !after.contains(&k) {
                                swapped = true;
                            }
                        }
                        let improvement_draws = if relevant.is_empty() { 0 } else { picked.len() };
                        let topup_draws = log.len().saturating_sub(picked.len() + improvement_draws);
                        if swapped {
                            ctx.label("random-improve:swap");
                            nontrivial = true;
                        }
                        if topup_draws > 0 {
                            ctx.label("random-improve:top-up");
                            nontrivial = true;
                        }
                        if swapped && topup_draws > 0 {
                            ctx.label("random-improve:swap-then-top-up");
                        }
                    } else {
                        ctx.label("random-improve:phase1-replay-diverged");
                    }
                }
                let _ = topups;
                if strategy_k == 3 && need_assets.len() >= 2 {
                    nontrivial = true;
                    ctx.label("random-improve-multiasset:>=2-asset-passes");
                }
                if strategy_k == 3 && log.len() > added.len() {
                    ctx.label("random-improve-multiasset:draws>added");
                }
            } else {
                if added.len() >= 2 {
                    nontrivial = true;
                }
                if strategy_k == 2 && need_assets.len() >= 2 {
                    ctx.label("largest-first-multiasset:>=2-asset-passes");
                }
            }
            ctx.label(&format!("added:{}", added.len().min(6)));
            if nontrivial {
                ctx.nontrivial(fp_mix(fp64(scenario().as_bytes()), log.len() as u64));
                ctx.sample(strat_label, scenario);
            }
        }
        Ok(Err(e)) => {
            let msg = format!("{:?}", e);
            ctx.label(&format!("{}:err", strat_label));
            if msg.contains("not supported") || msg.contains("No inputs to add") {
                return Ok(());
            }
            // insufficiency may only be reported if all offered UTxOs together do not suffice.
            // The statement makes this claim for largest-first.
            if strategy_k == 0 && msg.contains("Insufficient") {
                let mut c2 = tb.clone();
                let mut ib = TxInputsBuilder::new();
                let mut keys: Vec<Vec<u8>> = before.clone();
                for k in &offered_keys {
                    if !keys.contains(k) {
                        keys.push(k.clone());
                    }
                }
                for k in &keys {
                    let u = &utxos[k];
                    let _ = ib.add_regular_utxo(&u.as_unspent());
                }
                c2.set_inputs(&ib);
                if let Ok(Ok(f2)) = catch(|| c2.min_fee()) {
                    let (all_coin, _) = value_of(&keys);
                    ensure!(all_coin + implicit < out_coin + u64::from(f2) as u128, "selection/largest-first-unjustified-insufficiency", "largest-first reports insufficiency although all offered UTxOs cover the target: {} >= {} + {}; {}", all_coin, out_coin, u64::from(f2), scenario());
                    ctx.label("largest-first:insufficiency-justified");
                    if offered_keys.len() >= 2 {
                        ctx.nontrivial(fp64(scenario().as_bytes()));
                    }
                }
            }
        }
    }
    Ok(())
}
