//! C05 — scenario-based check, see props/builder.rs and DESIGN.md §5.
use crate::runner::*;

pub fn property() -> Property {
    Property {
        id: "C05",
        rule: "builder scenarios (see assumptions); oracle: per-asset preservation of value of every transaction produced (build_tx, build, build_tx_unsafe) after a balancing call reported success. Non-trivial = built and at least 2 of {multi-asset, mint/burn, deposit or refund, withdrawal, donation, several change outputs}; distinct by hash of the built body",
        assumptions: vec!["scenarios: tape-decoded protocol parameters, keyring of 6 keys + 2 Byron roots, pools of 5 native and 5 Plutus scripts and 4 datums, each also decoded from a second, non-canonical encoding (overlaps between sources are common; the Redeemer objects handed to the builder carry placeholder tags and indices; a reference input may be registered twice, plainly and with its script size), a UTxO universe the scenario owns, and a sequence of builder operations (inputs by every public route, outputs, certificates of 17 shapes with key / native / Plutus credentials, withdrawals, mint and burn, votes, proposals, required signers, reference inputs, extra datums, auxiliary data, ttl, donation, collateral and its helper routes, fee requests, calc_script_data_hash, one of 7 balancing routes incl. the 4 coin-selection strategies), then build_tx / build / build_tx_unsafe".into(), "operations the library rejects with Err are recorded and skipped: the properties are conditional on success".into(), "UTxO values, owners and reference scripts come from the scenario's own map; sums, sizes, deposits, fees and hashes are recomputed from the emitted bytes by the engine (cbor.rs, ledger.rs), never asked from the library".into(), "a UTxO that carries a reference script is only spent through the add_regular_utxo route (the other input adders have no parameter to declare its script size)".into()],
        subchecks: vec![SubCheck { name: "scenario", kind: Kind::Tape { quick: 600000, thorough: 15000000, max_len: 500 }, run: super::builder::c05_case }],
        crash_prone: false,
        max_reject_fraction: 0.1,
        required_label_fraction: vec![],
    }
}
