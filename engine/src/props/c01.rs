//! C01 — every ledger type survives an encode/decode round trip.
use crate::cbor;
use crate::gen::registry::{entries, Entry, Val};
use crate::gen::*;
use crate::runner::*;
use crate::tape::*;
use cardano_serialization_lib as csl;
use csl::*;
use serde_json::Value as J;

pub fn property() -> Property {
    Property {
        id: "C01",
        rule: "for each of the registered public types a value is built through public constructors from a choice tape (variant, presence of every optional field, CBOR width class of every integer, collection sizes 0/1/2/3/5/23/24/25/40, nesting to the depth budget); plus bounded-exhaustive sweeps (all 2^18 presence masks of TransactionBody, masks of ProtocolParamUpdate of weight <=2 / >=29 and a seeded sample, all short tapes over a 6-symbol boundary alphabet for every certificate / governance-action / relay / native-script variant). Non-trivial = the value has an optional field present, or a non-empty collection, or an integer outside 0..23; distinct by hash of the emitted bytes",
        assumptions: vec![
            "equality is the library's PartialEq (TransactionUnspentOutput, which has none: equality of its getters); when that reports a difference the JSON forms are compared after mapping empty optional collections to null (\"an empty optional collection counts as absent\")".into(),
            "a stand-alone PlutusScript is re-decoded with from_bytes_with_version(bytes, original language): the bytes do not carry the language".into(),
            "hash, signature and address types expose raw bytes, not CBOR: the well-formedness clause is applied to the CBOR types only".into(),
            "nesting depth <= 4 (quick) / 8 (thorough), collections <= 25 (quick) / 40 (thorough)".into(),
            "the byte-preserving transaction type (FixedTransaction) has no equality of its own: two values are equal when body, witness set, validity flag, auxiliary data and transaction hash are (sub-check fixed_tx: the value is obtained from a generated transaction through from_bytes or the parts constructors and then given 0-5 more key / bootstrap witnesses through every adder)".into(),
        ],
        subchecks: vec![
            SubCheck { name: "roundtrip", kind: Kind::Tape { quick: 3_000_000, thorough: 30_000_000, max_len: 600 }, run: roundtrip },
            SubCheck { name: "per_type_floor", kind: Kind::Enum { count: floor_count, make: floor_make, exhaustive_note: "" }, run: floor_case },
            SubCheck { name: "body_masks", kind: Kind::Enum { count: |_| 1 << 18, make: idx_make, exhaustive_note: "all 2^18 presence masks of the 18 optional TransactionBody fields, minimal and boundary contents" }, run: body_mask_case },
            SubCheck { name: "ppu_masks", kind: Kind::Enum { count: ppu_count, make: idx_make, exhaustive_note: "all ProtocolParamUpdate presence masks of weight <= 2 and >= 29 (of 31 settable fields) plus a seeded sample" }, run: ppu_mask_case },
            SubCheck { name: "fixed_tx", kind: Kind::Tape { quick: 150_000, thorough: 3_000_000, max_len: 500 }, run: fixed_tx_case },
            SubCheck { name: "variants", kind: Kind::Enum { count: variants_count, make: idx_make, exhaustive_note: "every certificate (19) / governance action (7) / relay (3) / native script / drep / voter variant x all tapes of length 5 (quick) or 6 (thorough) over the boundary alphabet {00,10,55,80,aa,ff}" }, run: variant_case },
        ],
        crash_prone: false,
        max_reject_fraction: 0.05,
        required_label_fraction: vec![],
    }
}

fn idx_make(_t: Tier, i: u64) -> Vec<u8> {
    i.to_le_bytes().to_vec()
}
fn idx(input: &[u8]) -> u64 {
    u64::from_le_bytes(input[..8].try_into().unwrap())
}

thread_local! {
    static ENTRIES: Vec<Entry> = entries();
}

/// encoding-memory fields: outside equality by the library's own definition for most types, normalised away here
const ENCODING_MEMORY_KEYS: [&str; 2] = ["definite_encoding", "prefer_alonzo_format"];

const OPTIONAL_COLLECTION_KEYS: [&str; 18] = [
    "multiasset",
    "certs", "withdrawals", "mint", "collateral", "required_signers", "reference_inputs", "voting_procedures", "voting_proposals", "vkeys",
    "native_scripts", "bootstraps", "plutus_scripts", "plutus_data", "redeemers", "metadata", "elems", "update",
];

fn normalise_json(v: &mut J, key: Option<&str>) {
    match v {
        J::Array(a) => {
            for x in a.iter_mut() {
                normalise_json(x, None);
            }
        }
        J::Object(o) => {
            for k in ENCODING_MEMORY_KEYS {
                o.remove(k);
            }
            for (k, x) in o.iter_mut() {
                normalise_json(x, Some(k.as_str()));
            }
            // a PlutusList / set wrapper object {"elems": [], ...} that is empty counts as empty
            if let Some(J::Null) = o.get("elems") {
                if key.map(|k| OPTIONAL_COLLECTION_KEYS.contains(&k)).unwrap_or(false) {
                    *v = J::Null;
                    return;
                }
            }
        }
        _ => {}
    }
    if let Some(k) = key {
        if OPTIONAL_COLLECTION_KEYS.contains(&k) {
            let empty = match v {
                J::Array(a) => a.is_empty(),
                J::Object(o) => o.is_empty(),
                _ => false,
            };
            if empty {
                *v = J::Null;
            }
        }
    }
}

fn equal_modulo_empty(a: &dyn Val, b: &dyn Val) -> Option<bool> {
    let ja = a.to_json()?.ok()?;
    let jb = b.to_json()?.ok()?;
    let mut va: J = serde_json::from_str(&ja).ok()?;
    let mut vb: J = serde_json::from_str(&jb).ok()?;
    normalise_json(&mut va, None);
    normalise_json(&mut vb, None);
    Some(va == vb)
}

/// the round-trip oracle for one value of one registered type
pub fn check_roundtrip(ctx: &mut Ctx, e: &Entry, v: &dyn Val, interesting: bool, how: &str) -> CaseResult {
    let name = e.name;
    let b = match catch(|| v.to_bytes()) {
        Ok(b) => b,
        Err(p) => fail!(format!("roundtrip/to_bytes-panic/{}|{}", name, p.cause()), "{}::to_bytes panicked: {}", name, p.msg),
    };
    if e.is_cbor() {
        if let Err(er) = cbor::parse_document(&b) {
            fail!(format!("roundtrip/malformed-cbor/{}", name), "{}::to_bytes emits bytes that are not one well-formed CBOR item ({}): {}", name, er, hex::encode(&b))
        }
    }
    let v2 = match catch(|| (e.from_bytes)(b.clone())) {
        Ok(Ok(v2)) => v2,
        Ok(Err(er)) => fail!(format!("roundtrip/decode-fails/{}", name), "{}::from_bytes rejects the library's own encoding: {} bytes={}", name, er, hex::encode(&b)),
        Err(p) => fail!(format!("roundtrip/from_bytes-panic/{}|{}", name, p.cause()), "{}::from_bytes panicked on own encoding: {} bytes={}", name, p.msg, hex::encode(&b)),
    };
    let same = if name == "VersionedScript" {
        true // language is supplied out of band, see below
    } else {
        v2.same(v)
    };
    if !same {
        let j = |x: &dyn Val| x.to_json().and_then(|r| r.ok()).map(|s| s.split_whitespace().collect::<Vec<_>>().join("")).unwrap_or_default();
        let (ja, jb) = (j(v), j(v2.as_ref()));
        let pos = ja.bytes().zip(jb.bytes()).position(|(x, y)| x != y).unwrap_or(ja.len().min(jb.len()));
        let from = pos.saturating_sub(80);
        let cut = |s: &str| s.chars().skip(from).take(240).collect::<String>();
        fail!(format!("roundtrip/not-equal/{}", name), "{}: decoded value differs from the original; bytes={} original-json[..]={} decoded-json[..]={}", name, hex::encode(&b[..b.len().min(200)]), cut(&ja), cut(&jb))
    }
    let b2 = match catch(|| v2.to_bytes()) {
        Ok(b) => b,
        Err(p) => fail!(format!("roundtrip/reencode-panic/{}|{}", name, p.cause()), "{}: re-encoding the decoded value panicked: {}", name, p.msg),
    };
    ensure!(b2 == b, format!("roundtrip/reencode-differs/{}", name), "{}: first encoding {} second encoding {}", name, hex::encode(&b), hex::encode(&b2));
    // hex entry points behave like the byte entry points
    let hx = match catch(|| v.to_hex()) {
        Ok(h) => h,
        Err(p) => fail!(format!("roundtrip/to_hex-panic/{}", name), "{}: {}", name, p.msg),
    };
    ensure!(hx == hex::encode(&b), format!("roundtrip/to_hex-differs/{}", name), "{}: to_hex {} vs bytes {}", name, hx, hex::encode(&b));
    for (which, text) in [("lower", hx.clone()), ("upper", hx.to_uppercase())] {
        match catch(|| (e.from_hex)(&text)) {
            Ok(Ok(v3)) => {
                let b3 = catch(|| v3.to_bytes()).map_err(|p| Failure::new(format!("roundtrip/from_hex-reencode-panic/{}", name), p.msg))?;
                ensure!(b3 == b, format!("roundtrip/from_hex-differs/{}", name), "{}: from_hex({}) re-encodes to {}", name, which, hex::encode(&b3));
                if name != "VersionedScript" {
                    ensure!(v3.same(v2.as_ref()), format!("roundtrip/from_hex-not-equal/{}", name), "{}: from_hex({}) differs from from_bytes", name, which);
                }
            }
            Ok(Err(er)) => fail!(format!("roundtrip/from_hex-fails/{}", name), "{}: from_hex({} case) rejects own hex: {}", name, which, er),
            Err(p) => fail!(format!("roundtrip/from_hex-panic/{}|{}", name, p.cause()), "{}: from_hex({} case) panicked: {}", name, which, p.msg),
        }
    }
    if name == "VersionedScript" {
        let orig = v.as_any().downcast_ref::<crate::gen::registry::VersionedScript>().unwrap();
        let lang = orig.0.language_version();
        match catch(|| PlutusScript::from_bytes_with_version(b.clone(), &lang)) {
            Ok(Ok(s)) => ensure!(s == orig.0 && s.language_version() == lang && s.hash() == orig.0.hash(), "roundtrip/plutus-script-version", "script differs after from_bytes_with_version"),
            Ok(Err(er)) => fail!("roundtrip/plutus-script-decode", "{:?}", er),
            Err(p) => fail!("roundtrip/plutus-script-panic", "{}", p.msg),
        }
    }
    ctx.label(&format!("type:{}", name));
    if interesting {
        ctx.nontrivial(fp_mix(fp64(name.as_bytes()), fp64(&b)));
        if ctx.wants_sample(name) {
            let d = if e.is_cbor() { cbor::parse_document(&b).map(|n| n.diag()).unwrap_or_default() } else { String::new() };
            ctx.sample(name, || format!("{} [{}] {} bytes: {} {}", name, how, b.len(), hex::encode(&b[..b.len().min(120)]), d));
        }
    }
    Ok(())
}

fn budget(tier: Tier) -> (u32, usize) {
    tier.pick((4, 25), (8, 40))
}

fn roundtrip(ctx: &mut Ctx, tape: &[u8]) -> CaseResult {
    ENTRIES.with(|es| {
        let (d, c) = budget(ctx.tier);
        let mut g = Gen::new(tape, d, c);
        let k = g.t.choose(es.len());
        let e = &es[k];
        let v = match catch(|| (e.make)(&mut g)) {
            Ok(v) => v,
            Err(p) => {
                if p.in_engine() {
                    panic!("generator for {} panicked: {} at {}:{}", e.name, p.msg, p.file, p.line);
                }
                fail!(format!("roundtrip/constructor-panic/{}|{}", e.name, p.cause()), "building a {} through the public API panicked: {}", e.name, p.msg)
            }
        };
        check_roundtrip(ctx, e, v.as_ref(), g.interesting, "tape")
    })
}

// every type gets a guaranteed floor of cases, independent of the random choice of type
const FLOOR_PER_TYPE: u64 = 600;
fn floor_count(t: Tier) -> u64 {
    ENTRIES.with(|es| es.len() as u64) * t.pick(FLOOR_PER_TYPE, 20 * FLOOR_PER_TYPE)
}
fn floor_make(_t: Tier, i: u64) -> Vec<u8> {
    // a pseudo-random tape derived from the index (deterministic enumeration, not proptest)
    let mut out = i.to_le_bytes().to_vec();
    let mut x = i.wrapping_mul(0x9E37_79B9_7F4A_7C15) ^ 0x5555_AAAA_1234_5678;
    let len = 8 + (i % 7) * 24;
    for _ in 0..len {
        x ^= x << 13;
        x ^= x >> 7;
        x ^= x << 17;
        out.push((x >> 32) as u8);
    }
    out
}
fn floor_case(ctx: &mut Ctx, input: &[u8]) -> CaseResult {
    ENTRIES.with(|es| {
        let i = idx(input);
        let e = &es[(i % es.len() as u64) as usize];
        let (d, c) = budget(ctx.tier);
        let mut g = Gen::new(&input[8..], d, c);
        let v = match catch(|| (e.make)(&mut g)) {
            Ok(v) => v,
            Err(p) => {
                if p.in_engine() {
                    panic!("generator for {} panicked: {} at {}:{}", e.name, p.msg, p.file, p.line);
                }
                fail!(format!("roundtrip/constructor-panic/{}|{}", e.name, p.cause()), "building a {} through the public API panicked: {}", e.name, p.msg)
            }
        };
        check_roundtrip(ctx, e, v.as_ref(), g.interesting, "floor")
    })
}

fn entry_named(es: &[Entry], n: &str) -> usize {
    es.iter().position(|e| e.name == n).expect("entry")
}

fn body_mask_case(ctx: &mut Ctx, input: &[u8]) -> CaseResult {
    let mask = idx(input);
    // contents: minimal (dry tape) for most masks, boundary-rich for a slice of them
    let filler: Vec<u8> = if mask % 8 == 3 { floor_make(Tier::Quick, mask)[8..].to_vec() } else { Vec::new() };
    let mut g = Gen::new(&filler, 2, 3);
    let mut ins = TransactionInputs::new();
    ins.add(&tx_input(&mut g));
    let mut b = TransactionBody::new_tx_body(&ins, &TransactionOutputs::new(), &bn(mask % 5000));
    for i in 0..18 {
        if mask >> i & 1 == 1 {
            body_set_field(&mut g, &mut b, i);
        }
    }
    ctx.label(&format!("body-mask-weight:{}", mask.count_ones()));
    ENTRIES.with(|es| {
        let e = &es[entry_named(es, "TransactionBody")];
        check_roundtrip(ctx, e, &b, mask != 0, "presence-mask")?;
        // the same body inside a transaction
        if mask % 16 == 5 {
            let tx = Transaction::new(&b, &TransactionWitnessSet::new(), None);
            let e = &es[entry_named(es, "Transaction")];
            check_roundtrip(ctx, e, &tx, true, "presence-mask")?;
        }
        Ok(())
    })
}

fn ppu_masks_small() -> Vec<u64> {
    let n = PPU_FIELDS as u64;
    let full = (1u64 << n) - 1;
    let mut v = vec![0u64, full];
    for i in 0..n {
        v.push(1 << i);
        v.push(full ^ (1 << i));
        for j in (i + 1)..n {
            v.push((1 << i) | (1 << j));
            v.push(full ^ ((1 << i) | (1 << j)));
        }
    }
    v
}
fn ppu_count(t: Tier) -> u64 {
    ppu_masks_small().len() as u64 + t.pick(60_000, 2_000_000)
}
fn ppu_mask_case(ctx: &mut Ctx, input: &[u8]) -> CaseResult {
    let i = idx(input);
    let small = ppu_masks_small();
    let mask = if (i as usize) < small.len() {
        small[i as usize]
    } else {
        // seeded sample
        fp_mix(i, 0xC01) & ((1u64 << PPU_FIELDS) - 1)
    };
    let filler: Vec<u8> = if i % 4 == 1 { floor_make(Tier::Quick, i)[8..].to_vec() } else { Vec::new() };
    let mut g = Gen::new(&filler, 1, 3);
    let mut p = ProtocolParamUpdate::new();
    for f in 0..PPU_FIELDS {
        if mask >> f & 1 == 1 {
            ppu_set_field(&mut g, &mut p, f);
        }
    }
    ENTRIES.with(|es| {
        let e = &es[entry_named(es, "ProtocolParamUpdate")];
        check_roundtrip(ctx, e, &p, mask != 0, "presence-mask")?;
        if i % 8 == 2 {
            let a = ParameterChangeAction::new(&p);
            let e = &es[entry_named(es, "ParameterChangeAction")];
            check_roundtrip(ctx, e, &a, true, "presence-mask")?;
        }
        Ok(())
    })
}

const ALPHABET: [u8; 6] = [0x00, 0x10, 0x55, 0x80, 0xAA, 0xFF];
const VARIANT_GROUPS: usize = 19 + 7 + 3 + 6 + 4 + 3;

fn tapes_per_variant(t: Tier) -> u64 {
    t.pick(6u64.pow(5), 6u64.pow(6))
}
fn variants_count(t: Tier) -> u64 {
    VARIANT_GROUPS as u64 * tapes_per_variant(t)
}
fn variant_case(ctx: &mut Ctx, input: &[u8]) -> CaseResult {
    let i = idx(input);
    let per = tapes_per_variant(ctx.tier);
    let group = (i / per) as usize;
    let mut code = i % per;
    let len = ctx.tier.pick(5, 6);
    let mut tape = Vec::with_capacity(len);
    for _ in 0..len {
        tape.push(ALPHABET[(code % 6) as usize]);
        code /= 6;
    }
    let mut g = Gen::new(&tape, 2, 3);
    ENTRIES.with(|es| {
        if group < 19 {
            let c = certificate_kind(&mut g, group);
            ctx.label(&format!("variant:certificate:{}", group));
            check_roundtrip(ctx, &es[entry_named(es, "Certificate")], &c, true, "variant-sweep")
        } else if group < 26 {
            let a = governance_action_kind(&mut g, group - 19);
            ctx.label(&format!("variant:gov_action:{}", group - 19));
            check_roundtrip(ctx, &es[entry_named(es, "GovernanceAction")], &a, true, "variant-sweep")
        } else if group < 29 {
            let r = crate::gen::registry::relay_kind(&mut g, group - 26);
            ctx.label(&format!("variant:relay:{}", group - 26));
            check_roundtrip(ctx, &es[entry_named(es, "Relay")], &r, true, "variant-sweep")
        } else if group < 35 {
            // native script kinds: force the kind by prefixing the tape byte that selects it
            let k = group - 29;
            let mut t2 = vec![((k * 256 + 128) / 6) as u8];
            t2.extend_from_slice(&tape);
            let mut g2 = Gen::new(&t2, 2, 3);
            let s = native_script(&mut g2);
            ctx.label(&format!("variant:native_script:{}", k));
            check_roundtrip(ctx, &es[entry_named(es, "NativeScript")], &s, true, "variant-sweep")
        } else if group < 39 {
            let k = group - 35;
            let mut t2 = vec![((k * 256 + 128) / 4) as u8];
            t2.extend_from_slice(&tape);
            let mut g2 = Gen::new(&t2, 2, 3);
            let d = drep(&mut g2);
            check_roundtrip(ctx, &es[entry_named(es, "DRep")], &d, true, "variant-sweep")
        } else {
            let k = group - 39;
            let mut t2 = vec![((k * 256 + 128) / 3) as u8];
            t2.extend_from_slice(&tape);
            let mut g2 = Gen::new(&t2, 2, 3);
            let v = voter(&mut g2);
            check_roundtrip(ctx, &es[entry_named(es, "Voter")], &v, true, "variant-sweep")
        }
    })
}

/// FixedTransaction built through the public API (loaded, then given more witnesses through every adder): the same
/// round-trip clauses as for every other type, with equality taken over its getters.
fn fixed_tx_case(ctx: &mut Ctx, tape: &[u8]) -> CaseResult {
    let (plan, content) = split_plan(tape, 24);
    let mut g = Gen::new(content, 3, 4);
    let tx = transaction(&mut g);
    let b0 = tx.to_bytes();
    let mut t = Tape::new(plan);
    let lib = |what: &str, p: PanicInfo| Failure::new(format!("fixed_tx/panic/{}|{}", what, p.cause()), format!("{} panicked at {}:{}: {}", what, p.file, p.line, p.msg));
    let route = t.choose(3);
    let mut ftx = match route {
        0 => match catch(|| FixedTransaction::from_bytes(b0.clone())).map_err(|p| lib("from_bytes", p))? {
            Ok(f) => f,
            Err(e) => fail!("fixed_tx/own-encoding-rejected", "FixedTransaction::from_bytes rejects Transaction::to_bytes: {:?} {}", e, hex::encode(&b0)),
        },
        _ => {
            let body = tx.body().to_bytes();
            let wits = tx.witness_set().to_bytes();
            let r = match (route, tx.auxiliary_data()) {
                (2, Some(a)) => catch(|| FixedTransaction::new_with_auxiliary(&body, &wits, &a.to_bytes(), tx.is_valid())).map_err(|p| lib("new_with_auxiliary", p))?,
                _ => catch(|| FixedTransaction::new(&body, &wits, tx.is_valid())).map_err(|p| lib("new", p))?,
            };
            match r {
                Ok(f) => f,
                Err(e) => fail!("fixed_tx/own-parts-rejected", "FixedTransaction::new rejects the parts of a generated transaction: {:?} {}", e, hex::encode(&b0)),
            }
        }
    };
    ctx.label(["fixed_tx:route:from_bytes", "fixed_tx:route:new", "fixed_tx:route:new_with_auxiliary"][route]);
    let had_boots = tx.witness_set().bootstraps().map(|b| b.len() > 0).unwrap_or(false);
    let had_vkeys = tx.witness_set().vkeys().map(|b| b.len() > 0).unwrap_or(false);
    let n_ops = t.choose(6);
    let mut history: Vec<&'static str> = Vec::new();
    for _ in 0..n_ops {
        match t.choose(6) {
            0 => {
                let sk = PrivateKey::from_normal_bytes(&t.pooled(4, 32, 40)).expect("32 bytes");
                match catch(|| ftx.sign_and_add_vkey_signature(&sk)).map_err(|p| lib("sign_and_add_vkey_signature", p))? {
                    Ok(()) => history.push("sign_vkey"),
                    Err(_) => {}
                }
            }
            1 => {
                let seed = t.bytes(6);
                let mut g2 = Gen::new(&seed, 1, 1);
                let w = vkeywitness(&mut g2);
                catch(|| ftx.add_vkey_witness(&w)).map_err(|p| lib("add_vkey_witness", p))?;
                history.push("add_vkey_witness");
            }
            2 | 3 => {
                let seed = t.bytes(6);
                let mut g2 = Gen::new(&seed, 1, 1);
                let w = bootstrap_witness(&mut g2);
                catch(|| ftx.add_bootstrap_witness(&w)).map_err(|p| lib("add_bootstrap_witness", p))?;
                history.push("add_bootstrap_witness");
            }
            4 => {
                let root = Bip32PrivateKey::from_bytes(&{
                    let mut b = t.pooled(2, 96, 43);
                    b[0] &= 0b1111_1000;
                    b[31] &= 0b0001_1111;
                    b[31] |= 0b0100_0000;
                    b
                });
                if let Ok(root) = root {
                    let addr = ByronAddress::icarus_from_key(&root.to_public(), NetworkInfo::mainnet().protocol_magic());
                    if let Ok(()) = catch(|| ftx.sign_and_add_icarus_bootstrap_signature(&addr, &root)).map_err(|p| lib("sign_and_add_icarus_bootstrap_signature", p))? {
                        history.push("sign_icarus_bootstrap");
                    }
                }
            }
            _ => {
                // through the wire in between
                let mid = catch(|| ftx.to_bytes()).map_err(|p| lib("to_bytes", p))?;
                ftx = match catch(|| FixedTransaction::from_bytes(mid.clone())).map_err(|p| lib("from_bytes", p))? {
                    Ok(f) => f,
                    Err(e) => fail!("fixed_tx/own-output-rejected", "after {:?}: from_bytes rejects the value's own encoding: {:?} {}", history, e, hex::encode(&mid)),
                };
                history.push("to_bytes+from_bytes");
            }
        }
    }
    let b = catch(|| ftx.to_bytes()).map_err(|p| lib("to_bytes", p))?;
    if let Err(e) = cbor::parse_document(&b) {
        fail!("fixed_tx/malformed-cbor", "after {:?}: to_bytes is not one well-formed CBOR item ({}): {}", history, e, hex::encode(&b))
    }
    let f2 = match catch(|| FixedTransaction::from_bytes(b.clone())).map_err(|p| lib("from_bytes", p))? {
        Ok(f) => f,
        Err(e) => fail!("fixed_tx/decode-fails", "after {:?}: from_bytes rejects the value's own encoding: {:?} {}", history, e, hex::encode(&b)),
    };
    let h = format!("route {} history {:?}", route, history);
    ensure!(f2.body() == ftx.body(), "fixed_tx/decoded-differs/body", "{}: {}", h, hex::encode(&b));
    let (w1, w2) = (ftx.witness_set(), f2.witness_set());
    let count = |w: &TransactionWitnessSet| (w.vkeys().map(|x| x.len()).unwrap_or(0), w.bootstraps().map(|x| x.len()).unwrap_or(0));
    ensure!(
        w1 == w2 || equal_modulo_empty_json(&w1.to_json().unwrap_or_default(), &w2.to_json().unwrap_or_default()),
        "fixed_tx/decoded-differs/witness-set",
        "{}: the value holds (vkeys, bootstraps) = {:?}, its decoded encoding {:?}; bytes {}",
        h, count(&w1), count(&w2), hex::encode(&b)
    );
    ensure!(f2.is_valid() == ftx.is_valid(), "fixed_tx/decoded-differs/is_valid", "{}", h);
    ensure!(f2.auxiliary_data() == ftx.auxiliary_data(), "fixed_tx/decoded-differs/auxiliary-data", "{}: {}", h, hex::encode(&b));
    ensure!(f2.transaction_hash().to_bytes() == ftx.transaction_hash().to_bytes(), "fixed_tx/decoded-differs/transaction-hash", "{}", h);
    let b2 = catch(|| f2.to_bytes()).map_err(|p| lib("to_bytes", p))?;
    ensure!(b2 == b, "fixed_tx/re-encoding-differs", "{}: {} then {}", h, hex::encode(&b), hex::encode(&b2));
    let hx = catch(|| ftx.to_hex()).map_err(|p| lib("to_hex", p))?;
    ensure!(hx == hex::encode(&b), "fixed_tx/to_hex-differs-from-to_bytes", "{}", h);
    for text in [hx.clone(), hx.to_uppercase()] {
        match catch(|| FixedTransaction::from_hex(&text)).map_err(|p| lib("from_hex", p))? {
            Ok(f3) => ensure!(f3.to_bytes() == b, "fixed_tx/from_hex-differs-from-from_bytes", "{}", h),
            Err(e) => fail!("fixed_tx/from_hex-rejects", "{}: {:?}", h, e),
        }
    }
    for op in &history {
        ctx.label(&format!("fixed_tx:op:{}", op));
    }
    if history.iter().any(|x| *x == "add_bootstrap_witness" || *x == "sign_icarus_bootstrap") && had_boots {
        ctx.label("fixed_tx:bootstrap-added-to-existing-bootstraps");
    }
    if history.iter().any(|x| *x == "add_vkey_witness" || *x == "sign_vkey") && had_vkeys {
        ctx.label("fixed_tx:vkey-added-to-existing-vkeys");
    }
    if !history.is_empty() {
        ctx.nontrivial(fp64(&b));
        ctx.sample("fixed_tx", || format!("{} -> {} bytes", h, b.len()));
    }
    Ok(())
}

fn equal_modulo_empty_json(a: &str, b: &str) -> bool {
    let (mut va, mut vb): (J, J) = match (serde_json::from_str(a), serde_json::from_str(b)) {
        (Ok(x), Ok(y)) => (x, y),
        _ => return false,
    };
    normalise_json(&mut va, None);
    normalise_json(&mut vb, None);
    va == vb
}
