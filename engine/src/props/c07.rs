//! C07 — minimum-ADA and size limits hold for everything the builder emits.
//!
//! Sub-checks of this module (numbering of DESIGN.md §5 "C07"):
//!   (1) `min_ada`, `min_ada_enum`        — `min_ada_for_output` / `MinOutputAdaCalculator`
//!   (2) `add_output`, `mint_output`      — admission by `TransactionBuilder::add_output` and the
//!                                          `add_mint_asset_and_output*` helpers
//!   (3) built transactions of the scenario engine — added by the main session (marked place in `property()`)
//!   (4) `output_builder`, `output_builder_addresses` — `with_asset_and_min_required_coin_by_utxo_cost`
//!
//! The oracle never trusts a size reported by the library: every bound is evaluated on the bytes the
//! library emits, read with the engine's own CBOR reader (size of the output item, the coin found
//! inside it, the byte range of its value), and in 128-bit arithmetic.
use crate::cbor;
use crate::runner::*;
use crate::tape::*;
use cardano_serialization_lib as csl;
use csl::*;

pub fn property() -> Property {
    Property {
        id: "C07",
        rule: "outputs decoded from the tape (address kind and length, coin, bundle, datum, script reference; a plan header fixes the class of every part so short tapes still reach every class) with a coins-per-byte value drawn from width classes, from cpb*(160+size) aimed just below / at a CBOR width border (256, 65536, 2^32: by fitting cpb to the size, or by padding the bundle to the exact size that fits cpb) and from the u64 overflow edge; non-trivial = the output has assets, a datum or a script reference, or its non-zero coin / the returned minimum lies within 8*cpb (one coin-width step) of a width border (24, 256, 65536, 2^32), or the answer is Err; distinct by hash of (emitted output bytes, cpb[, max value size])",
        assumptions: vec![
            "the bound is evaluated on the emitted bytes: size = length of the CBOR item the library writes for the output, coin = the unsigned integer found in its value, both read with the engine's CBOR reader; arithmetic in u128".into(),
            "Err from the minimum-ADA function is accepted exactly when cpb*(160 + size of the output with coin 2^64-1) exceeds u64 (the statement's 'that product'); an Ok answer in that region is still checked against both bounds".into(),
            "the property does not ask for the LEAST admissible coin: an answer equal to the widest-coin bound is accepted; how often the answer is the least fixed point is recorded as a label only".into(),
            "admission checks are one-directional as stated (accepted => bound and value size hold); rejected outputs are only counted (labels say how many of them would have met the bound)".into(),
            "outputs held by a TransactionBuilder are observed through build() with a zero fee and max_tx_size = 2^32-1 (the transaction-size clause belongs to sub-check (3)): the outputs are cut out of the emitted body bytes".into(),
            "the output-builder helper returning Err yields no output and is only counted; the share of Ok answers is guarded by a required label fraction".into(),
            "Byron addresses with a derivation-path attribute are assembled by hand ([#6.24(bytes), crc32]) and loaded through ByronAddress::from_bytes; malformed addresses are obtained by decoding an output whose address bytes do not parse (the only public route to that kind)".into(),
        ],
        subchecks: vec![
            // (1)
            SubCheck { name: "min_ada", kind: Kind::Tape { quick: 400_000, thorough: 6_000_000, max_len: 192 }, run: min_ada_case },
            SubCheck {
                name: "min_ada_enum",
                kind: Kind::Enum { count: enum_count, make: enum_make, exhaustive_note: "cpb 1..=700 x 12 fixed output shapes x {as is, bundle padded so that 160+size = floor(B/cpb)+k, k in -2..=1, B the nearest reachable width border 256 / 65536} x 6 start coins (0, least fixed point -1 / +0, 24, 65536, 2^64-1)" },
                run: min_ada_enum_case,
            },
            // (2)
            SubCheck { name: "add_output", kind: Kind::Tape { quick: 120_000, thorough: 1_500_000, max_len: 192 }, run: add_output_case },
            SubCheck { name: "collateral_return", kind: Kind::Tape { quick: 150_000, thorough: 3_000_000, max_len: 192 }, run: collateral_return_case },
            SubCheck { name: "mint_output", kind: Kind::Tape { quick: 40_000, thorough: 600_000, max_len: 160 }, run: mint_output_case },
            // (3) built transactions of the scenario engine (props/builder.rs::c07_built_case)
            SubCheck { name: "built_tx", kind: Kind::Tape { quick: 300_000, thorough: 8_000_000, max_len: 500 }, run: super::builder::c07_built_case },
            // (4)
            SubCheck { name: "output_builder", kind: Kind::Tape { quick: 250_000, thorough: 4_000_000, max_len: 192 }, run: output_builder_case },
            SubCheck {
                name: "output_builder_addresses",
                kind: Kind::Enum { count: oba_count, make: enum_make, exhaustive_note: "110 addresses (base, enterprise, reward, pointer of every encoded length 32..=59, Icarus Byron with 6 protocol magics, Byron with a derivation-path attribute of 0..=64 / 100 / 255 / 256 / 1000 bytes, malformed of 30 / 57 / 58 / 100 bytes) x 6 output feature sets x cpb in {1, 4310, 1000000}" },
                run: oba_case,
            },
        ],
        crash_prone: false,
        max_reject_fraction: 0.02,
        required_label_fraction: vec![
            ("min_ada", "min_ada:ok", 0.6),
            ("min_ada", "min_ada:width-crossing>=1", 0.3),
            ("min_ada", "min_ada:width-crossing>=2", 0.03),
            ("add_output", "add_output:case-with-accepted-output", 0.5),
            ("mint_output", "mint_output:case-with-accepted-output", 0.5),
            ("output_builder", "output_builder:ok", 0.6),
        ],
    }
}

// ---------------------------------------------------------------------------------------------
// reading emitted bytes

pub struct Emitted {
    pub size: usize,
    pub coin: u64,
    pub value_len: usize,
}

fn read_output_node(n: &cbor::Node) -> Result<Emitted, String> {
    let value = match &n.kind {
        cbor::Kind::Array { items, .. } if items.len() >= 2 => &items[1],
        cbor::Kind::Map { .. } => n.map_get(1).ok_or_else(|| "map-form output without key 1".to_string())?,
        _ => return Err("output is neither an array of >= 2 items nor a map".into()),
    };
    let coin = match &value.kind {
        cbor::Kind::UInt(v) => *v,
        cbor::Kind::Array { items, .. } if !items.is_empty() => items[0].as_u64().ok_or_else(|| "value[0] is not an unsigned integer".to_string())?,
        _ => return Err("value is neither an unsigned integer nor an array".into()),
    };
    Ok(Emitted { size: n.end - n.start, coin, value_len: value.end - value.start })
}

pub fn read_output(bytes: &[u8]) -> Result<Emitted, String> {
    let n = cbor::parse_document(bytes).map_err(|e| format!("not exactly one CBOR item ({})", e))?;
    read_output_node(&n)
}

pub fn bound(cpb: u64, size: usize) -> u128 {
    cpb as u128 * (160u128 + size as u128)
}

/// Shared oracle for one emitted output (also meant for sub-check (3)): bound and optional value-size limit.
/// `sig_prefix` names the sub-check / route, e.g. "add_output".
pub fn check_emitted_output(bytes: &[u8], cpb: u64, max_value_size: Option<u32>, sig_prefix: &str, what: &str) -> CaseResult {
    let em = match read_output(bytes) {
        Ok(e) => e,
        Err(m) => fail!(format!("{}/emitted-output-unreadable", sig_prefix), "{}: {} — bytes {}", what, m, hexs(bytes)),
    };
    let need = bound(cpb, em.size);
    ensure!(
        em.coin as u128 >= need,
        format!("{}/emitted-output-below-bound", sig_prefix),
        "{}: coin {} < {} = {} x (160 + {} bytes); output {}",
        what,
        em.coin,
        need,
        cpb,
        em.size,
        hexs(bytes)
    );
    if let Some(mvs) = max_value_size {
        ensure!(em.value_len as u64 <= mvs as u64, format!("{}/emitted-value-above-max-size", sig_prefix), "{}: value takes {} bytes, max_value_size = {}; output {}", what, em.value_len, mvs, hexs(bytes));
    }
    Ok(())
}

fn hexs(b: &[u8]) -> String {
    if b.len() <= 400 {
        hex::encode(b)
    } else {
        format!("{}…({} bytes)", hex::encode(&b[..400]), b.len())
    }
}

/// a library call that must not panic here; a panic becomes a failure with the panic's stable cause
fn lib<T>(sub: &str, what: &str, f: impl FnOnce() -> T) -> Result<T, Failure> {
    catch(f).map_err(|p| Failure::new(format!("{}/panic/{}|{}", sub, what, p.cause()), format!("{} panicked at {}:{}: {}", what, p.file, p.line, p.msg)))
}

fn bn(v: u64) -> BigNum {
    BigNum::from(v)
}

fn un(v: &BigNum) -> u64 {
    (*v).into()
}

// ---------------------------------------------------------------------------------------------
// output specification: parts from which the same output can be rebuilt with any coin

#[derive(Clone)]
enum DatumSpec {
    None,
    Hash(Vec<u8>),
    Inline(PlutusData),
}

#[derive(Clone)]
struct Spec {
    addr: Address,
    kind: &'static str,
    addr_len: usize,
    coin: u64,
    ma: Option<MultiAsset>,
    n_assets: usize,
    datum: DatumSpec,
    script: Option<ScriptRef>,
    script_kind: &'static str,
}

impl Spec {
    fn plain(addr: Address) -> Spec {
        let kind = kind_name(&addr);
        let addr_len = addr.to_bytes().len();
        Spec { addr, kind, addr_len, coin: 0, ma: None, n_assets: 0, datum: DatumSpec::None, script: None, script_kind: "none" }
    }
    fn value(&self, coin: u64) -> Value {
        let mut v = Value::new(&bn(coin));
        if let Some(ma) = &self.ma {
            v.set_multiasset(ma);
        }
        v
    }
    fn output(&self, coin: u64) -> TransactionOutput {
        let mut o = TransactionOutput::new(&self.addr, &self.value(coin));
        match &self.datum {
            DatumSpec::None => {}
            DatumSpec::Hash(h) => o.set_data_hash(&DataHash::from_bytes(h.clone()).expect("32-byte hash")),
            DatumSpec::Inline(d) => o.set_plutus_data(d),
        }
        if let Some(s) = &self.script {
            o.set_script_ref(s);
        }
        o
    }
    fn bytes(&self, coin: u64) -> Vec<u8> {
        self.output(coin).to_bytes()
    }
    /// size with a coin below 24 (one-byte coin)
    fn size0(&self) -> usize {
        self.bytes(0).len()
    }
    fn has_features(&self) -> bool {
        self.n_assets > 0 || !matches!(self.datum, DatumSpec::None) || self.script.is_some()
    }
    fn datum_kind(&self) -> &'static str {
        match self.datum {
            DatumSpec::None => "none",
            DatumSpec::Hash(_) => "hash",
            DatumSpec::Inline(_) => "inline",
        }
    }
    fn describe(&self) -> String {
        format!("address {} ({} bytes), {} assets, datum {}, script ref {}", self.kind, self.addr_len, self.n_assets, self.datum_kind(), self.script_kind)
    }
    fn labels(&self, ctx: &mut Ctx, p: &str) {
        ctx.label(&format!("{}:addr:{}", p, self.kind));
        ctx.label(&format!(
            "{}:addr-len:{}",
            p,
            match self.addr_len {
                0..=29 => "<=29",
                30..=56 => "30..56",
                57 => "57",
                58..=59 => "58..59",
                60..=100 => "60..100",
                _ => ">100",
            }
        ));
        ctx.label(&format!(
            "{}:assets:{}",
            p,
            match self.n_assets {
                0 => "0",
                1 => "1",
                2..=5 => "2..5",
                6..=30 => "6..30",
                31..=120 => "31..120",
                121..=400 => "121..400",
                _ => ">400",
            }
        ));
        ctx.label(&format!("{}:datum:{}", p, self.datum_kind()));
        ctx.label(&format!("{}:script:{}", p, self.script_kind));
    }
}

fn kind_name(a: &Address) -> &'static str {
    match a.kind() {
        AddressKind::Base => "Base",
        AddressKind::Pointer => "Pointer",
        AddressKind::Enterprise => "Enterprise",
        AddressKind::Reward => "Reward",
        AddressKind::Byron => "Byron",
        AddressKind::Malformed => "Malformed",
    }
}

fn coin_extra_width(c: u128) -> usize {
    if c < 24 {
        0
    } else if c <= 0xFF {
        1
    } else if c <= 0xFFFF {
        2
    } else if c <= 0xFFFF_FFFF {
        4
    } else {
        8
    }
}

/// least c with c >= cpb*(160 + size(c)), size(c) = s0 + extra width of c; None when it exceeds u64.
/// Engine-side arithmetic used to STEER generation and for labels, never as the oracle.
fn least_fix(cpb: u64, s0: usize) -> (Option<u64>, u32) {
    let mut c: u128 = 0;
    let mut crossings = 0u32;
    loop {
        let need = cpb as u128 * (160 + s0 + coin_extra_width(c)) as u128;
        if need > u64::MAX as u128 {
            return (None, crossings);
        }
        if need <= c {
            return (Some(c as u64), crossings);
        }
        if coin_extra_width(need) != coin_extra_width(c) {
            crossings += 1;
        }
        c = need;
    }
}

const BORDERS: [u64; 4] = [24, 256, 65536, 1 << 32];

fn near_border(x: u64, cpb: u64) -> bool {
    if x == 0 {
        return false;
    }
    let step = (cpb as u128) * 8;
    BORDERS.iter().any(|b| {
        let d = if x >= *b { x - *b } else { *b - x };
        (d as u128) <= step
    })
}

fn width_class(x: u64) -> &'static str {
    match coin_extra_width(x as u128) {
        0 => "<24",
        1 => "1B",
        2 => "2B",
        4 => "4B",
        _ => "8B",
    }
}

// ---------------------------------------------------------------------------------------------
// addresses

thread_local! {
    /// Bip32 public keys for Icarus addresses: derived once per thread (key stretching is slow)
    static KEYS: Vec<Vec<u8>> = (0..4u8)
        .map(|i| Bip32PrivateKey::from_bip39_entropy(&[i.wrapping_mul(37).wrapping_add(1); 16], &[]).to_public().as_bytes())
        .collect();
}

fn icarus_key(k: usize) -> Bip32PublicKey {
    KEYS.with(|v| Bip32PublicKey::from_bytes(&v[k % v.len()]).expect("own key bytes"))
}

const MAGICS: [u32; 6] = [764824073, 1, 2, 42, 1097911063, u32::MAX];

fn icarus(k: usize, magic: u32) -> Address {
    ByronAddress::icarus_from_key(&icarus_key(k), magic).to_address()
}

fn crc32(data: &[u8]) -> u32 {
    let mut c = 0xFFFF_FFFFu32;
    for b in data {
        c ^= *b as u32;
        for _ in 0..8 {
            c = if c & 1 != 0 { (c >> 1) ^ 0xEDB8_8320 } else { c >> 1 };
        }
    }
    !c
}

/// Byron address with a derivation-path attribute (Daedalus style), assembled by hand
pub fn byron_with_payload(root: &[u8], hd: &[u8], magic: Option<u32>) -> Option<Address> {
    let mut attrs = vec![(cbor::uint(1), cbor::bytes(hd))];
    if let Some(m) = magic {
        attrs.push((cbor::uint(2), cbor::bytes(&cbor::encode(&cbor::uint(m as u64)))));
    }
    let inner = cbor::encode(&cbor::array(vec![cbor::bytes(root), cbor::map(attrs), cbor::uint(0)]));
    let outer = cbor::encode(&cbor::array(vec![cbor::tag(24, cbor::bytes(&inner)), cbor::uint(crc32(&inner) as u64)]));
    ByronAddress::from_bytes(outer).ok().map(|b| b.to_address())
}

/// an address of kind Malformed: only reachable by decoding an output whose address bytes do not parse
fn malformed(bytes: &[u8]) -> Option<Address> {
    let doc = cbor::encode(&cbor::array(vec![cbor::bytes(bytes), cbor::uint(0)]));
    let o = TransactionOutput::from_bytes(doc).ok()?;
    let a = o.address();
    if a.is_malformed() {
        Some(a)
    } else {
        None
    }
}

fn hash28(t: &mut Tape, dom: u8) -> Vec<u8> {
    if t.chance(160) {
        t.pooled(6, 28, dom)
    } else {
        t.bytes(28)
    }
}

fn cred(t: &mut Tape, dom: u8) -> Credential {
    let b = hash28(t, dom);
    if t.bool() {
        Credential::from_scripthash(&ScriptHash::from_bytes(b).expect("28 bytes"))
    } else {
        Credential::from_keyhash(&Ed25519KeyHash::from_bytes(b).expect("28 bytes"))
    }
}

fn net(t: &mut Tape) -> u8 {
    [1u8, 0, 15, 7][t.choose(4)]
}

fn base_addr_fixed() -> Address {
    BaseAddress::new(1, &Credential::from_keyhash(&Ed25519KeyHash::from_bytes(pool_bytes(1, 28, 70)).unwrap()), &Credential::from_keyhash(&Ed25519KeyHash::from_bytes(pool_bytes(2, 28, 70)).unwrap())).to_address()
}

/// value that takes exactly n bytes (1..=10) in the pointer's 7-bit variable-length encoding
fn varint_value(n: usize) -> u64 {
    if n >= 10 {
        u64::MAX
    } else {
        (1u64 << (7 * n)) - 1
    }
}

fn pointer_addr(network: u8, c: &Credential, a: u64, b: u64, d: u64) -> Address {
    PointerAddress::new(network, c, &Pointer::new_pointer(&bn(a), &bn(b), &bn(d))).to_address()
}

fn gen_address(t: &mut Tape, choice: usize) -> Address {
    match choice {
        0 => BaseAddress::new(net(t), &cred(t, 71), &cred(t, 72)).to_address(),
        1 => EnterpriseAddress::new(net(t), &cred(t, 71)).to_address(),
        2 => RewardAddress::new(net(t), &cred(t, 71)).to_address(),
        3 => {
            let (a, b, d) = (t.u64_class(), t.u64_class(), t.u64_class());
            pointer_addr(net(t), &cred(t, 71), a, b, d)
        }
        4 => {
            // long pointers: components of 8..=10 encoded bytes
            let mut v = [0u64; 3];
            for x in v.iter_mut() {
                *x = [u64::MAX, 1 << 63, (1 << 63) - 1, 1 << 56, (1 << 56) - 1, 1 << 49][t.choose(6)];
            }
            pointer_addr(net(t), &cred(t, 71), v[0], v[1], v[2])
        }
        5 => {
            let k = t.choose(4);
            let magic = if t.chance(40) { t.u32_class() } else { MAGICS[t.choose(MAGICS.len())] };
            icarus(k, magic)
        }
        6 | 7 => {
            let root = hash28(t, 73);
            let n = match t.choose(8) {
                0 => 30,
                1 => 28,
                2 => 0,
                3 => 23,
                4 => 24,
                5 => t.range(0, 64),
                6 => t.range(65, 300),
                _ => [255usize, 256, 1000][t.choose(3)],
            };
            let hd = t.bytes(n);
            let magic = match t.choose(4) {
                0 | 1 => None,
                2 => Some(MAGICS[t.choose(MAGICS.len())]),
                _ => Some(t.u32_class()),
            };
            byron_with_payload(&root, &hd, magic).unwrap_or_else(|| icarus(0, 764824073))
        }
        8 => {
            if t.chance(128) {
                let n = [1usize, 28, 29, 30, 56, 57, 58, 64, 100, 300][t.choose(10)];
                let mut b = t.bytes(n);
                // header nibble 9 is no address type
                b[0] = 0x90 | (b[0] & 0x0F);
                malformed(&b).unwrap_or_else(base_addr_fixed)
            } else {
                BaseAddress::new(net(t), &cred(t, 71), &cred(t, 72)).to_address()
            }
        }
        _ => EnterpriseAddress::new(net(t), &cred(t, 71)).to_address(),
    }
}

// ---------------------------------------------------------------------------------------------
// bundles, datums, script references

fn name_bytes(i: usize, len: usize, seed: u8) -> Vec<u8> {
    let mut v = vec![seed; len];
    if len >= 2 {
        v[0] = (i >> 8) as u8;
        v[1] = i as u8;
    } else if len == 1 {
        v[0] = i as u8;
    }
    v
}

fn policy_bytes(i: usize, seed: u8) -> Vec<u8> {
    let mut v = pool_bytes(seed, 28, 74);
    v[0] = (i >> 8) as u8;
    v[1] = i as u8;
    v
}

fn gen_assets(t: &mut Tape, tier: Tier, choice: usize, aux: usize) -> Option<(MultiAsset, usize)> {
    let n = match choice {
        0..=3 => return None,
        4 => 1,
        5 => t.range(2, 5),
        6 => t.range(6, 30),
        7 => t.range(31, 120),
        8 => tier.pick(t.range(1, 40), t.range(121, 400)),
        _ => tier.pick(t.range(121, 200), t.range(401, 600)),
    };
    let shape = aux % 4;
    let qmode = (aux / 4) % 4;
    let name_len_idx = (aux / 16) % 6;
    let seed = t.byte();
    let quantity = |t: &mut Tape, i: usize| -> u64 {
        match qmode {
            0 => 1,
            1 => u64::MAX,
            2 => (i as u64 + 1) * 1000,
            _ => {
                if t.is_dry() {
                    i as u64 + 1
                } else {
                    t.u64_class()
                }
            }
        }
    };
    let mut ma = MultiAsset::new();
    let mut count = 0usize;
    match shape {
        0 => {
            // one policy, n names
            let len = [32usize, 31, 24, 23, 8, 2][name_len_idx];
            let mut a = Assets::new();
            for i in 0..n {
                let q = quantity(t, i);
                a.insert(&AssetName::new(name_bytes(i, len, seed)).expect("name"), &bn(q));
                count += 1;
            }
            ma.insert(&ScriptHash::from_bytes(policy_bytes(0, seed)).unwrap(), &a);
        }
        1 | 2 => {
            // n policies, one name each (empty or 32 bytes)
            let len = if shape == 1 { 0 } else { 32 };
            for i in 0..n {
                let mut a = Assets::new();
                let q = quantity(t, i);
                a.insert(&AssetName::new(name_bytes(i, len, seed)).expect("name"), &bn(q));
                ma.insert(&ScriptHash::from_bytes(policy_bytes(i, seed)).unwrap(), &a);
                count += 1;
            }
        }
        _ => {
            // about sqrt(n) policies with mixed name lengths
            let mut p = 1usize;
            while p * p < n {
                p += 1;
            }
            let per = (n + p - 1) / p;
            let mut i = 0usize;
            for pi in 0..p {
                let mut a = Assets::new();
                for _ in 0..per {
                    if i >= n {
                        break;
                    }
                    let len = [32usize, 8, 2, 31, 0][i % 5];
                    let len = if len == 0 && a.len() > 0 { 3 } else { len };
                    let q = quantity(t, i);
                    if a.insert(&AssetName::new(name_bytes(i, len, seed)).expect("name"), &bn(q)).is_none() {
                        count += 1;
                    }
                    i += 1;
                }
                if a.len() > 0 {
                    ma.insert(&ScriptHash::from_bytes(policy_bytes(pi, seed)).unwrap(), &a);
                }
            }
        }
    }
    Some((ma, count))
}

fn gen_datum(t: &mut Tape, choice: usize, aux: usize) -> DatumSpec {
    match choice {
        0..=3 => DatumSpec::None,
        4 => DatumSpec::Hash(t.bytes(32)),
        5 => DatumSpec::Inline(match t.choose(4) {
            0 => PlutusData::new_integer(&BigInt::from(t.u64_class())),
            1 => {
                let n = [0usize, 1, 23, 24, 63, 64][t.choose(6)];
                PlutusData::new_bytes(t.bytes(n))
            }
            2 => PlutusData::new_empty_constr_plutus_data(&bn([0u64, 6, 7, 127, 128, u64::MAX][t.choose(6)])),
            _ => {
                let mut l = PlutusList::new();
                l.add(&PlutusData::new_integer(&BigInt::from(t.u64_class())));
                l.add(&PlutusData::new_bytes(t.bytes(8)));
                PlutusData::new_list(&l)
            }
        }),
        6 => {
            // one long byte string (the library writes it in 64-byte chunks)
            let n = [65usize, 128, 255, 256, 1000, 4000, 8000][aux % 7] + t.range(0, 63);
            let mut b = vec![0x5Au8; n];
            let head = t.bytes(8);
            b[..8].copy_from_slice(&head);
            DatumSpec::Inline(PlutusData::new_bytes(b))
        }
        _ => {
            // a list of k byte strings, up to about 8 KB
            let k = [1usize, 3, 23, 24, 60, 120][aux % 6];
            let item = [0usize, 8, 32, 64][(aux / 6) % 4];
            let mut l = PlutusList::new();
            for i in 0..k {
                l.add(&PlutusData::new_bytes(name_bytes(i, item, 0x33)));
            }
            DatumSpec::Inline(PlutusData::new_list(&l))
        }
    }
}

fn pubkey_script(k: u8) -> NativeScript {
    NativeScript::new_script_pubkey(&ScriptPubkey::new(&Ed25519KeyHash::from_bytes(pool_bytes(k, 28, 75)).unwrap()))
}

fn gen_script(t: &mut Tape, tier: Tier, choice: usize, aux: usize) -> Option<(ScriptRef, &'static str)> {
    match choice {
        0..=4 => None,
        5 => {
            let ns = match aux % 4 {
                0 => pubkey_script(t.choose(6) as u8),
                1 => {
                    let n = [0usize, 1, 2, 23, 24, 40][(aux / 4) % 6];
                    let mut l = NativeScripts::new();
                    for i in 0..n {
                        l.add(&pubkey_script(i as u8));
                    }
                    NativeScript::new_script_all(&ScriptAll::new(&l))
                }
                2 => NativeScript::new_timelock_start(&TimelockStart::new_timelockstart(&bn(t.u64_class()))),
                _ => {
                    let mut l = NativeScripts::new();
                    l.add(&pubkey_script(1));
                    l.add(&NativeScript::new_timelock_expiry(&TimelockExpiry::new_timelockexpiry(&bn(t.u64_class()))));
                    NativeScript::new_script_n_of_k(&ScriptNOfK::new(t.u32_class(), &l))
                }
            };
            Some((ScriptRef::new_native_script(&ns), "native"))
        }
        _ => {
            let n = match aux % 10 {
                0 => 0,
                1 => 1,
                2 => 23,
                3 => 24,
                4 => 255,
                5 => 256,
                6 => 1000,
                7 => 4000,
                8 => 8000,
                _ => tier.pick(300, 16000),
            };
            let mut b = vec![0xC3u8; n];
            let head = t.bytes(n.min(6));
            b[..head.len()].copy_from_slice(&head);
            let (lang, name) = match choice {
                6 => (Language::new_plutus_v1(), "plutus-v1"),
                7 => (Language::new_plutus_v2(), "plutus-v2"),
                _ => (Language::new_plutus_v3(), "plutus-v3"),
            };
            Some((ScriptRef::new_plutus_script(&PlutusScript::new_with_version(b, &lang)), name))
        }
    }
}

/// Decisions that must not starve when the content eats the tape are drawn first (most tapes are short):
/// the class of every output part, how cpb / the coin / max_value_size are chosen, and their parameters.
struct Plan {
    addr: usize,
    assets: usize,
    datum: usize,
    script: usize,
    cost: CostPlan,
    coin: CoinPlan,
    route: usize,
    mvs: (usize, u64),
    /// bundle layout (shape, quantities, name length) and the size class of datum / script
    aux_assets: usize,
    aux_size: usize,
}

struct CostPlan {
    mode: usize,
    b: usize,
    j: usize,
    d: usize,
    k: usize,
    /// position inside a range that depends on the output's size, 0..=65535
    frac: u64,
    value: u64,
}

struct CoinPlan {
    mode: usize,
    idx: usize,
    value: u64,
}

fn plan(t: &mut Tape) -> Plan {
    let addr = t.choose(10);
    let assets = t.choose(10);
    let datum = t.choose(8);
    let script = t.choose(9);
    let cost_mode = t.choose(12);
    let coin_mode = t.choose(6);
    let route = t.choose(3);
    let mvs_mode = t.choose(8);
    let aux_assets = t.byte() as usize;
    let aux_size = t.byte() as usize;
    let mut cost = CostPlan { mode: cost_mode, b: 0, j: 0, d: 0, k: 0, frac: 0, value: 0 };
    match cost_mode {
        1 => cost.value = t.range_u64(0, 700),
        2 => cost.value = t.u64_class(),
        3 => cost.value = [1u64, 2, 34482, 1000, 1_000_000][t.choose(5)],
        4 | 5 | 6 => {
            cost.b = t.choose(3);
            cost.j = t.choose(10);
            cost.d = t.choose(3);
        }
        7 | 8 => {
            cost.j = t.choose(7);
            cost.d = t.choose(4);
        }
        9 | 10 | 11 => {
            cost.b = t.choose(8);
            cost.k = t.choose(7);
            cost.frac = t.range_u64(0, 65535);
            cost.value = t.range_u64(1, 700);
        }
        _ => {}
    }
    let mut coin = CoinPlan { mode: coin_mode, idx: 0, value: 0 };
    match coin_mode {
        2 => coin.value = t.u64_class(),
        3 | 5 => coin.idx = t.choose(9),
        4 => coin.idx = t.choose(4),
        _ => {}
    }
    let mvs_value = if mvs_mode == 6 { t.u64_class_max(65536) } else { 0 };
    Plan { addr, assets, datum, script, cost, coin, route, mvs: (mvs_mode, mvs_value), aux_assets, aux_size }
}

fn gen_spec(t: &mut Tape, tier: Tier, p: &Plan, with_assets: bool) -> Spec {
    let mut s = Spec::plain(gen_address(t, p.addr));
    if with_assets {
        if let Some((ma, n)) = gen_assets(t, tier, p.assets, p.aux_assets) {
            s.ma = Some(ma);
            s.n_assets = n;
        }
    }
    s.datum = gen_datum(t, p.datum, p.aux_size);
    if let Some((sr, name)) = gen_script(t, tier, p.script, p.aux_size) {
        s.script = Some(sr);
        s.script_kind = name;
    }
    s
}

// ---------------------------------------------------------------------------------------------
// padding a bundle so that the output has an exact size

const PAD_POLICY: [u8; 28] = [0xFA; 28];

fn pad_assets(n: usize, l: usize, q: u64) -> Assets {
    let mut a = Assets::new();
    for i in 0..n {
        let mut name = vec![0xABu8; 32];
        name[0] = 0xFF;
        name[1] = (i >> 8) as u8;
        name[2] = i as u8;
        a.insert(&AssetName::new(name).expect("name"), &bn(1));
    }
    a.insert(&AssetName::new(vec![0u8; l]).expect("name"), &bn(q));
    a
}

fn padded(spec: &Spec, n: usize, l: usize, q: u64) -> Spec {
    let mut s = spec.clone();
    let mut ma = s.ma.clone().unwrap_or_else(MultiAsset::new);
    ma.insert(&ScriptHash::from_bytes(PAD_POLICY.to_vec()).unwrap(), &pad_assets(n, l, q));
    s.ma = Some(ma);
    s.n_assets = spec.n_assets + n + 1;
    s
}

/// the spec with a padding policy added so that the output with a one-byte coin takes exactly
/// `target` bytes; None when that size is not reachable within `max_n` padding assets
fn pad_to(spec: &Spec, target: usize, max_n: usize) -> Option<Spec> {
    if spec.size0() == target {
        return Some(spec.clone());
    }
    let size = |n: usize| padded(spec, n, 0, 1).size0();
    let base = size(0);
    if target < base {
        return None;
    }
    let mut n = ((target - base) / 35).min(max_n);
    let mut s = size(n);
    while s > target && n > 0 {
        n -= 1;
        s = size(n);
    }
    while n < max_n {
        let s2 = size(n + 1);
        if s2 <= target {
            n += 1;
            s = s2;
        } else {
            break;
        }
    }
    if s > target {
        return None;
    }
    let need = target - s;
    const QS: [(u64, usize); 5] = [(1, 0), (24, 1), (256, 2), (65536, 4), (1 << 32, 8)];
    for (q, qd) in QS.iter() {
        for l in 0..=32usize {
            let d = l + if l >= 24 { 1 } else { 0 } + qd;
            if d == need {
                let cand = padded(spec, n, l, *q);
                if cand.size0() == target {
                    return Some(cand);
                }
            }
        }
    }
    None
}

// ---------------------------------------------------------------------------------------------
// coins per byte

struct Cost {
    cpb: u64,
    mode: &'static str,
}

/// resolves the planned cpb; `t0` = 160 + size of the output (one-byte coin) that the function under test will size.
/// In padding mode the spec's bundle is padded so that cpb*(160+size) sits at a width border.
fn gen_cost(c: &CostPlan, spec: &mut Spec, t0: usize, tier: Tier, allow_pad: bool) -> Cost {
    let t0 = t0 as u64;
    match c.mode {
        0 => Cost { cpb: 4310, mode: "mainnet-4310" },
        1 => Cost { cpb: c.value, mode: "0..=700" },
        2 => Cost { cpb: c.value, mode: "width-class" },
        3 => Cost { cpb: c.value, mode: "fixed-list" },
        4 | 5 | 6 => {
            // fit cpb to the size: cpb*(t0+j) just below the border B
            let b = [1u64 << 32, 65536, 256][c.b];
            let cpb = ((b - 1) / (t0 + c.j as u64) + c.d as u64).saturating_sub(1);
            Cost { cpb, mode: "fit-cpb-to-border" }
        }
        7 | 8 => {
            // the u64 overflow edge
            let j = [8u64, 0, 1, 2, 4, 9, 10][c.j];
            let cpb = (u64::MAX / (t0 + j)).saturating_add(c.d as u64).saturating_sub(1);
            Cost { cpb, mode: "overflow-edge" }
        }
        _ => {
            if !allow_pad {
                return Cost { cpb: c.value, mode: "1..=700" };
            }
            // fit the size to cpb: pad the bundle so that 160+size = floor(B/cpb)+k
            let cap_assets = tier.pick(120usize, 600);
            let min_t0 = 160 + padded(spec, 0, 0, 1).size0() as u64;
            let max_t0 = min_t0 + 35 * cap_assets as u64;
            let b = [65536u64, 1 << 32, 65536, 1 << 32, 65536, 1 << 32, 65536, 256][c.b];
            let lo = b / max_t0 + 1;
            let hi = (b / (min_t0 + 5)).max(lo);
            // position 0 = the largest cpb = the smallest padding
            let cpb = hi - (((hi - lo) as u128 * c.frac as u128) / 65535) as u64;
            let k = c.k as i64 - 5;
            let target = (b / cpb) as i64 + k - 160;
            if target + 160 < min_t0 as i64 && target != spec.size0() as i64 {
                return Cost { cpb, mode: "pad-size-to-border-missed(output-too-large-for-any-cpb)" };
            }
            if let Some(p) = pad_to(spec, target as usize, cap_assets + 2) {
                *spec = p;
                return Cost { cpb, mode: "pad-size-to-border" };
            }
            Cost { cpb, mode: "pad-size-to-border-missed(no-exact-fit)" }
        }
    }
}

fn cpb_class(cpb: u64) -> &'static str {
    match cpb {
        0 => "0",
        1..=23 => "1..23",
        24..=700 => "24..700",
        701..=65535 => "701..65535",
        65536..=0xFFFF_FFFF => "2^16..2^32",
        _ => ">=2^32",
    }
}

fn gen_coin(p: &CoinPlan, cpb: u64, s0: usize) -> u64 {
    match p.mode {
        0 | 1 => 0,
        2 => p.value,
        3 => {
            let (m, _) = least_fix(cpb, s0);
            let m = m.unwrap_or(u64::MAX) as i128;
            let c = cpb as i128;
            let d = [-1i128, 0, 1, -c, c, -2 * c, 2 * c, -c - 1, -c + 1][p.idx];
            (m + d).clamp(0, u64::MAX as i128) as u64
        }
        4 => [1_000_000u64, 2_000_000, 969_750, 1_500_000_000][p.idx],
        _ => [23u64, 24, 255, 256, 65535, 65536, 0xFFFF_FFFF, 1 << 32, u64::MAX][p.idx],
    }
}

// ---------------------------------------------------------------------------------------------
// (1) the minimum-ADA function

const ROUTES: [&str; 3] = ["min_ada_for_output", "MinOutputAdaCalculator::new", "MinOutputAdaCalculator::new_empty+setters"];

fn call_min_ada(spec: &Spec, cpb: u64, route: usize) -> Result<Result<BigNum, JsError>, Failure> {
    let o = spec.output(spec.coin);
    let cost = DataCost::new_coins_per_byte(&bn(cpb));
    lib("min_ada", ROUTES[route], || match route {
        0 => min_ada_for_output(&o, &cost),
        1 => MinOutputAdaCalculator::new(&o, &cost).calculate_ada(),
        _ => {
            let mut c = MinOutputAdaCalculator::new_empty(&cost)?;
            c.set_address(&spec.addr);
            c.set_amount(&spec.value(spec.coin));
            match &spec.datum {
                DatumSpec::None => {}
                DatumSpec::Hash(h) => c.set_data_hash(&DataHash::from_bytes(h.clone()).expect("32-byte hash")),
                DatumSpec::Inline(d) => c.set_plutus_data(d),
            }
            if let Some(s) = &spec.script {
                c.set_script_ref(s);
            }
            c.calculate_ada()
        }
    })
}

/// the oracle of sub-check (1) for one (output, cpb, route); returns the library's answer
fn check_min_ada(spec: &Spec, cpb: u64, route: usize) -> Result<Option<u64>, Failure> {
    let got = call_min_ada(spec, cpb, route)?;
    let widest = lib("min_ada", "TransactionOutput::to_bytes", || spec.bytes(u64::MAX))?;
    let size_max = match read_output(&widest) {
        Ok(e) => e.size,
        Err(m) => fail!("min_ada/emitted-output-unreadable", "{}: {}", m, hexs(&widest)),
    };
    let upper = bound(cpb, size_max);
    match got {
        Err(e) => {
            ensure!(
                upper > u64::MAX as u128,
                "min_ada/error-without-overflow",
                "{}(cpb = {}) = Err({:?}) although {} x (160 + {}) = {} fits u64; output (start coin {}): {}",
                ROUTES[route],
                cpb,
                e,
                cpb,
                size_max,
                upper,
                spec.coin,
                hexs(&spec.bytes(spec.coin))
            );
            Ok(None)
        }
        Ok(c) => {
            let c = un(&c);
            ensure!(
                c as u128 <= upper,
                "min_ada/above-widest-coin-bound",
                "{}(cpb = {}) = {} > {} = {} x (160 + {} bytes with the coin at 2^64-1); output (start coin {}): {}",
                ROUTES[route],
                cpb,
                c,
                upper,
                cpb,
                size_max,
                spec.coin,
                hexs(&spec.bytes(spec.coin))
            );
            let carried = c.max(spec.coin);
            let bytes = lib("min_ada", "TransactionOutput::to_bytes", || spec.bytes(carried))?;
            let em = match read_output(&bytes) {
                Ok(e) => e,
                Err(m) => fail!("min_ada/emitted-output-unreadable", "{}: {}", m, hexs(&bytes)),
            };
            let need = bound(cpb, em.size);
            ensure!(
                em.coin as u128 >= need,
                "min_ada/below-bound",
                "{}(cpb = {}) = {}; the output carrying max({}, its coin {}) = {} takes {} bytes and needs {} x (160 + {}) = {}; output as given: {}",
                ROUTES[route],
                cpb,
                c,
                c,
                spec.coin,
                em.coin,
                em.size,
                cpb,
                em.size,
                need,
                hexs(&spec.bytes(spec.coin))
            );
            Ok(Some(c))
        }
    }
}

fn min_ada_labels(ctx: &mut Ctx, p: &str, spec: &Spec, cpb: u64, answer: Option<u64>) -> bool {
    let s0 = spec.size0();
    let (fix, _) = least_fix(cpb, s0);
    // width changes on the way from the start coin to the fixed point
    let mut crossings = 0u32;
    {
        let mut c = spec.coin as u128;
        for _ in 0..6 {
            let need = cpb as u128 * (160 + s0 + coin_extra_width(c)) as u128;
            if need <= c || need > u64::MAX as u128 {
                break;
            }
            if coin_extra_width(need) != coin_extra_width(c) {
                crossings += 1;
            }
            c = need;
        }
    }
    if crossings >= 1 {
        ctx.label(&format!("{}:width-crossing>=1", p));
    }
    if crossings >= 2 {
        ctx.label(&format!("{}:width-crossing>=2", p));
    }
    let mut near = near_border(spec.coin, cpb);
    match answer {
        Some(c) => {
            ctx.label(&format!("{}:ok", p));
            ctx.label(&format!("{}:answer-width:{}", p, width_class(c)));
            near |= near_border(c, cpb);
            // informational: which of the admissible answers the library gave
            let widest = cpb as u128 * (160 + s0 + 8) as u128;
            if c <= spec.coin {
                ctx.label(&format!("{}:answer=bound-at-the-start-coin(already-met)", p));
            } else if Some(c) == fix {
                ctx.label(&format!("{}:answer=least-fixed-point", p));
            } else if c as u128 == widest {
                ctx.label(&format!("{}:answer=widest-coin-bound", p));
            } else {
                ctx.label(&format!("{}:answer=other-admissible", p));
            }
        }
        None => {
            ctx.label(&format!("{}:err-overflow", p));
            near = true;
        }
    }
    if near {
        ctx.label(&format!("{}:near-width-border", p));
    }
    near
}

fn min_ada_case(ctx: &mut Ctx, tape: &[u8]) -> CaseResult {
    let mut t = Tape::new(tape);
    let tier = ctx.tier;
    let (spec, cost, route) = lib("min_ada", "generator", || {
        let p = plan(&mut t);
        let mut spec = gen_spec(&mut t, tier, &p, true);
        let t0 = 160 + spec.size0();
        let cost = gen_cost(&p.cost, &mut spec, t0, tier, true);
        spec.coin = gen_coin(&p.coin, cost.cpb, spec.size0());
        (spec, cost, p.route)
    })?;
    let cpb = cost.cpb;
    spec.labels(ctx, "min_ada");
    ctx.label(&format!("min_ada:cpb:{}", cpb_class(cpb)));
    ctx.label(&format!("min_ada:cpb-mode:{}", cost.mode));
    ctx.label(&format!("min_ada:start-coin:{}", width_class(spec.coin)));
    ctx.label(&format!("min_ada:route:{}", ROUTES[route]));
    let answer = check_min_ada(&spec, cpb, route)?;
    let near = min_ada_labels(ctx, "min_ada", &spec, cpb, answer);
    if near || spec.has_features() {
        let b = spec.bytes(spec.coin);
        ctx.nontrivial(fp_mix(fp64(&b), cpb));
        ctx.sample(&format!("min_ada/{}", cost.mode), || format!("{}; start coin {}; cpb {} -> {}; output {}", spec.describe(), spec.coin, cpb, answer.map(|c| c.to_string()).unwrap_or_else(|| "Err (overflow)".into()), hexs(&b[..b.len().min(120)])));
    }
    Ok(())
}

// ---- bounded-exhaustive part of (1)

const ENUM_CPB: u64 = 700;
const ENUM_SHAPES: u64 = 12;
const ENUM_VARIANTS: u64 = 5;
const ENUM_COINS: u64 = 6;

fn enum_count(_t: Tier) -> u64 {
    ENUM_CPB * ENUM_SHAPES * ENUM_VARIANTS * ENUM_COINS
}

fn enum_make(_t: Tier, i: u64) -> Vec<u8> {
    i.to_le_bytes().to_vec()
}

fn fixed_hash32(k: u8) -> Vec<u8> {
    pool_bytes(k, 32, 76)
}

fn enum_shape(k: u64) -> Spec {
    let key = |k: u8| Credential::from_keyhash(&Ed25519KeyHash::from_bytes(pool_bytes(k, 28, 70)).unwrap());
    let base = || Spec::plain(base_addr_fixed());
    match k {
        0 => base(),
        1 => Spec::plain(EnterpriseAddress::new(1, &key(1)).to_address()),
        2 => Spec::plain(RewardAddress::new(1, &key(1)).to_address()),
        3 => Spec::plain(pointer_addr(1, &key(1), u64::MAX, u64::MAX, u64::MAX)),
        4 => Spec::plain(icarus(0, 764824073)),
        5 => Spec::plain(byron_with_payload(&pool_bytes(3, 28, 73), &pool_bytes(4, 30, 73), None).expect("hand-assembled Byron address")),
        6 => {
            let mut s = base();
            let mut a = Assets::new();
            a.insert(&AssetName::new(vec![7u8; 32]).unwrap(), &bn(1));
            let mut ma = MultiAsset::new();
            ma.insert(&ScriptHash::from_bytes(pool_bytes(5, 28, 74)).unwrap(), &a);
            s.ma = Some(ma);
            s.n_assets = 1;
            s
        }
        7 => {
            let mut s = base();
            s.datum = DatumSpec::Hash(fixed_hash32(1));
            s
        }
        8 => {
            let mut s = base();
            s.datum = DatumSpec::Inline(PlutusData::new_integer(&BigInt::from(42u64)));
            s
        }
        9 => {
            let mut s = base();
            s.script = Some(ScriptRef::new_native_script(&pubkey_script(1)));
            s.script_kind = "native";
            s
        }
        10 => {
            let mut s = base();
            s.script = Some(ScriptRef::new_plutus_script(&PlutusScript::new_v2(vec![0xC3; 100])));
            s.script_kind = "plutus-v2";
            s
        }
        _ => {
            let mut s = Spec::plain(EnterpriseAddress::new(0, &key(2)).to_address());
            let mut ma = MultiAsset::new();
            for p in 0..3usize {
                let mut a = Assets::new();
                a.insert(&AssetName::new(name_bytes(p, 32, 9)).unwrap(), &bn(1_000_000));
                a.insert(&AssetName::new(vec![]).unwrap(), &bn(5));
                ma.insert(&ScriptHash::from_bytes(policy_bytes(p, 9)).unwrap(), &a);
            }
            s.ma = Some(ma);
            s.n_assets = 6;
            let mut l = PlutusList::new();
            l.add(&PlutusData::new_integer(&BigInt::from(1u64)));
            l.add(&PlutusData::new_bytes(vec![1, 2, 3]));
            s.datum = DatumSpec::Inline(PlutusData::new_list(&l));
            s.script = Some(ScriptRef::new_plutus_script(&PlutusScript::new_v3(vec![0xC3; 300])));
            s.script_kind = "plutus-v3";
            s
        }
    }
}

fn min_ada_enum_case(ctx: &mut Ctx, input: &[u8]) -> CaseResult {
    let i = u64::from_le_bytes(input[..8].try_into().unwrap());
    let cpb = 1 + i % ENUM_CPB;
    let shape = (i / ENUM_CPB) % ENUM_SHAPES;
    let variant = (i / (ENUM_CPB * ENUM_SHAPES)) % ENUM_VARIANTS;
    let coinv = (i / (ENUM_CPB * ENUM_SHAPES * ENUM_VARIANTS)) % ENUM_COINS;
    let tier = ctx.tier;
    let prepared = lib("min_ada_enum", "generator", || {
        let mut spec = enum_shape(shape);
        if variant > 0 {
            let k = variant as i64 - 3; // -2..=1
            let cap_bytes = tier.pick(9_000i64, 70_000);
            let min_size = padded(&spec, 0, 0, 1).size0() as i64;
            let mut done = false;
            for b in [256u64, 65536] {
                let target = (b / cpb) as i64 + k - 160;
                if target == spec.size0() as i64 || (target >= min_size && target <= cap_bytes) {
                    if let Some(p) = pad_to(&spec, target as usize, (cap_bytes / 35) as usize + 2) {
                        spec = p;
                        done = true;
                        break;
                    }
                }
            }
            if !done {
                return None;
            }
        }
        let s0 = spec.size0();
        let (fix, _) = least_fix(cpb, s0);
        let fix = fix.unwrap_or(u64::MAX);
        spec.coin = match coinv {
            0 => 0,
            1 => fix.saturating_sub(1),
            2 => fix,
            3 => 24,
            4 => 65536,
            _ => u64::MAX,
        };
        Some(spec)
    })?;
    let spec = match prepared {
        Some(s) => s,
        None => {
            // no width border is reachable for this (cpb, shape): nothing to run
            ctx.label("min_ada_enum:border-variant-unreachable");
            return Ok(());
        }
    };
    let route = (i % 3) as usize;
    let answer = check_min_ada(&spec, cpb, route)?;
    ctx.label(if variant == 0 { "min_ada_enum:shape-as-is" } else { "min_ada_enum:padded-to-border" });
    ctx.label(&format!("min_ada_enum:addr:{}", spec.kind));
    let near = min_ada_labels(ctx, "min_ada_enum", &spec, cpb, answer);
    if near || spec.has_features() {
        let b = spec.bytes(spec.coin);
        ctx.nontrivial(fp_mix(fp64(&b), cpb));
        if variant > 0 {
            ctx.sample("min_ada_enum/padded-to-border", || format!("{}; {} bytes; start coin {}; cpb {} -> {:?}", spec.describe(), b.len(), spec.coin, cpb, answer));
        }
    }
    Ok(())
}

// ---------------------------------------------------------------------------------------------
// (2) admission by the transaction builder

fn builder(cpb: u64, max_value_size: u32) -> Result<TransactionBuilder, Failure> {
    let cfg = TransactionBuilderConfigBuilder::new()
        .fee_algo(&LinearFee::new(&bn(44), &bn(155381)))
        .coins_per_utxo_byte(&bn(cpb))
        .pool_deposit(&bn(500_000_000))
        .key_deposit(&bn(2_000_000))
        .max_value_size(max_value_size)
        .max_tx_size(u32::MAX)
        .build()
        .map_err(|e| Failure::new("engine/config", format!("{:?}", e)))?;
    Ok(TransactionBuilder::new(&cfg))
}

/// the outputs the builder emits, cut out of the bytes of build()
fn emitted_outputs(sub: &str, tb: &TransactionBuilder) -> Result<Option<Vec<Vec<u8>>>, Failure> {
    let mut tb = tb.clone();
    let body = lib(sub, "TransactionBuilder::build", || {
        tb.set_fee(&bn(0));
        tb.build().map(|b| b.to_bytes())
    })?;
    let body = match body {
        Ok(b) => b,
        Err(_) => return Ok(None),
    };
    let doc = match cbor::parse_document(&body) {
        Ok(d) => d,
        Err(e) => fail!(format!("{}/emitted-body-unreadable", sub), "{}: {}", e, hexs(&body)),
    };
    let outs = match doc.map_get(1).and_then(|o| o.as_array()) {
        Some(o) => o,
        None => fail!(format!("{}/emitted-body-unreadable", sub), "no outputs array under key 1: {}", hexs(&body)),
    };
    Ok(Some(outs.iter().map(|n| n.slice(&body).to_vec()).collect()))
}

fn err_class(e: &JsError) -> &'static str {
    let m = format!("{:?}", e);
    if m.contains("Maximum value size") {
        "value-size"
    } else if m.contains("less than the minimum UTXO value") {
        "below-min-ada"
    } else if m.to_lowercase().contains("overflow") {
        "overflow"
    } else {
        "other"
    }
}

fn gen_max_value_size(p: &(usize, u64), vs: usize) -> (u32, &'static str) {
    let vs = vs.min(u32::MAX as usize - 2) as u32;
    match p.0 {
        0 | 1 => (5000, "5000"),
        2 => (vs, "exact"),
        3 => (vs.saturating_sub(1), "exact-1"),
        4 => (vs + 1, "exact+1"),
        5 => (0, "0"),
        6 => (p.1 as u32, "class<=2^16"),
        _ => (u32::MAX, "2^32-1"),
    }
}

fn coin_walk(cpb: u64, s0: usize, extra: u64) -> Vec<u64> {
    let (m, _) = least_fix(cpb, s0);
    let mut v: Vec<u64> = Vec::new();
    let m = m.unwrap_or(u64::MAX) as i128;
    let c = cpb as i128;
    for d in [-2 * c, -c - 1, -c, -c + 1, -2, -1, 0, 1, 2, c - 1, c, c + 1, 2 * c] {
        v.push((m + d).clamp(0, u64::MAX as i128) as u64);
    }
    // the neighbouring width borders of the minimum
    for b in BORDERS {
        v.push(b - 1);
        v.push(b);
    }
    v.push(0);
    v.push(u64::MAX);
    v.push(extra);
    let mut seen = std::collections::BTreeSet::new();
    v.retain(|x| seen.insert(*x));
    v
}

fn add_output_case(ctx: &mut Ctx, tape: &[u8]) -> CaseResult {
    let mut t = Tape::new(tape);
    let tier = ctx.tier;
    let (spec, cost, mvs, mvs_mode, coins) = lib("add_output", "generator", || {
        let p = plan(&mut t);
        let mut spec = gen_spec(&mut t, tier, &p, true);
        let t0 = 160 + spec.size0();
        let cost = gen_cost(&p.cost, &mut spec, t0, tier, true);
        let s0 = spec.size0();
        let (m, _) = least_fix(cost.cpb, s0);
        let vs = spec.value(m.unwrap_or(u64::MAX)).to_bytes().len();
        let (mvs, mvs_mode) = gen_max_value_size(&p.mvs, vs);
        let extra = gen_coin(&p.coin, cost.cpb, s0);
        let coins = coin_walk(cost.cpb, s0, extra);
        (spec, cost, mvs, mvs_mode, coins)
    })?;
    let cpb = cost.cpb;
    let mut tb = builder(cpb, mvs)?;
    let mut accepted: Vec<Vec<u8>> = Vec::new();
    let mut any_near = false;
    for coin in &coins {
        let o = spec.output(*coin);
        let r = lib("add_output", "TransactionBuilder::add_output", || tb.add_output(&o))?;
        let bytes = lib("add_output", "TransactionOutput::to_bytes", || o.to_bytes())?;
        match r {
            Ok(()) => {
                let em = match read_output(&bytes) {
                    Ok(e) => e,
                    Err(m) => fail!("add_output/emitted-output-unreadable", "{}: {}", m, hexs(&bytes)),
                };
                ensure!(
                    em.value_len as u64 <= mvs as u64,
                    "add_output/accepted-value-above-max-size",
                    "add_output accepted an output whose value takes {} bytes with max_value_size = {} (cpb {}); output {}",
                    em.value_len,
                    mvs,
                    cpb,
                    hexs(&bytes)
                );
                let need = bound(cpb, em.size);
                ensure!(
                    em.coin as u128 >= need,
                    "add_output/accepted-below-bound",
                    "add_output accepted coin {} for an output of {} bytes: needs {} x (160 + {}) = {}; output {}",
                    em.coin,
                    em.size,
                    cpb,
                    em.size,
                    need,
                    hexs(&bytes)
                );
                ctx.label_n("add_output:accepted", 1);
                any_near |= near_border(*coin, cpb);
                accepted.push(bytes);
            }
            Err(e) => {
                let cls = err_class(&e);
                ctx.label_n(&format!("add_output:rejected:{}", cls), 1);
                if cls == "below-min-ada" {
                    if let Ok(em) = read_output(&bytes) {
                        if em.coin as u128 >= bound(cpb, em.size) {
                            ctx.label_n("add_output:rejected-though-bound-holds", 1);
                        }
                    }
                }
            }
        }
    }
    // what the builder holds is what it emits
    if !accepted.is_empty() {
        match emitted_outputs("add_output", &tb)? {
            Some(outs) => {
                if outs.len() != accepted.len() {
                    // not a statement of C07: the emitted outputs cannot be paired with the accepted ones
                    ctx.label("add_output:emitted-count-differs");
                    ctx.reject();
                    return Ok(());
                }
                for (k, o) in outs.iter().enumerate() {
                    check_emitted_output(o, cpb, Some(mvs), "add_output", &format!("output {} of the built body", k))?;
                }
            }
            None => {
                ctx.label("add_output:build-unavailable");
                ctx.reject();
                return Ok(());
            }
        }
        ctx.label("add_output:case-with-accepted-output");
    }
    spec.labels(ctx, "add_output");
    ctx.label(&format!("add_output:cpb:{}", cpb_class(cpb)));
    ctx.label(&format!("add_output:cpb-mode:{}", cost.mode));
    ctx.label(&format!("add_output:max-value-size:{}", mvs_mode));
    if spec.has_features() || any_near {
        ctx.nontrivial(fp_mix(fp64(&spec.bytes(0)), fp_mix(cpb, mvs as u64)));
        ctx.sample(&format!("add_output/{}", mvs_mode), || format!("{}; cpb {}; max_value_size {}; {} coins walked around the minimum, {} accepted", spec.describe(), cpb, mvs, coins.len(), accepted.len()));
    }
    Ok(())
}

// ---------------------------------------------------------------------------------------------
// (2b) the collateral return the helpers create or accept

/// the collateral return under key 16 of the body the builder emits
fn emitted_collateral_return(sub: &str, tb: &TransactionBuilder) -> Result<Option<Vec<u8>>, Failure> {
    let mut tb = tb.clone();
    let body = lib(sub, "TransactionBuilder::build", || {
        tb.set_fee(&bn(0));
        tb.build().map(|b| b.to_bytes())
    })?;
    let body = match body {
        Ok(b) => b,
        Err(_) => return Ok(None),
    };
    let doc = match cbor::parse_document(&body) {
        Ok(d) => d,
        Err(e) => fail!(format!("{}/emitted-body-unreadable", sub), "{}: {}", e, hexs(&body)),
    };
    Ok(doc.map_get(16).map(|n| n.slice(&body).to_vec()))
}

/// Collateral inputs holding `total` (all assets in the first input, the coin split over 1..=3 key inputs), then one
/// of the two helpers; whatever return output the builder then emits must meet the bound and the value-size limit.
/// max_value_size is placed relative to the size of the return's value (exact, exact +- 1, 2..=10 below), so a
/// helper that measures a part of the value, or the value with another coin, lets an oversized return through.
fn collateral_return_case(ctx: &mut Ctx, tape: &[u8]) -> CaseResult {
    let mut t = Tape::new(tape);
    let tier = ctx.tier;
    let (spec, cost, p_mvs, route, n_inputs, total_mode, below) = lib("collateral_return", "generator", || {
        let p = plan(&mut t);
        let mut spec = gen_spec(&mut t, tier, &p, true);
        let t0 = 160 + spec.size0();
        let cost = gen_cost(&p.cost, &mut spec, t0, tier, true);
        (spec, cost, p.mvs, p.route % 2, 1 + p.aux_size % 3, p.coin.mode % 4, 2 + (p.aux_assets % 9) as u32)
    })?;
    let cpb = cost.cpb;
    let s0 = spec.size0();
    let (m, _) = least_fix(cpb, s0);
    let min_coin = m.unwrap_or(u64::MAX);
    // the coin the return ends up with: at / around its minimum, or wide
    let ret_coins: Vec<u64> = if route == 1 { coin_walk(cpb, s0, min_coin.saturating_add(1_000_000)) } else { vec![min_coin, min_coin.saturating_add(1), min_coin.saturating_add(cpb), 1u64 << 32, (1u64 << 32) - 1, min_coin.saturating_mul(2)] };
    let total = [0u64, 1, 5_000_000, 1u64 << 32][total_mode];
    let mut emitted_any = false;
    let mut mvs_label = "";
    for rc in &ret_coins {
        let input_coin = match rc.checked_add(total) {
            Some(c) => c,
            None => continue,
        };
        let vs = spec.value(*rc).to_bytes().len();
        let (mvs, mode) = match p_mvs.0 {
            0 => (5000u32, "5000"),
            1 => ((vs as u32).saturating_sub(below), "2..10-below"),
            _ => gen_max_value_size(&p_mvs, vs),
        };
        mvs_label = mode;
        let mut tb = builder(cpb, mvs)?;
        // collateral inputs: assets in the first, the coin split
        let mut ib = TxInputsBuilder::new();
        let share = input_coin / n_inputs as u64;
        for k in 0..n_inputs {
            let coin_k = if k == 0 { input_coin - share * (n_inputs as u64 - 1) } else { share };
            let mut v = Value::new(&bn(coin_k));
            if k == 0 {
                if let Some(ma) = &spec.ma {
                    v.set_multiasset(ma);
                }
            }
            let inp = TransactionInput::new(&TransactionHash::from_bytes(fixed_hash32(40 + k as u8)).expect("hash"), k as u32);
            let r = lib("collateral_return", "TxInputsBuilder::add_regular_input", || ib.add_regular_input(&base_addr_fixed(), &inp, &v))?;
            if r.is_err() {
                ctx.reject();
                return Ok(());
            }
        }
        tb.set_collateral(&ib);
        let r = if route == 0 {
            lib("collateral_return", "set_total_collateral_and_return", || tb.set_total_collateral_and_return(&bn(total), &spec.addr))?
        } else {
            let o = spec.output(*rc);
            lib("collateral_return", "set_collateral_return_and_total", || tb.set_collateral_return_and_total(&o))?
        };
        match r {
            Ok(()) => {
                ctx.label_n(if route == 0 { "collateral_return:created" } else { "collateral_return:accepted" }, 1);
                if let Some(bytes) = emitted_collateral_return("collateral_return", &tb)? {
                    emitted_any = true;
                    check_emitted_output(&bytes, cpb, Some(mvs), if route == 0 { "collateral_return/created" } else { "collateral_return/accepted" }, &format!("collateral return (cpb {}, max_value_size {} [{}], total collateral {})", cpb, mvs, mode, total))?;
                }
            }
            Err(e) => ctx.label_n(&format!("collateral_return:refused:{}", err_class(&e)), 1),
        }
    }
    spec.labels(ctx, "collateral_return");
    ctx.label(&format!("collateral_return:max-value-size:{}", mvs_label));
    ctx.label(&format!("collateral_return:route:{}", if route == 0 { "set_total_collateral_and_return" } else { "set_collateral_return_and_total" }));
    if emitted_any {
        ctx.label("collateral_return:case-with-emitted-return");
        if spec.has_features() {
            ctx.nontrivial(fp_mix(fp64(&spec.bytes(0)), fp_mix(cpb, fp_mix(route as u64, p_mvs.0 as u64))));
            ctx.sample(&format!("collateral_return/{}", mvs_label), || format!("{}; cpb {}; route {}; {} collateral inputs; total collateral {}", spec.describe(), cpb, route, n_inputs, total));
        }
    }
    Ok(())
}

fn amount_builder(spec: &Spec) -> Result<TransactionOutputAmountBuilder, JsError> {
    let mut b = TransactionOutputBuilder::new().with_address(&spec.addr);
    match &spec.datum {
        DatumSpec::None => {}
        DatumSpec::Hash(h) => b = b.with_data_hash(&DataHash::from_bytes(h.clone()).expect("32-byte hash")),
        DatumSpec::Inline(d) => b = b.with_plutus_data(d),
    }
    if let Some(s) = &spec.script {
        b = b.with_script_ref(s);
    }
    b.next()
}

fn mint_output_case(ctx: &mut Ctx, tape: &[u8]) -> CaseResult {
    let mut t = Tape::new(tape);
    let tier = ctx.tier;
    let (p, mut spec, policy, name, amount) = lib("mint_output", "generator", || {
        let p = plan(&mut t);
        let spec = gen_spec(&mut t, tier, &p, false);
        let policy = match t.choose(3) {
            0 => pubkey_script(t.choose(6) as u8),
            1 => NativeScript::new_timelock_start(&TimelockStart::new_timelockstart(&bn(t.u64_class()))),
            _ => {
                let mut l = NativeScripts::new();
                l.add(&pubkey_script(1));
                l.add(&pubkey_script(2));
                NativeScript::new_script_any(&ScriptAny::new(&l))
            }
        };
        let nl = [0usize, 32, 1, 23, 24, 31][t.choose(6)];
        let name = t.bytes(nl);
        let amount = match t.choose(4) {
            0 => 1,
            1 => t.u64_class().max(1),
            2 => i64::MAX as u64,
            _ => t.range_u64(1, 1_000_000),
        };
        (p, spec, policy, name, amount)
    })?;
    // the output that the helper is going to create: the spec plus the minted asset
    let asset_name = AssetName::new(name.clone()).map_err(|e| Failure::new("engine/asset-name", format!("{:?}", e)))?;
    {
        let mut a = Assets::new();
        a.insert(&asset_name, &bn(amount));
        let mut ma = MultiAsset::new();
        ma.insert(&policy.hash(), &a);
        spec.ma = Some(ma);
        spec.n_assets = 1;
    }
    let t0 = 160 + spec.size0();
    let mut spec_for_cost = spec.clone();
    let cost = gen_cost(&p.cost, &mut spec_for_cost, t0, tier, false);
    let cpb = cost.cpb;
    let s0 = spec.size0();
    let (m, _) = least_fix(cpb, s0);
    let vs = spec.value(m.unwrap_or(u64::MAX)).to_bytes().len();
    let (mvs, mvs_mode) = gen_max_value_size(&p.mvs, vs);
    let extra = gen_coin(&p.coin, cpb, s0);
    let mut coins = coin_walk(cpb, s0, extra);
    // keep the walk short: the minimum's neighbourhood and a few borders
    coins.truncate(tier.pick(11, 17));
    let ab = match lib("mint_output", "TransactionOutputBuilder::next", || amount_builder(&spec))? {
        Ok(b) => b,
        Err(e) => fail!("engine/output-builder-next", "{:?}", e),
    };
    let int_amount = Int::new(&bn(amount));
    let mut accepted = 0usize;
    let check_last = |ctx: &mut Ctx, tb: &TransactionBuilder, entry: &str| -> Result<bool, Failure> {
        match emitted_outputs("mint_output", tb)? {
            Some(outs) => {
                let last = match outs.last() {
                    Some(l) => l,
                    None => fail!(format!("mint_output/no-output-emitted/{}", entry), "{} returned Ok but build() emits no output", entry),
                };
                check_emitted_output(last, cpb, Some(mvs), &format!("mint_output/{}", entry), &format!("the output created by {} (cpb {}, max_value_size {})", entry, cpb, mvs))?;
                if let Ok(em) = read_output(last) {
                    if near_border(em.coin, cpb) {
                        ctx.label("mint_output:accepted-coin-near-border");
                    }
                }
                Ok(true)
            }
            None => Ok(false),
        }
    };
    let mut unobservable = false;
    for coin in &coins {
        let mut tb = builder(cpb, mvs)?;
        let r = lib("mint_output", "add_mint_asset_and_output", || tb.add_mint_asset_and_output(&policy, &asset_name, &int_amount, &ab, &bn(*coin)))?;
        match r {
            Ok(()) => {
                if check_last(ctx, &tb, "add_mint_asset_and_output")? {
                    accepted += 1;
                    ctx.label_n("mint_output:with-coin:accepted", 1);
                } else {
                    unobservable = true;
                }
            }
            Err(e) => ctx.label_n(&format!("mint_output:with-coin:rejected:{}", err_class(&e)), 1),
        }
    }
    {
        let mut tb = builder(cpb, mvs)?;
        let r = lib("mint_output", "add_mint_asset_and_output_min_required_coin", || tb.add_mint_asset_and_output_min_required_coin(&policy, &asset_name, &int_amount, &ab))?;
        match r {
            Ok(()) => {
                if check_last(ctx, &tb, "add_mint_asset_and_output_min_required_coin")? {
                    accepted += 1;
                    ctx.label("mint_output:min-required-coin:accepted");
                } else {
                    unobservable = true;
                }
            }
            Err(e) => ctx.label(&format!("mint_output:min-required-coin:rejected:{}:addr-len{}57", err_class(&e), if spec.addr_len > 57 { ">" } else { "<=" })),
        }
    }
    if unobservable {
        ctx.label("mint_output:build-unavailable");
        ctx.reject();
        return Ok(());
    }
    if accepted > 0 {
        ctx.label("mint_output:case-with-accepted-output");
    }
    spec.labels(ctx, "mint_output");
    ctx.label(&format!("mint_output:cpb:{}", cpb_class(cpb)));
    ctx.label(&format!("mint_output:max-value-size:{}", mvs_mode));
    // the created output always carries an asset: every case is non-trivial by the rule
    ctx.nontrivial(fp_mix(fp64(&spec.bytes(0)), fp_mix(cpb, mvs as u64)));
    ctx.sample("mint_output", || format!("{}; asset name {} bytes, amount {}; cpb {}; max_value_size {}; {} calls accepted", spec.describe(), name.len(), amount, cpb, mvs, accepted));
    Ok(())
}

// ---------------------------------------------------------------------------------------------
// (4) the output builder's min-coin helper

/// length of the placeholder address the helper sizes its output with (a base address)
const PLACEHOLDER_ADDR_LEN: usize = 57;

fn check_output_builder(ctx: &mut Ctx, p: &str, spec: &Spec, cpb: u64) -> Result<Option<u64>, Failure> {
    let cost = DataCost::new_coins_per_byte(&bn(cpb));
    let ma = spec.ma.clone().unwrap_or_else(MultiAsset::new);
    let r = lib("output_builder", "with_asset_and_min_required_coin_by_utxo_cost", || -> Result<TransactionOutput, JsError> { amount_builder(spec)?.with_asset_and_min_required_coin_by_utxo_cost(&ma, &cost)?.build() })?;
    let o = match r {
        Ok(o) => o,
        Err(e) => {
            ctx.label(&format!("{}:err:{}", p, err_class(&e)));
            return Ok(None);
        }
    };
    let bytes = lib("output_builder", "TransactionOutput::to_bytes", || o.to_bytes())?;
    let em = match read_output(&bytes) {
        Ok(e) => e,
        Err(m) => fail!("output_builder/emitted-output-unreadable", "{}: {}", m, hexs(&bytes)),
    };
    let need = bound(cpb, em.size);
    if (em.coin as u128) < need {
        // the helper sizes a copy of the output that carries a fixed 57-byte base address
        // ... so an address longer than that leaves the coin short by cpb per extra address byte (plus at most
        // the 4 bytes a coin crossing a width boundary adds); anything larger is a different defect
        let short = need - em.coin as u128;
        let sig = if spec.addr_len > PLACEHOLDER_ADDR_LEN && short <= cpb as u128 * (spec.addr_len - PLACEHOLDER_ADDR_LEN + 4) as u128 {
            format!("output_builder/min-coin-below-bound/{}", spec.kind)
        } else if spec.addr_len > PLACEHOLDER_ADDR_LEN {
            format!("output_builder/min-coin-below-bound-beyond-address-gap/{}", spec.kind)
        } else {
            format!("output_builder/min-coin-below-bound-address-within-placeholder/{}", spec.kind)
        };
        fail!(
            sig,
            "with_asset_and_min_required_coin_by_utxo_cost(cpb = {}).build() gives coin {} to an output of {} bytes ({}): the bound is {} x (160 + {}) = {}, short by {}; address {}; output {}",
            cpb,
            em.coin,
            em.size,
            spec.describe(),
            cpb,
            em.size,
            need,
            need - em.coin as u128,
            hex::encode(spec.addr.to_bytes()),
            hexs(&bytes)
        );
    }
    ctx.label(&format!("{}:ok", p));
    Ok(Some(em.coin))
}

fn output_builder_case(ctx: &mut Ctx, tape: &[u8]) -> CaseResult {
    let mut t = Tape::new(tape);
    let tier = ctx.tier;
    let (spec, cost) = lib("output_builder", "generator", || {
        let p = plan(&mut t);
        let mut spec = gen_spec(&mut t, tier, &p, true);
        // the helper sizes the output with its placeholder address: aim cpb at that size half of the time
        let t0 = if p.route != 0 {
            let mut ph = spec.clone();
            ph.addr = base_addr_fixed();
            160 + ph.size0()
        } else {
            160 + spec.size0()
        };
        let cost = gen_cost(&p.cost, &mut spec, t0, tier, true);
        (spec, cost)
    })?;
    let cpb = cost.cpb;
    spec.labels(ctx, "output_builder");
    ctx.label(&format!("output_builder:cpb:{}", cpb_class(cpb)));
    ctx.label(&format!("output_builder:cpb-mode:{}", cost.mode));
    let coin = check_output_builder(ctx, "output_builder", &spec, cpb)?;
    let near = coin.map(|c| near_border(c, cpb)).unwrap_or(true);
    if near {
        ctx.label("output_builder:near-width-border");
    }
    if near || spec.has_features() {
        ctx.nontrivial(fp_mix(fp64(&spec.bytes(0)), cpb));
        ctx.sample(&format!("output_builder/{}", spec.kind), || format!("{}; cpb {} -> coin {:?}", spec.describe(), cpb, coin));
    }
    Ok(())
}

const OBA_ADDRS: u64 = 110;
const OBA_FEATURES: u64 = 6;
const OBA_CPBS: [u64; 3] = [1, 4310, 1_000_000];

fn oba_count(_t: Tier) -> u64 {
    OBA_ADDRS * OBA_FEATURES * OBA_CPBS.len() as u64
}

fn oba_address(k: u64) -> Address {
    let key = Credential::from_keyhash(&Ed25519KeyHash::from_bytes(pool_bytes(1, 28, 70)).unwrap());
    match k {
        0 => base_addr_fixed(),
        1 => EnterpriseAddress::new(1, &key).to_address(),
        2 => RewardAddress::new(1, &key).to_address(),
        3..=30 => {
            // pointer whose three components take l bytes in total (3..=30): address of 29 + l bytes
            let l = (k - 3 + 3) as usize;
            let a = (l - 2).min(10);
            let b = (l - a - 1).min(10);
            let c = l - a - b;
            pointer_addr(1, &key, varint_value(a), varint_value(b), varint_value(c))
        }
        31..=36 => icarus(0, MAGICS[(k - 31) as usize]),
        37..=105 => {
            let n = match k {
                37..=101 => (k - 37) as usize,
                102 => 100,
                103 => 255,
                104 => 256,
                _ => 1000,
            };
            let hd: Vec<u8> = (0..n).map(|i| (i * 7 + 3) as u8).collect();
            byron_with_payload(&pool_bytes(3, 28, 73), &hd, None).expect("hand-assembled Byron address")
        }
        _ => {
            let n = [30usize, 57, 58, 100][(k - 106) as usize];
            let mut b = vec![0x11u8; n];
            b[0] = 0x91;
            malformed(&b).expect("malformed address")
        }
    }
}

fn oba_case(ctx: &mut Ctx, input: &[u8]) -> CaseResult {
    let i = u64::from_le_bytes(input[..8].try_into().unwrap());
    let ai = i % OBA_ADDRS;
    let fi = (i / OBA_ADDRS) % OBA_FEATURES;
    let cpb = OBA_CPBS[((i / (OBA_ADDRS * OBA_FEATURES)) % OBA_CPBS.len() as u64) as usize];
    let spec = lib("output_builder_addresses", "generator", || {
        let mut s = Spec::plain(oba_address(ai));
        let one_asset = || {
            let mut a = Assets::new();
            a.insert(&AssetName::new(vec![7u8; 32]).unwrap(), &bn(1));
            let mut ma = MultiAsset::new();
            ma.insert(&ScriptHash::from_bytes(pool_bytes(5, 28, 74)).unwrap(), &a);
            ma
        };
        match fi {
            0 => {}
            1 => s.datum = DatumSpec::Hash(fixed_hash32(1)),
            2 => s.datum = DatumSpec::Inline(PlutusData::new_integer(&BigInt::from(42u64))),
            3 => {
                s.script = Some(ScriptRef::new_plutus_script(&PlutusScript::new_v2(vec![0xC3; 100])));
                s.script_kind = "plutus-v2";
            }
            4 => {
                s.ma = Some(one_asset());
                s.n_assets = 1;
            }
            _ => {
                let e = enum_shape(11);
                s.ma = e.ma;
                s.n_assets = e.n_assets;
                s.datum = e.datum;
                s.script = e.script;
                s.script_kind = e.script_kind;
            }
        }
        s
    })?;
    ctx.label(&format!("output_builder_addresses:addr:{}", spec.kind));
    ctx.label(if spec.addr_len > PLACEHOLDER_ADDR_LEN { "output_builder_addresses:address-longer-than-placeholder" } else { "output_builder_addresses:address-within-placeholder" });
    let coin = check_output_builder(ctx, "output_builder_addresses", &spec, cpb)?;
    ctx.nontrivial(fp_mix(fp64(&spec.bytes(0)), cpb));
    ctx.sample(&format!("output_builder_addresses/{}", spec.kind), || format!("{}; cpb {} -> coin {:?}", spec.describe(), cpb, coin));
    Ok(())
}
