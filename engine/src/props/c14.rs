//! C14 — amount arithmetic is exact or fails explicitly.
use crate::cbor;
use crate::runner::*;
use crate::tape::*;
use cardano_serialization_lib as csl;
use csl::*;
use num_bigint::BigInt as NBig;
use num_integer::Integer;
use num_traits::{Signed, Zero};
use std::collections::BTreeMap;

pub fn property() -> Property {
    Property {
        id: "C14",
        rule: "tape-decoded operand tuples over CBOR width classes and their negatives, big integers up to ~2000 bits, values with empty/disjoint/overlapping bundles; non-trivial = some operand or exact result within 1 of a width boundary (2^8,2^16,2^32,2^63,2^64 and negatives), or an overflow expectation, or overlapping bundles, or a big integer beyond 64 bits; distinct by hash of (sub-check, operands)",
        assumptions: vec![
            "reference arithmetic: u128/i128 and num-bigint (the wrappers, sign handling, CBOR and string codecs are what is tested; num-bigint itself is trusted)".into(),
            "BigNum::div_floor with a zero divisor is outside the domain (no exact result exists)".into(),
            "Value::checked_sub / MultiAsset::sub clamp assets at zero by their documentation; the check demands an error exactly when lovelace underflows, and exactness of assets whenever the subtrahend is component-wise <= the minuend".into(),
            "emitted integer bytes are read back with the engine's own CBOR reader (cbor.rs), which shares no code with cbor_event".into(),
        ],
        subchecks: vec![
            SubCheck { name: "bignum", kind: Kind::Tape { quick: 3_000_000, thorough: 60_000_000, max_len: 40 }, run: bignum },
            SubCheck { name: "int", kind: Kind::Tape { quick: 3_000_000, thorough: 60_000_000, max_len: 40 }, run: int },
            SubCheck { name: "int_points", kind: Kind::Enum { count: int_points_count, make: idx_make, exhaustive_note: "every boundary point p and p±1 for p in {0, ±23, ±24, ±2^8, ±2^16, ±2^32, ±2^63, ±2^64} through every Int route" }, run: int_point_case },
            SubCheck { name: "bigint", kind: Kind::Tape { quick: 1_000_000, thorough: 20_000_000, max_len: 700 }, run: bigint },
            SubCheck { name: "value", kind: Kind::Tape { quick: 1_000_000, thorough: 20_000_000, max_len: 400 }, run: value },
            SubCheck { name: "int_routes", kind: Kind::Tape { quick: 500_000, thorough: 10_000_000, max_len: 120 }, run: int_routes },
        ],
        crash_prone: false,
        max_reject_fraction: 0.05,
        required_label_fraction: vec![],
    }
}

fn bn(v: u64) -> BigNum {
    BigNum::from(v)
}
fn u(v: BigNum) -> u64 {
    v.into()
}

fn near_boundary_u(v: u128) -> bool {
    for p in [0u128, 24, 256, 65536, 1 << 32, 1 << 63, 1 << 64] {
        if v + 1 >= p && v <= p + 1 {
            return true;
        }
    }
    false
}

fn near_boundary_i(v: i128) -> bool {
    near_boundary_u(v.unsigned_abs()) || near_boundary_u(v.saturating_add(1).unsigned_abs())
}

fn bignum(ctx: &mut Ctx, tape: &[u8]) -> CaseResult {
    let mut t = Tape::new(tape);
    let a = t.u64_class();
    let b = t.u64_class();
    let (x, y) = (bn(a), bn(b));
    let desc = format!("a={} b={}", a, b);
    macro_rules! call {
        ($name:expr, $e:expr) => {
            match catch(|| $e) {
                Ok(v) => v,
                Err(p) => fail!(format!("bignum/panic/{}", $name), "{} panicked for {}: {}", $name, desc, p.msg),
            }
        };
    }
    // checked ops
    let sum = a as u128 + b as u128;
    match call!("checked_add", x.checked_add(&y)) {
        Ok(v) => ensure!(u(v) as u128 == sum, "bignum/checked_add", "{}: got {} want {}", desc, u(v), sum),
        Err(_) => ensure!(sum > u64::MAX as u128, "bignum/checked_add-spurious-error", "{}: Err but {} fits", desc, sum),
    }
    let prod = a as u128 * b as u128;
    match call!("checked_mul", x.checked_mul(&y)) {
        Ok(v) => ensure!(u(v) as u128 == prod, "bignum/checked_mul", "{}: got {} want {}", desc, u(v), prod),
        Err(_) => ensure!(prod > u64::MAX as u128, "bignum/checked_mul-spurious-error", "{}: Err but {} fits", desc, prod),
    }
    match call!("checked_sub", x.checked_sub(&y)) {
        Ok(v) => ensure!(a >= b && u(v) == a - b, "bignum/checked_sub", "{}: got {}", desc, u(v)),
        Err(_) => ensure!(a < b, "bignum/checked_sub-spurious-error", "{}: Err but a>=b", desc),
    }
    let cs = u(call!("clamped_sub", x.clamped_sub(&y)));
    ensure!(cs == a.saturating_sub(b), "bignum/clamped_sub", "{}: got {}", desc, cs);
    if b != 0 {
        let d = u(call!("div_floor", x.div_floor(&y)));
        ensure!(d == a / b, "bignum/div_floor", "{}: got {}", desc, d);
    }
    let c = call!("compare", x.compare(&y));
    let want = if a < b { -1 } else if a == b { 0 } else { 1 };
    ensure!(c == want, "bignum/compare", "{}: got {}", desc, c);
    ensure!(call!("less_than", x.less_than(&y)) == (a < b), "bignum/less_than", "{}", desc);
    ensure!(u(call!("max", BigNum::max(&x, &y))) == a.max(b), "bignum/max", "{}", desc);
    ensure!(x.is_zero() == (a == 0), "bignum/is_zero", "{}", desc);
    // codecs
    let s = x.to_str();
    ensure!(s == a.to_string(), "bignum/to_str", "{} -> {}", a, s);
    match call!("from_str", BigNum::from_str(&s)) {
        Ok(v) => ensure!(u(v) == a, "bignum/from_str", "{} -> {}", s, u(v)),
        Err(e) => fail!("bignum/from_str-error", "{}: {:?}", s, e),
    }
    // out-of-range decimal strings must be refused
    let big = (a as u128 + u64::MAX as u128 + 1).to_string();
    if let Ok(v) = call!("from_str", BigNum::from_str(&big)) {
        fail!("bignum/from_str-accepts-out-of-range", "{} -> {}", big, u(v))
    }
    let bytes = call!("to_bytes", x.to_bytes());
    let node = match cbor::parse_document(&bytes) {
        Ok(n) => n,
        Err(e) => fail!("bignum/to_bytes-malformed", "{} -> {} ({})", a, hex::encode(&bytes), e),
    };
    ensure!(node.as_u64() == Some(a) && node.head_minimal(), "bignum/to_bytes", "{} -> {}", a, hex::encode(&bytes));
    match call!("from_bytes", BigNum::from_bytes(bytes.clone())) {
        Ok(v) => ensure!(u(v) == a, "bignum/from_bytes", "{} -> {}", hex::encode(&bytes), u(v)),
        Err(e) => fail!("bignum/from_bytes-error", "{}: {:?}", hex::encode(&bytes), e),
    }
    let js = call!("to_json", x.to_json());
    match js {
        Ok(js) => match call!("from_json", BigNum::from_json(&js)) {
            Ok(v) => ensure!(u(v) == a, "bignum/json", "{} -> {} -> {}", a, js, u(v)),
            Err(e) => fail!("bignum/from_json-error", "{}: {:?}", js, e),
        },
        Err(e) => fail!("bignum/to_json-error", "{}: {:?}", a, e),
    }
    let overflowish = sum > u64::MAX as u128 || prod > u64::MAX as u128 || a < b;
    if near_boundary_u(a as u128) || near_boundary_u(b as u128) || near_boundary_u(sum) || near_boundary_u(prod) {
        ctx.label(if overflowish { "bignum:boundary+error-path" } else { "bignum:boundary" });
        ctx.nontrivial(fp64(format!("bn|{}|{}", a, b).as_bytes()));
        ctx.sample("bignum", || format!("BigNum ops on {} (sum {}, product {})", desc, sum, prod));
    }
    Ok(())
}

fn int_of(v: i128) -> Option<Int> {
    // public construction of an Int with the given value, where a route exists
    if v >= 0 && v <= u64::MAX as i128 {
        Some(Int::new(&bn(v as u64)))
    } else if v < 0 && -v <= u64::MAX as i128 {
        Some(Int::new_negative(&bn((-v) as u64)))
    } else if v == -(1i128 << 64) {
        Int::from_bytes(hex::decode("3bffffffffffffffff").unwrap()).ok()
    } else {
        None
    }
}

fn int_value(i: &Int) -> Result<i128, Failure> {
    i.to_str().parse::<i128>().map_err(|_| Failure::new("int/to_str-unparsable", format!("to_str gives {}", i.to_str())))
}

/// everything that must hold for an Int known to carry the value v
fn check_int(i: &Int, v: i128, how: &str) -> CaseResult {
    let desc = format!("Int {} (via {})", v, how);
    macro_rules! call {
        ($name:expr, $e:expr) => {
            match catch(|| $e) {
                Ok(v) => v,
                Err(p) => fail!(format!("int/panic/{}|{}", $name, p.cause()), "{} panicked for {}: {}", $name, desc, p.msg),
            }
        };
    }
    ensure!(v >= -(1i128 << 64) && v <= u64::MAX as i128, "int/out-of-range", "{} lies outside -2^64..2^64-1", desc);
    ensure!(i.to_str() == v.to_string(), "int/to_str", "{} -> {}", desc, i.to_str());
    ensure!(call!("is_positive", i.is_positive()) == (v >= 0), "int/is_positive", "{}", desc);
    match call!("as_positive", i.as_positive()) {
        Some(p) => ensure!(v >= 0 && u(p) as i128 == v, "int/as_positive", "{} -> {}", desc, u(p)),
        None => ensure!(v < 0, "int/as_positive-none", "{}", desc),
    }
    match call!("as_negative", i.as_negative()) {
        Some(p) => ensure!(
            v < 0 && u(p) as i128 == -v,
            if v == -(1i128 << 64) { "int/as_negative-truncates-at--2^64" } else { "int/as_negative" },
            "{} -> as_negative {} (want {})", desc, u(p), -v
        ),
        None => ensure!(v >= 0 || -v > u64::MAX as i128, "int/as_negative-none", "{}", desc),
    }
    let i32v = i32::try_from(v).ok();
    ensure!(call!("as_i32_or_nothing", i.as_i32_or_nothing()) == i32v, "int/as_i32_or_nothing", "{}", desc);
    ensure!(call!("as_i32", i.as_i32()) == i32v, "int/as_i32", "{}", desc);
    ensure!(call!("as_i32_or_fail", i.as_i32_or_fail()).ok() == i32v, "int/as_i32_or_fail", "{}", desc);
    // decimal string round trip
    match call!("from_str", Int::from_str(&v.to_string())) {
        Ok(j) => ensure!(j.to_str() == v.to_string(), "int/from_str", "{} -> {}", v, j.to_str()),
        Err(e) => fail!("int/from_str-rejects-own-to_str", "Int::from_str({}) = Err({:?}) although the value was obtained {}", v, e, how),
    }
    // CBOR
    let bytes = call!("to_bytes", i.to_bytes());
    let node = match cbor::parse_document(&bytes) {
        Ok(n) => n,
        Err(e) => fail!("int/to_bytes-malformed", "{} -> {} ({})", desc, hex::encode(&bytes), e),
    };
    ensure!(node.as_int() == Some(v), "int/to_bytes-different-integer", "{} -> {} which reads {:?}", desc, hex::encode(&bytes), node.as_int());
    ensure!(node.head_minimal(), "int/to_bytes-non-minimal", "{} -> {}", desc, hex::encode(&bytes));
    match call!("from_bytes", Int::from_bytes(bytes.clone())) {
        Ok(j) => ensure!(j.to_str() == v.to_string() && j == *i, "int/from_bytes", "{} -> {}", hex::encode(&bytes), j.to_str()),
        Err(e) => fail!("int/from_bytes-error", "{}: {:?}", hex::encode(&bytes), e),
    }
    // JSON
    match call!("to_json", i.to_json()) {
        Ok(js) => match call!("from_json", Int::from_json(&js)) {
            Ok(j) => ensure!(j == *i, "int/json", "{} -> {} -> {}", desc, js, j.to_str()),
            Err(e) => fail!("int/from_json-rejects-own-to_json", "{} -> {}: {:?}", desc, js, e),
        },
        Err(e) => fail!("int/to_json-error", "{}: {:?}", desc, e),
    }
    Ok(())
}

fn int(ctx: &mut Ctx, tape: &[u8]) -> CaseResult {
    let mut t = Tape::new(tape);
    let v = t.i128_class();
    let route = t.choose(4);
    let (i, how): (Int, &str) = match route {
        0 => match int_of(v) {
            Some(i) => (i, "new/new_negative"),
            None => {
                ctx.reject();
                return Ok(());
            }
        },
        1 => match catch(|| Int::from_str(&v.to_string())) {
            Ok(Ok(i)) => (i, "from_str"),
            Ok(Err(_)) => {
                // refusal is an explicit error: allowed only if no other route yields this value either
                ensure!(int_of(v).is_none() || v == -(1i128 << 64), "int/from_str-refuses-in-range", "Int::from_str({}) errs", v);
                ctx.label("int:from_str-refused");
                return Ok(());
            }
            Err(p) => fail!("int/panic/from_str", "from_str({}) panicked: {}", v, p.msg),
        },
        2 => {
            let b = cbor::encode(&cbor::int(v));
            match catch(|| Int::from_bytes(b.clone())) {
                Ok(Ok(i)) => (i, "from_bytes"),
                Ok(Err(e)) => fail!("int/from_bytes-refuses-int", "Int::from_bytes({}) = Err({:?})", hex::encode(&b), e),
                Err(p) => fail!("int/panic/from_bytes", "from_bytes({}) panicked: {}", hex::encode(&b), p.msg),
            }
        }
        _ => {
            // non-minimal encodings of the same integer
            let mut n = cbor::int(v);
            let arg = if v >= 0 { v as u64 } else { (-1 - v) as u64 };
            let widths: Vec<u8> = [1u8, 2, 4, 8].iter().cloned().filter(|w| *w >= cbor::min_width(arg)).collect();
            n.width = widths[t.choose(widths.len())];
            let b = cbor::encode(&n);
            match catch(|| Int::from_bytes(b.clone())) {
                Ok(Ok(i)) => (i, "from_bytes(non-minimal)"),
                Ok(Err(e)) => fail!("int/from_bytes-refuses-int", "Int::from_bytes({}) = Err({:?})", hex::encode(&b), e),
                Err(p) => fail!("int/panic/from_bytes", "from_bytes({}) panicked: {}", hex::encode(&b), p.msg),
            }
        }
    };
    check_int(&i, v, how)?;
    // out-of-range decimal strings are refused
    let oob = if t.bool() { (u64::MAX as i128) + 1 + t.u64_class() as i128 } else { -(1i128 << 64) - 1 - t.u64_class() as i128 };
    if let Ok(Ok(j)) = catch(|| Int::from_str(&oob.to_string())) {
        fail!("int/from_str-accepts-out-of-range", "Int::from_str({}) = {}", oob, j.to_str())
    }
    if near_boundary_i(v) {
        ctx.label(&format!("int:boundary:{}", how));
        ctx.nontrivial(fp64(format!("int|{}|{}", v, how).as_bytes()));
        ctx.sample(&format!("int:{}", how), || format!("Int {} obtained via {}", v, how));
    }
    Ok(())
}

const INT_POINTS: [i128; 8] = [0, 23, 24, 1 << 8, 1 << 16, 1 << 32, 1 << 63, 1 << 64];

fn int_points_count(_t: Tier) -> u64 {
    (INT_POINTS.len() * 2 * 3 * 3) as u64
}

fn idx_make(_t: Tier, i: u64) -> Vec<u8> {
    i.to_le_bytes().to_vec()
}

fn int_point_case(ctx: &mut Ctx, input: &[u8]) -> CaseResult {
    let mut i = u64::from_le_bytes(input[..8].try_into().unwrap()) as usize;
    let route = i % 3;
    i /= 3;
    let off = (i % 3) as i128 - 1;
    i /= 3;
    let neg = i % 2 == 1;
    i /= 2;
    let p = INT_POINTS[i % INT_POINTS.len()];
    let v = if neg { -p + off } else { p + off };
    let in_range = v >= -(1i128 << 64) && v <= u64::MAX as i128;
    let (int, how) = match route {
        0 => (int_of(v), "new/new_negative"),
        1 => (catch(|| Int::from_str(&v.to_string())).ok().and_then(|r| r.ok()), "from_str"),
        _ => {
            if in_range {
                (catch(|| Int::from_bytes(cbor::encode(&cbor::int(v)))).ok().and_then(|r| r.ok()), "from_bytes")
            } else {
                (None, "from_bytes")
            }
        }
    };
    match int {
        Some(x) => {
            check_int(&x, v, how)?;
            ctx.nontrivial(fp64(format!("pt|{}|{}", v, how).as_bytes()));
            ctx.sample("int_points", || format!("Int {} via {}", v, how));
        }
        None => {
            if in_range && !(route == 0 && v == -(1i128 << 64)) {
                // from_str is allowed to refuse only what no route can produce
                if route == 1 && v == -(1i128 << 64) {
                    // other routes produce -2^64; its own to_str must parse back — reported by check_int on those routes
                    ctx.label("int_points:from_str-refuses--2^64");
                } else {
                    fail!("int/route-refuses-in-range", "route {} refuses in-range integer {}", how, v)
                }
            }
        }
    }
    Ok(())
}

fn gen_big(t: &mut Tape) -> NBig {
    match t.choose(6) {
        0 => NBig::from(t.i128_class()),
        1 => {
            // boundary magnitudes
            let pts: [u32; 8] = [63, 64, 65, 127, 128, 511, 512, 513];
            let p = pts[t.choose(pts.len())];
            let base: NBig = NBig::from(1) << p as usize;
            let off = t.choose(3) as i64 - 1;
            let v = base + off;
            if t.bool() {
                -v
            } else {
                v
            }
        }
        _ => {
            let n = match t.choose(4) {
                0 => t.range(1, 9),
                1 => t.range(60, 68),
                2 => t.range(120, 132),
                _ => t.range(1, 250),
            };
            let bytes = t.bytes(n);
            let v = NBig::from_bytes_be(num_bigint::Sign::Plus, &bytes);
            if t.bool() {
                -v
            } else {
                v
            }
        }
    }
}

fn big_from_node(n: &cbor::Node) -> Option<NBig> {
    match &n.kind {
        cbor::Kind::UInt(v) => Some(NBig::from(*v)),
        cbor::Kind::NInt(v) => Some(-NBig::from(1) - NBig::from(*v)),
        cbor::Kind::Tag(t, inner) if *t == 2 || *t == 3 => {
            let d = inner.as_bytes()?;
            let m = NBig::from_bytes_be(num_bigint::Sign::Plus, d);
            if *t == 2 {
                Some(m)
            } else {
                Some(-NBig::from(1) - m)
            }
        }
        _ => None,
    }
}

fn bigint(ctx: &mut Ctx, tape: &[u8]) -> CaseResult {
    let mut t = Tape::new(tape);
    let a = gen_big(&mut t);
    let b = gen_big(&mut t);
    let e = t.choose(6) as u32;
    macro_rules! call {
        ($name:expr, $e:expr) => {
            match catch(|| $e) {
                Ok(v) => v,
                Err(p) => fail!(format!("bigint/panic/{}|{}", $name, p.cause()), "{} panicked for a={} b={}: {}", $name, a, b, p.msg),
            }
        };
    }
    let x = match call!("from_str", BigInt::from_str(&a.to_string())) {
        Ok(x) => x,
        Err(e) => fail!("bigint/from_str-error", "{}: {:?}", a, e),
    };
    let y = match call!("from_str", BigInt::from_str(&b.to_string())) {
        Ok(x) => x,
        Err(e) => fail!("bigint/from_str-error", "{}: {:?}", b, e),
    };
    ensure!(x.to_str() == a.to_string(), "bigint/to_str", "{} -> {}", a, x.to_str());
    let eq = |got: &BigInt, want: &NBig, op: &str| -> CaseResult {
        ensure!(got.to_str() == want.to_string(), format!("bigint/{}", op), "{}: a={} b={} got {} want {}", op, a, b, got.to_str(), want);
        Ok(())
    };
    eq(&call!("add", x.add(&y)), &(&a + &b), "add")?;
    eq(&call!("sub", x.sub(&y)), &(&a - &b), "sub")?;
    eq(&call!("mul", x.mul(&y)), &(&a * &b), "mul")?;
    eq(&call!("abs", x.abs()), &a.abs(), "abs")?;
    eq(&call!("increment", x.increment()), &(&a + 1), "increment")?;
    eq(&call!("pow", x.pow(e)), &num_traits::pow::Pow::pow(&a, e), "pow")?;
    ensure!(x.is_zero() == a.is_zero(), "bigint/is_zero", "{}", a);
    if !b.is_zero() {
        let q = call!("div_floor", x.div_floor(&y));
        let c = call!("div_ceil", x.div_ceil(&y));
        // floor: q*b <= a < (q+1)*b for b>0 (mirrored for b<0); verified via remainder properties
        let qv: NBig = q.to_str().parse().unwrap();
        let cv: NBig = c.to_str().parse().unwrap();
        let r = &a - &qv * &b;
        let ok_floor = if b.is_positive() { !r.is_negative() && r < b } else { !r.is_positive() && r > b };
        ensure!(ok_floor, "bigint/div_floor", "a={} b={} floor={}", a, b, qv);
        let r2 = &cv * &b - &a;
        let ok_ceil = if b.is_positive() { !r2.is_negative() && r2 < b } else { !r2.is_positive() && r2 > b };
        ensure!(ok_ceil, "bigint/div_ceil", "a={} b={} ceil={}", a, b, cv);
        ensure!(qv == a.div_floor(&b), "bigint/div_floor-ref", "a={} b={}", a, b);
    }
    // as_u64 / as_int
    use num_traits::ToPrimitive;
    ensure!(call!("as_u64", x.as_u64()).map(u) == a.to_u64(), "bigint/as_u64", "{}", a);
    match call!("as_int", x.as_int()) {
        Some(i) => {
            let v = int_value(&i)?;
            ensure!(NBig::from(v) == a, "bigint/as_int-different-value", "{} -> {}", a, v);
            ensure!(v >= -(1i128 << 64) && v <= u64::MAX as i128, "int/out-of-range", "as_int of {} gives {}", a, v);
        }
        None => ensure!(a.abs() > NBig::from(u64::MAX), "bigint/as_int-none", "{} fits but as_int is None", a),
    }
    // CBOR: independent reader must see the same integer, chunking per 64 bytes, shortest form
    let bytes = call!("to_bytes", x.to_bytes());
    let node = match cbor::parse_document(&bytes) {
        Ok(n) => n,
        Err(er) => fail!("bigint/to_bytes-malformed", "{} -> {} ({})", a, hex::encode(&bytes), er),
    };
    match big_from_node(&node) {
        Some(v) => ensure!(v == a, "bigint/to_bytes-different-integer", "{} -> {} which reads {}", a, hex::encode(&bytes), v),
        None => fail!("bigint/to_bytes-not-an-integer", "{} -> {}", a, hex::encode(&bytes)),
    }
    let fits64 = a >= -(NBig::from(1) << 64usize) && a <= NBig::from(u64::MAX);
    match &node.kind {
        cbor::Kind::UInt(_) | cbor::Kind::NInt(_) => ensure!(fits64 && node.head_minimal(), "bigint/to_bytes-form", "{} -> {}", a, hex::encode(&bytes)),
        cbor::Kind::Tag(_, inner) => {
            ensure!(!fits64, "bigint/to_bytes-tag-for-small", "{} -> {}", a, hex::encode(&bytes));
            if let cbor::Kind::Bytes { data, chunks } = &inner.kind {
                match chunks {
                    None => ensure!(data.len() <= 64, "bigint/unchunked-over-64", "{} bytes definite", data.len()),
                    Some(cs) => {
                        ensure!(data.len() > 64, "bigint/chunked-under-64", "{}", hex::encode(&bytes));
                        for (k, (l, _)) in cs.iter().enumerate() {
                            ensure!(*l == 64 || (k == cs.len() - 1 && *l < 64 && *l > 0), "bigint/chunk-size", "chunks {:?}", cs);
                        }
                    }
                }
                ensure!(data.first() != Some(&0), "bigint/leading-zero", "{}", hex::encode(&bytes));
            }
        }
        _ => {}
    }
    match call!("from_bytes", BigInt::from_bytes(bytes.clone())) {
        Ok(z) => {
            ensure!(z.to_str() == a.to_string(), "bigint/from_bytes", "{} -> {}", hex::encode(&bytes), z.to_str());
            ensure!(call!("to_bytes", z.to_bytes()) == bytes, "bigint/reencode", "{}", hex::encode(&bytes));
        }
        Err(er) => fail!("bigint/from_bytes-error", "{}: {:?}", hex::encode(&bytes), er),
    }
    match call!("to_json", x.to_json()) {
        Ok(js) => match call!("from_json", BigInt::from_json(&js)) {
            Ok(z) => ensure!(z == x, "bigint/json", "{} -> {}", a, js),
            Err(er) => fail!("bigint/from_json-error", "{}: {:?}", js, er),
        },
        Err(er) => fail!("bigint/to_json-error", "{:?}", er),
    }
    // the same integer inside Plutus data
    let pd = PlutusData::new_integer(&x);
    let pb = call!("plutus to_bytes", pd.to_bytes());
    ensure!(pb == bytes, "bigint/plutus-integer-bytes-differ", "{} vs {}", hex::encode(&pb), hex::encode(&bytes));
    let big = !fits64;
    if big || near_boundary_i(a.to_i128().unwrap_or(1000)) {
        ctx.label(if big { "bigint:beyond-64-bits" } else { "bigint:boundary" });
        if bytes.len() > 70 {
            ctx.label("bigint:chunked");
        }
        ctx.nontrivial(fp64(format!("big|{}|{}|{}", a, b, e).as_bytes()));
        ctx.sample("bigint", || format!("a={} b={} e={} cbor(a)={}", a, b, e, hex::encode(&bytes[..bytes.len().min(48)])));
    }
    Ok(())
}

type Model = (u128, BTreeMap<(Vec<u8>, Vec<u8>), u128>);

fn gen_value(t: &mut Tape) -> (Value, Model) {
    let coin = t.u64_class();
    let mut ma = MultiAsset::new();
    let mut model: BTreeMap<(Vec<u8>, Vec<u8>), u128> = BTreeMap::new();
    let np = t.choose(4);
    let mut any = false;
    for _ in 0..np {
        let pid = t.pooled(3, 28, 1);
        let na = t.choose(4);
        let mut assets = ma.get(&ScriptHash::from_bytes(pid.clone()).unwrap()).unwrap_or(Assets::new());
        for _ in 0..na {
            let name_len = [0usize, 1, 2, 32][t.choose(4)];
            let name = t.pooled(3, name_len, 2);
            let q = t.u64_class();
            assets.insert(&AssetName::new(name.clone()).unwrap(), &bn(q));
            model.insert((pid.clone(), name), q as u128);
        }
        // an empty Assets bundle is representable and must count as nothing
        ma.insert(&ScriptHash::from_bytes(pid.clone()).unwrap(), &assets);
        any = true;
    }
    let v = if any && t.bool() {
        let mut v = Value::new(&bn(coin));
        v.set_multiasset(&ma);
        v
    } else {
        Value::new_with_assets(&bn(coin), &ma)
    };
    (v, (coin as u128, model))
}

fn model_of(v: &Value) -> Model {
    let mut m = BTreeMap::new();
    if let Some(ma) = v.multiasset() {
        let pids = ma.keys();
        for i in 0..pids.len() {
            let pid = pids.get(i);
            let assets = ma.get(&pid).unwrap();
            let names = assets.keys();
            for j in 0..names.len() {
                let n = names.get(j);
                m.insert((pid.to_bytes(), n.name()), u(assets.get(&n).unwrap()) as u128);
            }
        }
    }
    (u(v.coin()) as u128, m)
}

fn norm(m: &Model) -> Model {
    (m.0, m.1.iter().filter(|(_, q)| **q != 0).map(|(k, q)| (k.clone(), *q)).collect())
}

fn model_add(a: &Model, b: &Model) -> Model {
    let mut m = a.1.clone();
    for (k, q) in &b.1 {
        *m.entry(k.clone()).or_insert(0) += q;
    }
    (a.0 + b.0, m)
}

fn model_fits(m: &Model) -> bool {
    m.0 <= u64::MAX as u128 && m.1.values().all(|q| *q <= u64::MAX as u128)
}

fn model_cmp(a: &Model, b: &Model) -> Option<std::cmp::Ordering> {
    use std::cmp::Ordering::*;
    let mut le = a.0 <= b.0;
    let mut ge = a.0 >= b.0;
    let keys: std::collections::BTreeSet<_> = a.1.keys().chain(b.1.keys()).cloned().collect();
    for k in keys {
        let x = *a.1.get(&k).unwrap_or(&0);
        let y = *b.1.get(&k).unwrap_or(&0);
        le &= x <= y;
        ge &= x >= y;
    }
    match (le, ge) {
        (true, true) => Some(Equal),
        (true, false) => Some(Less),
        (false, true) => Some(Greater),
        _ => None,
    }
}

fn value(ctx: &mut Ctx, tape: &[u8]) -> CaseResult {
    let mut t = Tape::new(tape);
    let (a, ma) = gen_value(&mut t);
    let (b, mb) = gen_value(&mut t);
    let (c, mc) = gen_value(&mut t);
    let desc = || format!("a={:?} b={:?} c={:?}", short(&ma), short(&mb), short(&mc));
    macro_rules! call {
        ($name:expr, $e:expr) => {
            match catch(|| $e) {
                Ok(v) => v,
                Err(p) => fail!(format!("value/panic/{}|{}", $name, p.cause()), "{} panicked for {}: {}", $name, desc(), p.msg),
            }
        };
    }
    // the generator's own model agrees with what the getters report
    ensure!(norm(&model_of(&a)) == norm(&ma), "value/getters", "{}", desc());
    let ab = call!("checked_add", a.checked_add(&b));
    let ba = call!("checked_add", b.checked_add(&a));
    let want_ab = model_add(&ma, &mb);
    match (&ab, &ba) {
        (Ok(x), Ok(y)) => {
            ensure!(model_fits(&want_ab), "value/add-number-instead-of-error", "{} sum does not fit", desc());
            ensure!(norm(&model_of(x)) == norm(&want_ab), "value/add-wrong", "{} got {:?}", desc(), short(&model_of(x)));
            ensure!(x == y && norm(&model_of(y)) == norm(&want_ab), "value/add-not-commutative", "{}", desc());
        }
        (Err(_), Err(_)) => ensure!(!model_fits(&want_ab), "value/add-spurious-error", "{} fits", desc()),
        _ => fail!("value/add-not-commutative", "{}: one order errs, the other does not", desc()),
    }
    // associativity
    let abc1 = ab.as_ref().ok().and_then(|x| call_ok(|| x.checked_add(&c)));
    let bc = call!("checked_add", b.checked_add(&c));
    let abc2 = bc.as_ref().ok().and_then(|x| call_ok(|| a.checked_add(x)));
    let want_abc = model_add(&want_ab, &mc);
    if model_fits(&want_abc) {
        match (&abc1, &abc2) {
            (Some(x), Some(y)) => {
                ensure!(x == y, "value/add-not-associative", "{}", desc());
                ensure!(norm(&model_of(x)) == norm(&want_abc), "value/add3-wrong", "{}", desc());
            }
            _ => fail!("value/add3-spurious-error", "{}", desc()),
        }
    } else {
        ensure!(abc1.is_none() || abc2.is_none(), "value/add3-number-instead-of-error", "{}", desc());
    }
    // subtraction undoes addition
    if let Ok(x) = &ab {
        match call!("checked_sub", x.checked_sub(&b)) {
            Ok(r) => {
                ensure!(norm(&model_of(&r)) == norm(&ma), "value/sub-does-not-undo-add", "{}: (a+b)-b = {:?}", desc(), short(&model_of(&r)));
                if clean(&a) {
                    ensure!(r == a, "value/sub-does-not-undo-add-eq", "{}: (a+b)-b = {:?} is not == a", desc(), short(&model_of(&r)));
                }
            }
            Err(e) => fail!("value/sub-spurious-error", "{}: (a+b)-b = Err({:?})", desc(), e),
        }
        let cl = call!("clamped_sub", x.clamped_sub(&b));
        ensure!(norm(&model_of(&cl)) == norm(&ma), "value/clamped_sub-does-not-undo-add", "{}", desc());
    }
    // a - b: error exactly when lovelace underflows; exact when b <= a component-wise
    let sub = call!("checked_sub", a.checked_sub(&b));
    match &sub {
        Ok(r) => {
            ensure!(ma.0 >= mb.0, "value/sub-number-instead-of-error", "{}", desc());
            if model_cmp(&mb, &ma).map(|o| o != std::cmp::Ordering::Greater).unwrap_or(false) {
                let mut want = ma.clone();
                want.0 -= mb.0;
                for (k, q) in &mb.1 {
                    *want.1.entry(k.clone()).or_insert(0) -= q;
                }
                ensure!(norm(&model_of(r)) == norm(&want), "value/sub-wrong", "{} got {:?}", desc(), short(&model_of(r)));
            } else {
                // documented clamping: every asset is max(a-b, 0)
                let got = norm(&model_of(r));
                for (k, q) in &ma.1 {
                    let w = q.saturating_sub(*mb.1.get(k).unwrap_or(&0));
                    ensure!(*got.1.get(k).unwrap_or(&0) == w, "value/sub-clamp-wrong", "{}", desc());
                }
                ctx.label("value:sub-clamped-assets");
            }
        }
        Err(_) => ensure!(ma.0 < mb.0, "value/sub-spurious-error", "{}", desc()),
    }
    // comparison
    let want_cmp = model_cmp(&ma, &mb);
    let got = call!("partial_cmp", a.partial_cmp(&b));
    ensure!(got == want_cmp, "value/partial_cmp", "{}: got {:?} want {:?}", desc(), got, want_cmp);
    let got_i = call!("compare", a.compare(&b));
    let want_i = want_cmp.map(|o| match o {
        std::cmp::Ordering::Less => -1i8,
        std::cmp::Ordering::Equal => 0,
        std::cmp::Ordering::Greater => 1,
    });
    ensure!(got_i == want_i, "value/compare", "{}: got {:?} want {:?}", desc(), got_i, want_i);
    // `==`: must hold for identical content, must not hold for different amounts; values that differ
    // only by zero-quantity entries / empty policy bundles are left unconstrained (the library's
    // equality is structural there, the property speaks about amounts)
    if norm(&ma) != norm(&mb) {
        ensure!(a != b, "value/eq-for-different-amounts", "{}", desc());
    } else if clean(&a) && clean(&b) {
        ensure!(a == b, "value/ne-for-same-amounts", "{}", desc());
    }
    let z = norm(&ma);
    ensure!(a.is_zero() == (z.0 == 0 && a.multiasset().map(|m| m.len() == 0).unwrap_or(true)), "value/is_zero", "{}", desc());
    // multiasset sub on its own (documented clamping)
    if let (Some(x), Some(y)) = (a.multiasset(), b.multiasset()) {
        let r = call!("multiasset sub", x.sub(&y));
        let got = norm(&model_of(&Value::new_with_assets(&bn(0), &r)));
        for (k, q) in &ma.1 {
            let w = q.saturating_sub(*mb.1.get(k).unwrap_or(&0));
            ensure!(*got.1.get(k).unwrap_or(&0) == w, "value/multiasset-sub", "{}", desc());
        }
        for k in got.1.keys() {
            ensure!(ma.1.contains_key(k), "value/multiasset-sub-invents-asset", "{}", desc());
        }
    }
    let overlap = ma.1.keys().any(|k| mb.1.contains_key(k));
    if overlap {
        ctx.label("value:overlapping-bundles");
    }
    if !model_fits(&want_ab) {
        ctx.label("value:sum-overflows");
    }
    if overlap || !model_fits(&want_ab) || near_boundary_u(want_ab.0) {
        ctx.nontrivial(fp64(desc().as_bytes()));
        ctx.sample("value", desc);
    }
    Ok(())
}

/// no empty policy bundle and no zero quantity
fn clean(v: &Value) -> bool {
    match v.multiasset() {
        None => true,
        Some(ma) => {
            let pids = ma.keys();
            (0..pids.len()).all(|i| {
                let a = ma.get(&pids.get(i)).unwrap();
                let names = a.keys();
                a.len() > 0 && (0..names.len()).all(|j| !a.get(&names.get(j)).unwrap().is_zero())
            })
        }
    }
}

fn call_ok<T>(f: impl FnOnce() -> Result<T, JsError>) -> Option<T> {
    catch(f).ok().and_then(|r| r.ok())
}

fn short(m: &Model) -> (u128, Vec<(String, u128)>) {
    (m.0, m.1.iter().map(|((p, n), q)| (format!("{}.{}", hex::encode(&p[..2]), hex::encode(&n[..n.len().min(3)])), *q)).collect())
}

/// other public routes that yield an Int: every one must stay in range and exact
fn int_routes(ctx: &mut Ctx, tape: &[u8]) -> CaseResult {
    let mut t = Tape::new(tape);
    let route = t.choose(5);
    match route {
        0 => {
            // metadata JSON numbers (all three schemas)
            let v = t.i128_class();
            let schema = [MetadataJsonSchema::NoConversions, MetadataJsonSchema::BasicConversions, MetadataJsonSchema::DetailedSchema][t.choose(3)];
            let json = if schema == MetadataJsonSchema::DetailedSchema { format!("{{\"int\": {}}}", v) } else { v.to_string() };
            match catch(|| encode_json_str_to_metadatum(json.clone(), schema)) {
                Ok(Ok(m)) => {
                    let i = match m.as_int() {
                        Ok(i) => i,
                        Err(_) => fail!("routes/metadata-number-not-int", "{}", json),
                    };
                    let got = int_value(&i)?;
                    ensure!(got == v, "routes/metadata-number-changed", "JSON {} became Int {}", json, got);
                    check_int(&i, v, "metadata-json-number")?;
                }
                Ok(Err(_)) => {
                    ctx.label("routes:metadata-number-refused");
                }
                Err(p) => fail!(format!("routes/panic/metadata-number|{}", p.cause()), "encode_json_str_to_metadatum({}) panicked: {}", json, p.msg),
            }
            if near_boundary_i(v) {
                ctx.nontrivial(fp64(format!("mdnum|{}|{}", v, schema as u8).as_bytes()));
                ctx.sample("routes:metadata-number", || format!("metadata JSON number {} under schema #{}", v, schema as u8));
            }
        }
        1 => {
            // numeric-looking map keys under BasicConversions
            let v: NBig = if t.bool() { NBig::from(t.i128_class()) } else { gen_big(&mut t) };
            let json = format!("{{\"{}\": 1}}", v);
            match catch(|| encode_json_str_to_metadatum(json.clone(), MetadataJsonSchema::BasicConversions)) {
                Ok(Ok(m)) => {
                    let map = match m.as_map() {
                        Ok(m) => m,
                        Err(_) => fail!("routes/metadata-key-not-map", "{}", json),
                    };
                    let keys = map.keys();
                    ensure!(keys.len() == 1, "routes/metadata-key-count", "{}", json);
                    let k = keys.get(0);
                    if let Ok(i) = k.as_int() {
                        let got = int_value(&i)?;
                        ensure!(NBig::from(got) == v, "routes/metadata-key-changed", "key {} became Int {}", v, got);
                        ensure!(got >= -(1i128 << 64) && got <= u64::MAX as i128, "routes/metadata-key-int-out-of-range", "key \"{}\" is stored as Int {} outside -2^64..2^64-1", v, got);
                        check_int(&i, got, "metadata-json-key")?;
                        // what the CBOR says
                        let b = match catch(|| m.to_bytes()) {
                            Ok(b) => b,
                            Err(p) => fail!(format!("routes/panic/metadata-to_bytes|{}", p.cause()), "to_bytes of metadata with key {} panicked: {}", got, p.msg),
                        };
                        let node = cbor::parse_document(&b).map_err(|e| Failure::new("routes/metadata-key-malformed-cbor", format!("{}: {}", hex::encode(&b), e)))?;
                        let k0 = node.as_map().and_then(|e| e.first()).and_then(|(k, _)| k.as_int());
                        ensure!(k0 == Some(got), "routes/metadata-key-cbor-differs", "key {} written as {:?}", got, k0);
                    } else {
                        // stayed text: fine
                        ctx.label("routes:metadata-key-text");
                    }
                }
                Ok(Err(_)) => ctx.label("routes:metadata-key-refused"),
                Err(p) => fail!(format!("routes/panic/metadata-key|{}", p.cause()), "encode_json_str_to_metadatum({}) panicked: {}", json, p.msg),
            }
            use num_traits::ToPrimitive;
            if v.to_i128().map(near_boundary_i).unwrap_or(true) {
                ctx.nontrivial(fp64(format!("mdkey|{}", v).as_bytes()));
                ctx.sample("routes:metadata-key", || format!("metadata JSON (BasicConversions) key \"{}\"", v));
            }
        }
        2 => {
            // MintBuilder accumulation
            let n = 1 + t.choose(4);
            let script = NativeScript::new_timelock_start(&TimelockStart::new_timelockstart(&bn(t.choose(3) as u64)));
            let wit = MintWitness::new_native_script(&NativeScriptSource::new(&script));
            let name = AssetName::new(vec![1, 2, 3]).unwrap();
            let mut mb = MintBuilder::new();
            let mut exact: i128 = 0;
            let mut ops = Vec::new();
            let mut refused = false;
            for _ in 0..n {
                let v = t.i128_class();
                let set = t.chance(40);
                let i = match int_of(v) {
                    Some(i) => i,
                    None => continue,
                };
                ops.push((set, v));
                let r = catch(|| if set { mb.set_asset(&wit, &name, &i) } else { mb.add_asset(&wit, &name, &i) });
                match r {
                    Ok(Ok(())) => {
                        if set {
                            exact = v;
                        } else {
                            exact += v;
                        }
                    }
                    Ok(Err(_)) => {
                        refused = true;
                        break;
                    }
                    Err(p) => fail!(format!("routes/panic/mint-builder|{}", p.cause()), "MintBuilder ops {:?} panicked: {}", ops, p.msg),
                }
            }
            if !refused {
                match catch(|| mb.build()) {
                    Ok(Ok(mint)) => {
                        if let Some(mas) = mint.get(&script.hash()) {
                            for k in 0..mas.len() {
                                if let Some(i) = mas.get(k).and_then(|m| m.get(&name)) {
                                    let got = int_value(&i)?;
                                    ensure!(got == exact, "routes/mint-builder-wrong-sum", "ops {:?}: got {} want {}", ops, got, exact);
                                    ensure!(got >= -(1i128 << 64) && got <= u64::MAX as i128, "routes/mint-builder-int-out-of-range", "MintBuilder ops {:?} build an Int {} outside -2^64..2^64-1", ops, got);
                                    let b = match catch(|| mint.to_bytes()) {
                                        Ok(b) => b,
                                        Err(p) => fail!(format!("routes/panic/mint-to_bytes|{}", p.cause()), "to_bytes of mint built by {:?} panicked: {}", ops, p.msg),
                                    };
                                    let node = cbor::parse_document(&b).map_err(|e| Failure::new("routes/mint-malformed-cbor", format!("{}", e)))?;
                                    let q = node.as_map().and_then(|e| e.first()).and_then(|(_, v)| v.as_map()).and_then(|e| e.first()).and_then(|(_, v)| v.as_int());
                                    ensure!(q == Some(exact), "routes/mint-cbor-differs", "ops {:?}: CBOR quantity {:?}, exact {}", ops, q, exact);
                                }
                            }
                        }
                    }
                    Ok(Err(_)) => ctx.label("routes:mint-build-refused"),
                    Err(p) => fail!(format!("routes/panic/mint-build|{}", p.cause()), "MintBuilder build after {:?} panicked: {}", ops, p.msg),
                }
            } else {
                ctx.label("routes:mint-op-refused");
            }
            if near_boundary_i(exact) || ops.len() >= 2 {
                ctx.nontrivial(fp64(format!("mint|{:?}", ops).as_bytes()));
                ctx.sample("routes:mint-builder", || format!("MintBuilder (set?, amount) ops {:?} -> exact {}", ops, exact));
            }
        }
        3 => {
            // Int inside Mint / MintAssets JSON
            let v = t.i128_class();
            let json = format!("[[\"{}\", {{\"{}\": \"{}\"}}]]", hex::encode(pool_bytes(1, 28, 9)), "0102", v);
            match catch(|| Mint::from_json(&json)) {
                Ok(Ok(m)) => {
                    let pid = ScriptHash::from_bytes(pool_bytes(1, 28, 9)).unwrap();
                    let i = m.get(&pid).and_then(|x| x.get(0)).and_then(|x| x.get(&AssetName::new(vec![1, 2]).unwrap()));
                    match i {
                        Some(i) => {
                            let got = int_value(&i)?;
                            ensure!(got == v, "routes/mint-json-changed", "{} -> {}", v, got);
                            check_int(&i, v, "mint-json")?;
                        }
                        None => fail!("routes/mint-json-lost", "{}", json),
                    }
                }
                Ok(Err(_)) => ctx.label("routes:mint-json-refused"),
                Err(p) => fail!(format!("routes/panic/mint-json|{}", p.cause()), "Mint::from_json({}) panicked: {}", json, p.msg),
            }
            if near_boundary_i(v) {
                ctx.nontrivial(fp64(format!("mintjson|{}", v).as_bytes()));
            }
        }
        _ => {
            // Int::new_i32 and metadata helpers
            let v = t.i128_class().clamp(i32::MIN as i128, i32::MAX as i128) as i32;
            let i = Int::new_i32(v);
            check_int(&i, v as i128, "new_i32")?;
            if near_boundary_i(v as i128) {
                ctx.nontrivial(fp64(format!("i32|{}", v).as_bytes()));
            }
        }
    }
    Ok(())
}
