//! One module per property.
use crate::runner::Property;

pub mod c01;
pub mod c02;
pub mod c03;
pub mod c04;
pub mod c08;
pub mod c11;
pub mod c12;
pub mod c14;
pub mod c15;
pub mod c17;

pub fn all() -> Vec<Property> {
    vec![c01::property(), c02::property(), c03::property(), c04::property(), c08::property(), c11::property(), c12::property(), c14::property(), c15::property(), c17::property()]
}

pub fn get(id: &str) -> Option<Property> {
    all().into_iter().find(|p| p.id == id)
}
