//! One module per property.
use crate::runner::Property;

pub mod c01;
pub mod c02;
pub mod c03;
pub mod c14;
pub mod c15;

pub fn all() -> Vec<Property> {
    vec![c01::property(), c02::property(), c03::property(), c14::property(), c15::property()]
}

pub fn get(id: &str) -> Option<Property> {
    all().into_iter().find(|p| p.id == id)
}
