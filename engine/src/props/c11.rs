//! C11 — address encodings are lossless and classified by their header.
//!
//! One oracle (`check_bytes`) is shared by all generators: an engine-side reference classifier
//! (own header dispatch, own varint reader, own CRC-32, strict Byron parse over `cbor.rs`) decides
//! what a byte string is; the stand-alone parsers and the embedded (container) decoders of the
//! library are then compared with that reading.
use crate::cbor;
use crate::runner::*;
use crate::tape::*;
use cardano_serialization_lib as csl;
use csl::legacy_address::ByronAddressType;
use csl::*;

pub fn property() -> Property {
    Property {
        id: "C11",
        rule: "address byte strings from (a) the bounded-exhaustive grid 256 header bytes x payload lengths 0..80 x several payload fillings (plus the empty input), (b) typed addresses of every kind / credential type / network 0..15, (c) pointer addresses with the three fields over CBOR width classes up to 2^64-1 in canonical, zero-padded, unterminated and overflowing encodings, (d) Byron addresses from icarus_from_key and hand-assembled CBOR (attributes none / derivation payload / magic / both / unknown key, type 0..2, CRC right and wrong, trailing and truncated bytes, non-canonical heads, indefinite forms), (e) Bech32 strings with arbitrary human-readable parts; every byte string is also embedded in TransactionOutput (legacy array and post-Alonzo map), TransactionBody, PoolParams.reward_account and Withdrawals. Non-trivial = total length within 2 of the exact length its header demands (57 / 29 / 29), or a pointer header with a complete hash, or a Byron header; distinct by hash of the address bytes",
        assumptions: vec![
            "reference classifier: header nibble -> kind; base = 57 bytes, enterprise / reward = 29 bytes, pointer = 29 bytes + three terminated base-128 naturals that fit u64 and nothing after them; Byron = [#6.24(bytes .cbor [bytes .size 28, {?1: bytes, ?2: bytes .cbor u32}, 0..2]), crc32] with nothing after it and nothing after the inner triple".into(),
            "lenient zone (the property speaks about values, not about non-canonical encodings of them): zero-padded pointer naturals and non-shortest / indefinite CBOR inside a Byron address may be rejected or accepted; when accepted the value must equal the reference reading and re-encode canonically".into(),
            "Byron attribute keys other than 1 and 2 are valid on chain but have no representation in the library: rejection is accepted, acceptance must be byte-preserving; duplicate attribute keys: only totality is required".into(),
            "reward-account fields (PoolParams.reward_account, Withdrawals keys) are typed RewardAddress, which has no malformed carrier: for bytes that are not a valid reward address the check requires no panic and, if the container decodes, verbatim write-back; a decode error is tolerated and counted (label embedded:<container>:rejected). The never-undecodable clause is asserted for Address-typed fields".into(),
            "to_bech32(None) of a Byron address whose protocol magic is not mainnet / preprod / preview returns Err (no default prefix can be chosen); recorded as an observation label, the Bech32 clause is asserted through to_bech32(Some(prefix))".into(),
            "Byron-headed inputs whose CBOR declares a string longer than 64 KiB beyond the input are skipped (allocation of declared lengths belongs to C02)".into(),
        ],
        subchecks: vec![
            SubCheck { name: "grid", kind: Kind::Enum { count: grid_count, make: grid_make, exhaustive_note: "the empty input + all 256 header bytes x payload lengths 0..80, 200 (quick) / 4000 (thorough) payload fillings per cell: constants 00 ff 80 7f 01, seeded random hashes, varint-alphabet tails and by-construction valid triples for pointer headers, CBOR-shaped tails and exact / too long / too short valid templates for the Byron header" }, run: grid_case },
            SubCheck { name: "typed", kind: Kind::Tape { quick: 600_000, thorough: 15_000_000, max_len: 200 }, run: typed_case },
            SubCheck { name: "pointer", kind: Kind::Tape { quick: 1_000_000, thorough: 25_000_000, max_len: 120 }, run: pointer_case },
            SubCheck { name: "byron", kind: Kind::Tape { quick: 1_000_000, thorough: 25_000_000, max_len: 240 }, run: byron_case },
            SubCheck { name: "bech32", kind: Kind::Tape { quick: 400_000, thorough: 10_000_000, max_len: 240 }, run: bech32_case },
        ],
        crash_prone: true,
        max_reject_fraction: 0.02,
        required_label_fraction: vec![
            ("pointer", "ptr:shape:canonical", 0.15),
            ("pointer", "ptr:shape:padded", 0.05),
            ("pointer", "ptr:shape:unterminated", 0.03),
            ("pointer", "ptr:shape:overflow", 0.03),
            ("byron", "byron:mutation:none", 0.15),
            ("byron", "byron:attrs:both", 0.05),
            ("typed", "typed:kind:Byron", 0.1),
        ],
    }
}

const MAINNET_MAGIC: u32 = 764824073;

// ---------------------------------------------------------------------------------------------
// engine-side primitives (no library code involved)

pub(crate) fn crc32(data: &[u8]) -> u32 {
    let mut c: u32 = 0xFFFF_FFFF;
    for b in data {
        c ^= *b as u32;
        for _ in 0..8 {
            c = if c & 1 == 1 { (c >> 1) ^ 0xEDB8_8320 } else { c >> 1 };
        }
    }
    !c
}

/// base-128 big-endian natural with `pad` redundant leading 0x80 groups
fn varint(v: u64, pad: usize) -> Vec<u8> {
    let mut groups = vec![(v & 0x7F) as u8];
    let mut x = v >> 7;
    while x > 0 {
        groups.push((x & 0x7F) as u8 | 0x80);
        x >>= 7;
    }
    for _ in 0..pad {
        groups.push(0x80);
    }
    groups.reverse();
    groups
}

enum VarRes {
    Ok { value: u64, used: usize, minimal: bool },
    Missing,
    Unterminated,
    Overflow,
}

/// own reader: locate the terminating group, strip redundant leading 0x80 groups, then at most ten
/// significant groups, the first of ten carrying at most one bit
fn read_varint(b: &[u8]) -> VarRes {
    if b.is_empty() {
        return VarRes::Missing;
    }
    let end = match b.iter().position(|x| x & 0x80 == 0) {
        Some(i) => i,
        None => return VarRes::Unterminated,
    };
    let group = &b[..=end];
    let pad = group.iter().take_while(|x| **x == 0x80).count();
    let sig = &group[pad..];
    if sig.len() > 10 || (sig.len() == 10 && (sig[0] & 0x7F) > 1) {
        return VarRes::Overflow;
    }
    let mut v: u64 = 0;
    for g in sig {
        v = (v << 7) | (g & 0x7F) as u64;
    }
    VarRes::Ok { value: v, used: group.len(), minimal: pad == 0 }
}

const B32: &[u8; 32] = b"qpzry9x8gf2tvdw0s3jn54khce6mua7l";

fn bech32_polymod(values: &[u8]) -> u32 {
    const GEN: [u32; 5] = [0x3b6a57b2, 0x26508e6d, 0x1ea119fa, 0x3d4233dd, 0x2a1462b3];
    let mut chk: u32 = 1;
    for v in values {
        let top = chk >> 25;
        chk = ((chk & 0x1ff_ffff) << 5) ^ (*v as u32);
        for (i, g) in GEN.iter().enumerate() {
            if (top >> i) & 1 == 1 {
                chk ^= g;
            }
        }
    }
    chk
}

/// own Bech32 encoder (BIP-173, no length limit); `hrp` must already be lower case
pub(crate) fn bech32_encode(hrp: &str, data: &[u8]) -> String {
    let mut d5: Vec<u8> = Vec::with_capacity(data.len() * 8 / 5 + 1);
    let mut acc: u32 = 0;
    let mut bits = 0;
    for b in data {
        acc = (acc << 8) | *b as u32;
        bits += 8;
        while bits >= 5 {
            bits -= 5;
            d5.push(((acc >> bits) & 31) as u8);
        }
    }
    if bits > 0 {
        d5.push(((acc << (5 - bits)) & 31) as u8);
    }
    let mut values: Vec<u8> = hrp.bytes().map(|c| c >> 5).collect();
    values.push(0);
    values.extend(hrp.bytes().map(|c| c & 31));
    values.extend_from_slice(&d5);
    values.extend_from_slice(&[0; 6]);
    let pm = bech32_polymod(&values) ^ 1;
    let mut s = String::with_capacity(hrp.len() + 1 + d5.len() + 6);
    s.push_str(hrp);
    s.push('1');
    for v in &d5 {
        s.push(B32[*v as usize] as char);
    }
    for i in 0..6 {
        s.push(B32[((pm >> (5 * (5 - i))) & 31) as usize] as char);
    }
    s
}

const B58: &[u8; 58] = b"123456789ABCDEFGHJKLMNPQRSTUVWXYZabcdefghijkmnopqrstuvwxyz";

/// own Base58 encoder (bitcoin alphabet, leading zero bytes -> '1')
pub(crate) fn base58_encode(data: &[u8]) -> String {
    let zeros = data.iter().take_while(|b| **b == 0).count();
    let mut num: Vec<u8> = data[zeros..].to_vec();
    let mut out: Vec<u8> = Vec::new();
    let mut start = 0;
    while start < num.len() {
        let mut rem: u32 = 0;
        for d in num[start..].iter_mut() {
            let cur = rem * 256 + *d as u32;
            *d = (cur / 58) as u8;
            rem = cur % 58;
        }
        out.push(B58[rem as usize]);
        while start < num.len() && num[start] == 0 {
            start += 1;
        }
    }
    for _ in 0..zeros {
        out.push(b'1');
    }
    out.reverse();
    String::from_utf8(out).unwrap()
}

struct Xs(u64);
impl Xs {
    fn new(seed: u64) -> Xs {
        Xs(fp_mix(seed, 0xC11) | 1)
    }
    fn next(&mut self) -> u64 {
        let mut x = self.0;
        x ^= x << 13;
        x ^= x >> 7;
        x ^= x << 17;
        self.0 = x;
        x.wrapping_mul(0x2545_F491_4F6C_DD1D)
    }
    fn byte(&mut self) -> u8 {
        (self.next() >> 32) as u8
    }
    fn below(&mut self, n: u64) -> u64 {
        (self.next() >> 11) % n
    }
}

// ---------------------------------------------------------------------------------------------
// reference reading and classifier

#[derive(Clone, Debug, PartialEq, Eq)]
struct RCred {
    script: bool,
    hash: [u8; 28],
}

#[derive(Clone, Debug, PartialEq, Eq)]
enum Reading {
    Base { net: u8, pay: RCred, stake: RCred },
    Pointer { net: u8, pay: RCred, slot: u64, tx: u64, cert: u64 },
    Enterprise { net: u8, pay: RCred },
    Reward { net: u8, cred: RCred },
    Byron { root: [u8; 28], derivation: Option<Vec<u8>>, magic: Option<u32>, typ: u8 },
}

impl Reading {
    fn kind(&self) -> &'static str {
        match self {
            Reading::Base { .. } => "Base",
            Reading::Pointer { .. } => "Pointer",
            Reading::Enterprise { .. } => "Enterprise",
            Reading::Reward { .. } => "Reward",
            Reading::Byron { .. } => "Byron",
        }
    }
}

#[derive(Clone, Debug, PartialEq, Eq)]
enum Class {
    /// a valid address in its one canonical encoding
    Canonical(Reading),
    /// a readable address in a non-canonical encoding (may be rejected, may be normalised)
    Lenient(Reading, &'static str),
    /// valid on chain, not representable by the library (unknown Byron attribute)
    Unsupported(&'static str),
    /// no stated expectation beyond totality
    Unspecified(&'static str),
    /// not a valid address
    Invalid(&'static str),
}

impl Class {
    fn label(&self) -> String {
        match self {
            Class::Canonical(r) => format!("canonical:{}", r.kind()),
            Class::Lenient(r, w) => format!("lenient:{}:{}", r.kind(), w),
            Class::Unsupported(w) => format!("unsupported:{}", w),
            Class::Unspecified(w) => format!("unspecified:{}", w),
            Class::Invalid(w) => format!("invalid:{}", w),
        }
    }
}

fn nibble_kind(h: u8) -> &'static str {
    match h >> 4 {
        0..=3 => "Base",
        4 | 5 => "Pointer",
        6 | 7 => "Enterprise",
        14 | 15 => "Reward",
        8 => "Byron",
        _ => "None",
    }
}

fn rcred(script: bool, b: &[u8]) -> RCred {
    let mut hash = [0u8; 28];
    hash.copy_from_slice(&b[..28]);
    RCred { script, hash }
}

/// what the stand-alone `Address` parsers must make of `b`
fn classify(b: &[u8]) -> Class {
    if b.is_empty() {
        return Class::Invalid("empty");
    }
    let h = b[0];
    let net = h & 0x0F;
    let exact = |n: usize| -> Option<Class> {
        if b.len() < n {
            Some(Class::Invalid("truncated"))
        } else if b.len() > n {
            Some(Class::Invalid("trailing-bytes"))
        } else {
            None
        }
    };
    match h >> 4 {
        0..=3 => exact(57).unwrap_or_else(|| Class::Canonical(Reading::Base { net, pay: rcred(h & 0x10 != 0, &b[1..29]), stake: rcred(h & 0x20 != 0, &b[29..57]) })),
        4 | 5 => {
            if b.len() < 29 {
                return Class::Invalid("truncated");
            }
            let pay = rcred(h & 0x10 != 0, &b[1..29]);
            let mut pos = 29;
            let mut vals = [0u64; 3];
            let mut minimal = true;
            for v in vals.iter_mut() {
                match read_varint(&b[pos..]) {
                    VarRes::Ok { value, used, minimal: m } => {
                        *v = value;
                        pos += used;
                        minimal &= m;
                    }
                    VarRes::Missing => return Class::Invalid("truncated"),
                    VarRes::Unterminated => return Class::Invalid("varint-unterminated"),
                    VarRes::Overflow => return Class::Invalid("varint-overflow"),
                }
            }
            if pos < b.len() {
                return Class::Invalid("trailing-bytes");
            }
            let r = Reading::Pointer { net, pay, slot: vals[0], tx: vals[1], cert: vals[2] };
            if minimal {
                Class::Canonical(r)
            } else {
                Class::Lenient(r, "varint-zero-padded")
            }
        }
        6 | 7 => exact(29).unwrap_or_else(|| Class::Canonical(Reading::Enterprise { net, pay: rcred(h & 0x10 != 0, &b[1..29]) })),
        14 | 15 => exact(29).unwrap_or_else(|| Class::Canonical(Reading::Reward { net, cred: rcred(h & 0x10 != 0, &b[1..29]) })),
        8 => classify_byron(b),
        _ => Class::Invalid("bad-header-nibble"),
    }
}

enum HeadLen {
    Len(u64),
    Indef,
    Broken,
}

fn array_head(b: &[u8]) -> HeadLen {
    let ai = b[0] & 0x1F;
    let n = match ai {
        0..=23 => return HeadLen::Len(ai as u64),
        24 => 1,
        25 => 2,
        26 => 4,
        27 => 8,
        31 => return HeadLen::Indef,
        _ => return HeadLen::Broken,
    };
    if b.len() < 1 + n {
        return HeadLen::Broken;
    }
    let mut v = 0u64;
    for x in &b[1..1 + n] {
        v = (v << 8) | *x as u64;
    }
    HeadLen::Len(v)
}

/// strict Byron parse (what `ByronAddress::from_bytes` / `from_base58` must make of `b`)
fn classify_byron(b: &[u8]) -> Class {
    if b.is_empty() {
        return Class::Invalid("empty");
    }
    if b[0] >> 5 != 4 {
        return Class::Invalid("byron-not-an-array");
    }
    match array_head(b) {
        HeadLen::Len(2) | HeadLen::Indef => {}
        HeadLen::Len(_) => return Class::Invalid("byron-array-len"),
        HeadLen::Broken => return Class::Invalid("byron-malformed-cbor"),
    }
    let (node, used) = match cbor::parse_prefix(b) {
        Ok(x) => x,
        Err(_) => return Class::Invalid("byron-malformed-cbor"),
    };
    let items = node.as_array().expect("array head checked");
    if items.len() != 2 {
        return Class::Invalid("byron-array-len");
    }
    let data = match items[0].as_tag() {
        Some((24, inner)) => match inner.as_bytes() {
            Some(d) => d,
            None => return Class::Invalid("byron-outer-shape"),
        },
        Some(_) => return Class::Invalid("byron-tag"),
        None => return Class::Invalid("byron-outer-shape"),
    };
    let crc = match items[1].as_u64() {
        Some(c) => c,
        None => return Class::Invalid("byron-outer-shape"),
    };
    if crc != crc32(data) as u64 {
        return Class::Invalid("byron-crc");
    }
    let (inner, iused) = match cbor::parse_prefix(data) {
        Ok(x) => x,
        Err(_) => return Class::Invalid("byron-inner-malformed-cbor"),
    };
    let it = match inner.as_array() {
        Some(a) if a.len() == 3 => a,
        _ => return Class::Invalid("byron-inner-shape"),
    };
    let root_b = match it[0].as_bytes() {
        Some(r) => r,
        None => return Class::Invalid("byron-inner-shape"),
    };
    if root_b.len() != 28 {
        return Class::Invalid("byron-root-length");
    }
    let attrs = match it[1].as_map() {
        Some(m) => m,
        None => return Class::Invalid("byron-inner-shape"),
    };
    let typ = match it[2].as_u64() {
        Some(t) if t <= 2 => t as u8,
        Some(_) => return Class::Invalid("byron-address-type"),
        None => return Class::Invalid("byron-inner-shape"),
    };
    let mut derivation: Option<Vec<u8>> = None;
    let mut magic: Option<u32> = None;
    let mut unknown = false;
    let mut duplicate = false;
    let mut noncanonical = false;
    let mut last_key: Option<u64> = None;
    for (k, v) in attrs {
        let key = match k.as_u64() {
            Some(k) => k,
            None => return Class::Invalid("byron-attribute-key-type"),
        };
        if let Some(l) = last_key {
            if key <= l {
                noncanonical = true;
            }
        }
        last_key = Some(last_key.map(|l| l.max(key)).unwrap_or(key));
        match key {
            1 => {
                let d = match v.as_bytes() {
                    Some(d) => d,
                    None => return Class::Invalid("byron-attribute-value-type"),
                };
                if derivation.is_some() {
                    duplicate = true;
                }
                derivation = Some(d.to_vec());
            }
            2 => {
                let d = match v.as_bytes() {
                    Some(d) => d,
                    None => return Class::Invalid("byron-attribute-value-type"),
                };
                let (mn, mused) = match cbor::parse_prefix(d) {
                    Ok(x) => x,
                    Err(_) => return Class::Invalid("byron-magic-value"),
                };
                let m = match mn.as_u64() {
                    Some(m) if m <= u32::MAX as u64 => m as u32,
                    _ => return Class::Invalid("byron-magic-value"),
                };
                if mused < d.len() {
                    return Class::Invalid("byron-magic-trailing-bytes");
                }
                if !mn.head_minimal() {
                    noncanonical = true;
                }
                if magic.is_some() {
                    duplicate = true;
                }
                magic = Some(m);
            }
            _ => unknown = true,
        }
    }
    if iused < data.len() {
        return Class::Invalid("byron-inner-trailing-bytes");
    }
    if used < b.len() {
        return Class::Invalid("byron-trailing-bytes");
    }
    if duplicate {
        return Class::Unspecified("byron-duplicate-attribute");
    }
    if unknown {
        return Class::Unsupported("byron-unknown-attribute");
    }
    if cbor::first_noncanonical(&node).is_some() || cbor::first_noncanonical(&inner).is_some() {
        noncanonical = true;
    }
    let mut root = [0u8; 28];
    root.copy_from_slice(root_b);
    let r = Reading::Byron { root, derivation, magic, typ };
    if noncanonical {
        Class::Lenient(r, "byron-noncanonical-cbor")
    } else {
        Class::Canonical(r)
    }
}

fn byron_attr_entries(derivation: &Option<Vec<u8>>, magic: &Option<u32>) -> Vec<(cbor::Node, cbor::Node)> {
    let mut e = Vec::new();
    if let Some(d) = derivation {
        e.push((cbor::uint(1), cbor::bytes(d)));
    }
    if let Some(m) = magic {
        e.push((cbor::uint(2), cbor::bytes(&cbor::encode(&cbor::uint(*m as u64)))));
    }
    e
}

fn byron_wrap(inner: &[u8], crc: u64) -> Vec<u8> {
    cbor::encode(&cbor::array(vec![cbor::tag(24, cbor::bytes(inner)), cbor::uint(crc)]))
}

fn byron_canonical(root: &[u8], derivation: &Option<Vec<u8>>, magic: &Option<u32>, typ: u8) -> Vec<u8> {
    let inner = cbor::encode(&cbor::array(vec![cbor::bytes(root), cbor::map(byron_attr_entries(derivation, magic)), cbor::uint(typ as u64)]));
    byron_wrap(&inner, crc32(&inner) as u64)
}

/// canonical bytes of a reading (own encoder)
fn encode_reading(r: &Reading) -> Vec<u8> {
    let mut out = Vec::with_capacity(64);
    match r {
        Reading::Base { net, pay, stake } => {
            out.push(((pay.script as u8) << 4) | ((stake.script as u8) << 5) | (net & 15));
            out.extend_from_slice(&pay.hash);
            out.extend_from_slice(&stake.hash);
        }
        Reading::Pointer { net, pay, slot, tx, cert } => {
            out.push(0x40 | ((pay.script as u8) << 4) | (net & 15));
            out.extend_from_slice(&pay.hash);
            out.extend(varint(*slot, 0));
            out.extend(varint(*tx, 0));
            out.extend(varint(*cert, 0));
        }
        Reading::Enterprise { net, pay } => {
            out.push(0x60 | ((pay.script as u8) << 4) | (net & 15));
            out.extend_from_slice(&pay.hash);
        }
        Reading::Reward { net, cred } => {
            out.push(0xE0 | ((cred.script as u8) << 4) | (net & 15));
            out.extend_from_slice(&cred.hash);
        }
        Reading::Byron { root, derivation, magic, typ } => out = byron_canonical(root, derivation, magic, *typ),
    }
    out
}

// ---------------------------------------------------------------------------------------------
// comparing a library value with a reference reading

fn hx(b: &[u8]) -> String {
    hex::encode(b)
}

fn cred_matches(c: &Credential, r: &RCred) -> bool {
    if r.script {
        c.kind() == CredKind::Script && c.to_keyhash().is_none() && c.to_scripthash().map(|h| h.to_bytes()) == Some(r.hash.to_vec()) && c.has_script_hash()
    } else {
        c.kind() == CredKind::Key && c.to_scripthash().is_none() && c.to_keyhash().map(|h| h.to_bytes()) == Some(r.hash.to_vec()) && !c.has_script_hash()
    }
}

fn to_csl_cred(r: &RCred) -> Credential {
    if r.script {
        Credential::from_scripthash(&ScriptHash::from_bytes(r.hash.to_vec()).expect("28 bytes"))
    } else {
        Credential::from_keyhash(&Ed25519KeyHash::from_bytes(r.hash.to_vec()).expect("28 bytes"))
    }
}

fn kind_name(a: &Address) -> String {
    format!("{:?}", a.kind())
}

fn u64_of(b: BigNum) -> u64 {
    b.into()
}

/// Err((field, detail)) when a getter disagrees with the reading. Panics inside are caught by the callers.
fn compare_reading(a: &Address, r: &Reading) -> Result<(), (&'static str, String)> {
    let k = kind_name(a);
    if k != r.kind() {
        return Err(("kind", format!("kind() = {} but the header says {}", k, r.kind())));
    }
    if a.is_malformed() {
        return Err(("kind", "is_malformed() is true for a valid address".into()));
    }
    let downcasts = [
        ("Base", BaseAddress::from_address(a).is_some()),
        ("Pointer", PointerAddress::from_address(a).is_some()),
        ("Enterprise", EnterpriseAddress::from_address(a).is_some()),
        ("Reward", RewardAddress::from_address(a).is_some()),
        ("Byron", ByronAddress::from_address(a).is_some()),
        ("Malformed", MalformedAddress::from_address(a).is_some()),
    ];
    for (name, some) in downcasts {
        if some != (name == r.kind()) {
            return Err(("downcast", format!("{}Address::from_address(..).is_some() = {} for a {} address", name, some, r.kind())));
        }
    }
    let net_of = |want: u8| -> Result<(), (&'static str, String)> {
        match a.network_id() {
            Ok(n) if n == want => Ok(()),
            Ok(n) => Err(("network-id", format!("network_id() = {} but the header encodes {}", n, want))),
            Err(e) => Err(("network-id", format!("network_id() = Err({:?}) but the header encodes {}", e, want))),
        }
    };
    let pay_of = |want: &RCred| -> Result<(), (&'static str, String)> {
        match a.payment_cred() {
            Some(c) if cred_matches(&c, want) => Ok(()),
            Some(c) => Err(("payment-cred", format!("payment_cred() = {:?} but the bytes encode script={} hash={}", c, want.script, hx(&want.hash)))),
            None => Err(("payment-cred", "payment_cred() = None".into())),
        }
    };
    match r {
        Reading::Base { net, pay, stake } => {
            net_of(*net)?;
            pay_of(pay)?;
            let b = BaseAddress::from_address(a).unwrap();
            if b.network_id() != *net || !cred_matches(&b.payment_cred(), pay) {
                return Err(("payment-cred", "BaseAddress getters disagree with the bytes".into()));
            }
            if !cred_matches(&b.stake_cred(), stake) {
                return Err(("stake-cred", format!("stake_cred() = {:?} but the bytes encode script={} hash={}", b.stake_cred(), stake.script, hx(&stake.hash))));
            }
        }
        Reading::Pointer { net, pay, slot, tx, cert } => {
            net_of(*net)?;
            pay_of(pay)?;
            let p = PointerAddress::from_address(a).unwrap();
            if p.network_id() != *net || !cred_matches(&p.payment_cred(), pay) {
                return Err(("payment-cred", "PointerAddress getters disagree with the bytes".into()));
            }
            let sp = p.stake_pointer();
            let got = (u64_of(sp.slot_bignum()), u64_of(sp.tx_index_bignum()), u64_of(sp.cert_index_bignum()));
            if got != (*slot, *tx, *cert) {
                return Err(("pointer", format!("stake_pointer() = {:?} but the bytes encode {:?}", got, (slot, tx, cert))));
            }
            // the u32 views agree where the value fits and fail where it does not
            for (name, v, got32) in [("slot", *slot, sp.slot()), ("tx_index", *tx, sp.tx_index()), ("cert_index", *cert, sp.cert_index())] {
                match (got32, v <= u32::MAX as u64) {
                    (Ok(x), true) if x as u64 == v => {}
                    (Err(_), false) => {}
                    (o, _) => return Err(("pointer", format!("Pointer::{}() = {:?} for the value {}", name, o.map_err(|e| format!("{:?}", e)), v))),
                }
            }
        }
        Reading::Enterprise { net, pay } => {
            net_of(*net)?;
            pay_of(pay)?;
            let e = EnterpriseAddress::from_address(a).unwrap();
            if e.network_id() != *net || !cred_matches(&e.payment_cred(), pay) {
                return Err(("payment-cred", "EnterpriseAddress getters disagree with the bytes".into()));
            }
        }
        Reading::Reward { net, cred } => {
            net_of(*net)?;
            pay_of(cred)?;
            let e = RewardAddress::from_address(a).unwrap();
            if e.network_id() != *net || !cred_matches(&e.payment_cred(), cred) {
                return Err(("payment-cred", "RewardAddress getters disagree with the bytes".into()));
            }
        }
        Reading::Byron { root: _, derivation, magic, typ } => {
            if a.payment_cred().is_some() {
                return Err(("payment-cred", "payment_cred() is Some for a Byron address".into()));
            }
            let b = ByronAddress::from_address(a).unwrap();
            let want_magic = magic.unwrap_or(MAINNET_MAGIC);
            if b.byron_protocol_magic() != want_magic {
                return Err(("byron-magic", format!("byron_protocol_magic() = {} but the attributes encode {:?}", b.byron_protocol_magic(), magic)));
            }
            let want_typ = match typ {
                0 => ByronAddressType::ATPubKey,
                1 => ByronAddressType::ATScript,
                _ => ByronAddressType::ATRedeem,
            };
            if b.byron_address_kind() != want_typ {
                return Err(("byron-type", format!("byron_address_kind() = {:?} but the bytes encode {}", b.byron_address_kind(), typ)));
            }
            let want_attrs = cbor::encode(&cbor::map(byron_attr_entries(derivation, magic)));
            if b.attributes() != want_attrs {
                return Err(("byron-attributes", format!("attributes() = {} but the bytes carry {}", hx(&b.attributes()), hx(&want_attrs))));
            }
            let want_net = match want_magic {
                MAINNET_MAGIC => Some(1u8),
                1 | 2 => Some(0u8),
                _ => None,
            };
            if let Some(w) = want_net {
                net_of(w)?;
                match b.network_id() {
                    Ok(n) if n == w => {}
                    o => return Err(("network-id", format!("ByronAddress::network_id() = {:?} for magic {}", o.map_err(|e| format!("{:?}", e)), want_magic))),
                }
            }
        }
    }
    Ok(())
}

fn panic_sig(scope: &str, input: &[u8], p: &PanicInfo) -> String {
    if input.is_empty() && p.file.contains("protocol_types/address.rs") && p.msg.contains("index out of bounds") {
        format!("{}/panic-empty-input", scope)
    } else if p.file.contains("legacy_address/cbor.rs") && p.msg.contains("assertion failed") {
        format!("{}/byron-assert-array-len", scope)
    } else {
        format!("{}/panic/{}", scope, p.cause())
    }
}

fn accepted_sig(why: &str, b: &[u8]) -> String {
    match why {
        "byron-trailing-bytes" => "standalone/byron-trailing-bytes-accepted".to_string(),
        w if w.starts_with("byron-") => format!("standalone/{}-accepted", w),
        w => format!("standalone/{}-accepted/{}", w, b.first().map(|h| nibble_kind(*h)).unwrap_or("None")),
    }
}

/// judges the outcome of one stand-alone parser against the class of its input
fn judge(entry: &str, b: &[u8], cls: &Class, res: Result<Result<Address, String>, PanicInfo>) -> CaseResult {
    let res = match res {
        Ok(r) => r,
        Err(p) => fail!(panic_sig("standalone", b, &p), "{}({}) panicked at {}:{}: {}", entry, hx(b), p.file, p.line, p.msg),
    };
    // everything below reads getters of a library value: a panic there is a violation of its own
    let inner = catch(|| -> CaseResult {
        match (cls, &res) {
            (Class::Canonical(r), Ok(a)) => {
                if let Err((field, d)) = compare_reading(a, r) {
                    fail!(format!("standalone/wrong-{}/{}", field, r.kind()), "{}({}): {}", entry, hx(b), d)
                }
                let back = a.to_bytes();
                ensure!(back == b, format!("standalone/to-bytes-differs/{}", r.kind()), "{}({}) then to_bytes() = {}", entry, hx(b), hx(&back));
            }
            (Class::Canonical(r), Err(e)) => fail!(format!("standalone/rejected-valid/{}", r.kind()), "{}({}) = Err({}) but the bytes are a valid {} address", entry, hx(b), e, r.kind()),
            (Class::Lenient(r, why), Ok(a)) => {
                if let Err((field, d)) = compare_reading(a, r) {
                    fail!(format!("standalone/wrong-{}/{}", field, r.kind()), "{}({}) [{}]: {}", entry, hx(b), why, d)
                }
                let back = a.to_bytes();
                ensure!(classify(&back) == Class::Canonical(r.clone()), format!("standalone/lenient-not-normalised/{}", why), "{}({}) then to_bytes() = {} which is not the canonical form of the same address", entry, hx(b), hx(&back));
            }
            (Class::Lenient(..), Err(_)) => {}
            (Class::Invalid(why), Ok(a)) => {
                let back = a.to_bytes();
                fail!(accepted_sig(why, b), "{}({}) = Ok(kind {}, to_bytes {}) but the bytes are not a valid address: {}", entry, hx(b), kind_name(a), hx(&back), why)
            }
            (Class::Invalid(_), Err(_)) => {}
            (Class::Unsupported(why), Ok(a)) => {
                let back = a.to_bytes();
                ensure!(back == b, format!("standalone/unsupported-changed/{}", why), "{}({}) then to_bytes() = {}", entry, hx(b), hx(&back));
            }
            (Class::Unsupported(_), Err(_)) => {}
            (Class::Unspecified(_), _) => {}
        }
        Ok(())
    });
    match inner {
        Ok(r) => r,
        Err(p) => fail!(format!("standalone/getter-panic/{}", p.cause()), "after {}({}): a getter panicked at {}:{}: {}", entry, hx(b), p.file, p.line, p.msg),
    }
}

fn check_standalone(ctx: &mut Ctx, b: &[u8], cls: &Class) -> CaseResult {
    judge("Address::from_bytes", b, cls, catch(|| Address::from_bytes(b.to_vec()).map_err(|e| format!("{}", e))))?;
    let h = hx(b);
    judge("Address::from_hex", b, cls, catch(|| Address::from_hex(&h).map_err(|e| format!("{:?}", e))))?;
    let s = bech32_encode("addr", b);
    judge("Address::from_bech32", b, cls, catch(|| Address::from_bech32(&s).map_err(|e| format!("{:?}", e))))?;
    // the Byron-only parsers see every input; their reference ignores the Shelley header rules
    let bcls = if !b.is_empty() && b[0] >> 4 == 8 { cls.clone() } else { classify_byron(b) };
    judge("ByronAddress::from_bytes", b, &bcls, catch(|| ByronAddress::from_bytes(b.to_vec()).map(|x| x.to_address()).map_err(|e| format!("{:?}", e))))?;
    if !b.is_empty() && b[0] >> 5 == 4 {
        let s58 = base58_encode(b);
        let r = catch(|| ByronAddress::from_base58(&s58).map(|x| x.to_address()).map_err(|e| format!("{:?}", e)));
        let ok = matches!(r, Ok(Ok(_)));
        let panicked = r.is_err();
        judge("ByronAddress::from_base58", b, &bcls, r)?;
        if !panicked {
            match catch(|| ByronAddress::is_valid(&s58)) {
                Ok(v) => ensure!(v == ok, "standalone/is-valid-disagrees", "ByronAddress::is_valid({}) = {} but from_base58 is_ok = {} (bytes {})", s58, v, ok, hx(b)),
                Err(p) => fail!(panic_sig("standalone", b, &p), "ByronAddress::is_valid({}) panicked: {}", s58, p.msg),
            }
        }
        ctx.label("standalone:base58-tried");
    }
    Ok(())
}

// ---------------------------------------------------------------------------------------------
// embedded decoding

const ADDRESS_CONTAINERS: [&str; 5] = ["output-legacy", "output-legacy-datahash", "output-map", "output-map-datum", "body-output"];
const REWARD_CONTAINERS: [&str; 3] = ["pool-params", "withdrawals", "body-withdrawals"];

fn legacy_output(addr: &[u8], coin: u64, data_hash: bool) -> cbor::Node {
    let mut items = vec![cbor::bytes(addr), cbor::uint(coin)];
    if data_hash {
        items.push(cbor::bytes(&[0xD7; 32]));
    }
    cbor::array(items)
}

fn build_container(name: &str, addr: &[u8], coin: u64) -> Vec<u8> {
    let n = match name {
        "output-legacy" => legacy_output(addr, coin, false),
        "output-legacy-datahash" => legacy_output(addr, coin, true),
        "output-map" => cbor::map(vec![(cbor::uint(0), cbor::bytes(addr)), (cbor::uint(1), cbor::uint(coin))]),
        "output-map-datum" => cbor::map(vec![
            (cbor::uint(0), cbor::bytes(addr)),
            (cbor::uint(1), cbor::uint(coin)),
            (cbor::uint(2), cbor::array(vec![cbor::uint(1), cbor::tag(24, cbor::bytes(&[0x05]))])),
        ]),
        "body-output" => cbor::map(vec![
            (cbor::uint(0), cbor::array(vec![])),
            (cbor::uint(1), cbor::array(vec![legacy_output(addr, coin, false)])),
            (cbor::uint(2), cbor::uint(coin)),
        ]),
        "pool-params" => cbor::array(vec![
            cbor::bytes(&[0x11; 28]),
            cbor::bytes(&[0x22; 32]),
            cbor::uint(coin),
            cbor::uint(1),
            cbor::tag(30, cbor::array(vec![cbor::uint(1), cbor::uint(2)])),
            cbor::bytes(addr),
            cbor::array(vec![]),
            cbor::array(vec![]),
            cbor::null(),
        ]),
        "withdrawals" => cbor::map(vec![(cbor::bytes(addr), cbor::uint(coin))]),
        "body-withdrawals" => cbor::map(vec![
            (cbor::uint(0), cbor::array(vec![])),
            (cbor::uint(1), cbor::array(vec![])),
            (cbor::uint(2), cbor::uint(0)),
            (cbor::uint(5), cbor::map(vec![(cbor::bytes(addr), cbor::uint(coin))])),
        ]),
        _ => unreachable!("container"),
    };
    cbor::encode(&n)
}

fn output_addr_node(n: &cbor::Node) -> Option<&cbor::Node> {
    match &n.kind {
        cbor::Kind::Array { items, .. } => items.get(0),
        cbor::Kind::Map { .. } => n.map_get(0),
        _ => None,
    }
}

/// the address byte string as written back by the library, located with the engine's own CBOR reader
fn extract_addr(name: &str, container: &[u8]) -> Option<Vec<u8>> {
    let n = cbor::parse_document(container).ok()?;
    let node = match name {
        "output-legacy" | "output-legacy-datahash" | "output-map" | "output-map-datum" => output_addr_node(&n)?,
        "body-output" => output_addr_node(n.map_get(1)?.untag(258).as_array()?.get(0)?)?,
        "pool-params" => n.as_array()?.get(5)?,
        "withdrawals" => &n.as_map()?.get(0)?.0,
        "body-withdrawals" => &n.map_get(5)?.as_map()?.get(0)?.0,
        _ => return None,
    };
    node.as_bytes().map(|b| b.to_vec())
}

/// decode, read the embedded address, write the container back
fn decode_container(name: &str, c: &[u8]) -> Result<(Address, Vec<u8>), String> {
    match name {
        "output-legacy" | "output-legacy-datahash" | "output-map" | "output-map-datum" => {
            let o = TransactionOutput::from_bytes(c.to_vec()).map_err(|e| format!("{}", e))?;
            Ok((o.address(), o.to_bytes()))
        }
        "body-output" => {
            let b = TransactionBody::from_bytes(c.to_vec()).map_err(|e| format!("{}", e))?;
            let outs = b.outputs();
            if outs.len() != 1 {
                return Err(format!("decoded body has {} outputs", outs.len()));
            }
            Ok((outs.get(0).address(), b.to_bytes()))
        }
        "pool-params" => {
            let p = PoolParams::from_bytes(c.to_vec()).map_err(|e| format!("{}", e))?;
            Ok((p.reward_account().to_address(), p.to_bytes()))
        }
        "withdrawals" => {
            let w = Withdrawals::from_bytes(c.to_vec()).map_err(|e| format!("{}", e))?;
            if w.len() != 1 {
                return Err(format!("decoded withdrawals have {} entries", w.len()));
            }
            Ok((w.keys().get(0).to_address(), w.to_bytes()))
        }
        "body-withdrawals" => {
            let b = TransactionBody::from_bytes(c.to_vec()).map_err(|e| format!("{}", e))?;
            let w = b.withdrawals().ok_or_else(|| "decoded body has no withdrawals".to_string())?;
            if w.len() != 1 {
                return Err(format!("decoded withdrawals have {} entries", w.len()));
            }
            Ok((w.keys().get(0).to_address(), b.to_bytes()))
        }
        _ => unreachable!("container"),
    }
}

fn check_embedded_address(ctx: &mut Ctx, b: &[u8], cls: &Class, name: &str, coin: u64) -> CaseResult {
    let c = build_container(name, b, coin);
    let (a, back) = match catch(|| decode_container(name, &c)) {
        Err(p) => fail!(panic_sig("embedded", b, &p), "decoding {} {} (address bytes {}) panicked at {}:{}: {}", name, hx(&c), hx(b), p.file, p.line, p.msg),
        Ok(Err(e)) => fail!(format!("embedded/container-undecodable/{}", name), "{} {} with address bytes {} [{}] does not decode: {}", name, hx(&c), hx(b), cls.label(), e),
        Ok(Ok(x)) => x,
    };
    let w = match extract_addr(name, &back) {
        Some(w) => w,
        None => fail!(format!("embedded/write-back-unreadable/{}", name), "{} written back as {} where no address can be located", name, hx(&back)),
    };
    let inner = catch(|| -> CaseResult {
        let k = kind_name(&a);
        let malformed_ok = |a: &Address| -> CaseResult {
            ensure!(w == b, "embedded/malformed-not-verbatim", "{}: malformed address {} written back as {}", name, hx(b), hx(&w));
            let own = a.to_bytes();
            let orig = MalformedAddress::from_address(a).map(|m| m.original_bytes());
            ensure!(own == b && orig.as_deref() == Some(b), "embedded/malformed-not-verbatim", "{}: malformed address {}: to_bytes() = {}, original_bytes() = {:?}", name, hx(b), hx(&own), orig.map(|o| hx(&o)));
            ensure!(a.is_malformed() && a.payment_cred().is_none() && a.network_id().is_err(), "embedded/malformed-getters", "{}: malformed address {} answers getters as if valid", name, hx(b));
            Ok(())
        };
        match cls {
            Class::Canonical(r) => {
                ensure!(k == r.kind(), format!("embedded/wrong-kind/{}", r.kind()), "{}: valid {} address {} decoded as kind {}", name, r.kind(), hx(b), k);
                ensure!(w == b, format!("embedded/valid-address-changed/{}", r.kind()), "{}: address {} written back as {}", name, hx(b), hx(&w));
                if let Err((field, d)) = compare_reading(&a, r) {
                    fail!(format!("embedded/wrong-{}/{}", field, r.kind()), "{} with address {}: {}", name, hx(b), d)
                }
            }
            Class::Invalid(why) => {
                if k == "Malformed" {
                    malformed_ok(&a)?;
                } else if w != b {
                    if (*why == "trailing-bytes" || *why == "byron-trailing-bytes") && w.len() < b.len() {
                        fail!(format!("embedded/trailing-bytes-dropped/{}", k), "{}: address bytes {} ({}) decoded as kind {} and written back shorter as {}", name, hx(b), why, k, hx(&w))
                    }
                    fail!(format!("embedded/invalid-address-rewritten/{}/{}", why, k), "{}: address bytes {} ({}) decoded as kind {} and written back as {}", name, hx(b), why, k, hx(&w))
                } else {
                    fail!(format!("embedded/invalid-address-not-malformed/{}/{}", why, k), "{}: address bytes {} ({}) decoded as kind {}", name, hx(b), why, k)
                }
            }
            Class::Lenient(r, why) => {
                if k == "Malformed" {
                    malformed_ok(&a)?;
                } else {
                    ensure!(k == r.kind(), format!("embedded/wrong-kind/{}", r.kind()), "{}: {} address {} ({}) decoded as kind {}", name, r.kind(), hx(b), why, k);
                    if let Err((field, d)) = compare_reading(&a, r) {
                        fail!(format!("embedded/wrong-{}/{}", field, r.kind()), "{} with address {} [{}]: {}", name, hx(b), why, d)
                    }
                    ensure!(w == b || classify(&w) == Class::Canonical(r.clone()), format!("embedded/lenient-not-normalised/{}", why), "{}: address {} written back as {} which is neither the input nor its canonical form", name, hx(b), hx(&w));
                }
            }
            Class::Unsupported(why) => {
                ensure!(w == b, format!("embedded/unsupported-changed/{}", why), "{}: address {} written back as {}", name, hx(b), hx(&w));
                if k == "Malformed" {
                    malformed_ok(&a)?;
                }
            }
            Class::Unspecified(_) => {
                if k == "Malformed" {
                    malformed_ok(&a)?;
                }
            }
        }
        Ok(())
    });
    ctx.label(&format!("embedded:{}:{}", name, kind_name(&a)));
    match inner {
        Ok(r) => r,
        Err(p) => fail!(format!("embedded/getter-panic/{}", p.cause()), "{} with address {}: a getter panicked at {}:{}: {}", name, hx(b), p.file, p.line, p.msg),
    }
}

fn check_embedded_reward(ctx: &mut Ctx, b: &[u8], cls: &Class, name: &str, coin: u64) -> CaseResult {
    let c = build_container(name, b, coin);
    let valid_reward = match cls {
        Class::Canonical(r @ Reading::Reward { .. }) => Some(r),
        _ => None,
    };
    match catch(|| decode_container(name, &c)) {
        Err(p) => fail!(panic_sig("embedded", b, &p), "decoding {} {} (reward account bytes {}) panicked at {}:{}: {}", name, hx(&c), hx(b), p.file, p.line, p.msg),
        Ok(Err(e)) => {
            if valid_reward.is_some() {
                fail!(format!("embedded/container-undecodable/{}", name), "{} {} with the valid reward address {} does not decode: {}", name, hx(&c), hx(b), e)
            }
            ctx.label(&format!("embedded:{}:rejected", name));
        }
        Ok(Ok((a, back))) => {
            let w = match extract_addr(name, &back) {
                Some(w) => w,
                None => fail!(format!("embedded/write-back-unreadable/{}", name), "{} written back as {} where no reward account can be located", name, hx(&back)),
            };
            ensure!(w == b, format!("embedded/reward-account-changed/{}", name), "{}: reward account bytes {} [{}] written back as {}", name, hx(b), cls.label(), hx(&w));
            if let Some(r) = valid_reward {
                match catch(|| compare_reading(&a, r)) {
                    Ok(Ok(())) => {}
                    Ok(Err((field, d))) => fail!(format!("embedded/wrong-{}/Reward", field), "{} with reward account {}: {}", name, hx(b), d),
                    Err(p) => fail!(format!("embedded/getter-panic/{}", p.cause()), "{}: {}", name, p.msg),
                }
            } else {
                // a reward-account field can only hold a reward address: anything else that decodes is a misreading
                fail!(format!("embedded/reward-account-accepts-invalid/{}", name), "{}: bytes {} [{}] were accepted as a reward account of kind {}", name, hx(b), cls.label(), kind_name(&a))
            }
            ctx.label(&format!("embedded:{}:decoded", name));
        }
    }
    Ok(())
}

fn exact_len_for(h: u8) -> Option<usize> {
    match h >> 4 {
        0..=3 => Some(57),
        6 | 7 | 14 | 15 => Some(29),
        _ => None,
    }
}

fn nontrivial_bytes(b: &[u8]) -> bool {
    if b.is_empty() {
        return false;
    }
    match exact_len_for(b[0]) {
        Some(n) => b.len() + 2 >= n && b.len() <= n + 2,
        None => match b[0] >> 4 {
            4 | 5 => b.len() >= 30,
            8 => true,
            _ => false,
        },
    }
}

/// reads a CBOR head at `p`: (major, argument or None for indefinite, position after the head)
fn head_at(b: &[u8], p: usize) -> Option<(u8, Option<u64>, usize)> {
    let ib = *b.get(p)?;
    let n = match ib & 0x1F {
        ai @ 0..=23 => return Some((ib >> 5, Some(ai as u64), p + 1)),
        24 => 1,
        25 => 2,
        26 => 4,
        27 => 8,
        31 => return Some((ib >> 5, None, p + 1)),
        _ => return None,
    };
    let mut v = 0u64;
    for x in b.get(p + 1..p + 1 + n)? {
        v = (v << 8) | *x as u64;
    }
    Some((ib >> 5, Some(v), p + 1 + n))
}

/// the Byron path hands a declared byte-string length to the allocator before reading: outer array
/// head, a tag, then a definite string head that promises more than 64 KiB beyond the input
/// (allocation of declared lengths is C02's subject)
fn allocation_hazard(b: &[u8]) -> bool {
    let step = || -> Option<bool> {
        let (m0, _, p) = head_at(b, 0)?;
        if m0 != 4 {
            return Some(false);
        }
        let (m1, _, p) = head_at(b, p)?;
        if m1 != 6 {
            return Some(false);
        }
        let (m2, len, p) = head_at(b, p)?;
        Some(m2 == 2 && len.map(|l| l > (b.len() - p) as u64 && l > (1 << 16)).unwrap_or(false))
    };
    step().unwrap_or(false)
}

/// the whole oracle for one address byte string
fn check_bytes(ctx: &mut Ctx, b: &[u8], origin: &str) -> CaseResult {
    if allocation_hazard(b) {
        ctx.label("skipped:over-declared-length");
        ctx.reject();
        return Ok(());
    }
    let cls = classify(b);
    ctx.label(&format!("class:{}", cls.label()));
    let coin = (fp64(b) >> 7) % 3_000_000;
    let mut fails: Vec<Failure> = Vec::new();
    if let Err(f) = check_standalone(ctx, b, &cls) {
        fails.push(f);
    }
    for name in ADDRESS_CONTAINERS {
        if let Err(f) = check_embedded_address(ctx, b, &cls, name, coin) {
            fails.push(f);
        }
    }
    for name in REWARD_CONTAINERS {
        if let Err(f) = check_embedded_reward(ctx, b, &cls, name, coin) {
            fails.push(f);
        }
    }
    if nontrivial_bytes(b) {
        ctx.nontrivial(fp64(b));
        let class = format!("{}:{}", origin, cls.label());
        if ctx.wants_sample(&class) {
            ctx.sample(&class, || format!("{} bytes {} -> {}", b.len(), hx(b), match &cls {
                Class::Canonical(r) | Class::Lenient(r, _) => format!("{:?}", r),
                other => other.label(),
            }));
        }
    }
    if fails.is_empty() {
        Ok(())
    } else {
        // several parts may fail on one input (a defect of one part must not hide the others):
        // which failure is reported is a fixed function of the input
        // (inputs of at most one byte are too few to spread over: there the stand-alone parsers win)
        let i = if b.len() <= 1 { 0 } else { (fp64(b) % fails.len() as u64) as usize };
        Err(fails.swap_remove(i))
    }
}

// ---------------------------------------------------------------------------------------------
// (a) bounded-exhaustive grid: header x payload length x fillings

fn grid_fillings(t: Tier) -> u64 {
    t.pick(200, 4000)
}

fn grid_count(t: Tier) -> u64 {
    1 + 256 * 81 * grid_fillings(t)
}

const VARINT_ALPHABET: [u8; 6] = [0x00, 0x01, 0x7F, 0x80, 0x81, 0xFF];

/// a canonical natural of exactly `size` groups (1..=10)
fn canonical_varint_of_size(x: &mut Xs, size: usize) -> Vec<u8> {
    let mut out = Vec::with_capacity(size);
    for i in 0..size {
        let last = i + 1 == size;
        let mut g = x.byte() & 0x7F;
        if i == 0 && size > 1 {
            g = if size == 10 { 1 } else { g.max(1) };
        }
        out.push(if last { g } else { g | 0x80 });
    }
    out
}

/// a valid Byron address of total length as close to `total` as possible; then cut / padded to `total`
fn byron_template(x: &mut Xs, total: usize, spoil_crc: bool) -> Vec<u8> {
    let mut root = [0u8; 28];
    for r in root.iter_mut() {
        *r = x.byte();
    }
    let magic = if x.below(2) == 0 { None } else { Some(x.next() as u32 >> (x.below(4) * 8)) };
    let typ = x.below(3) as u8;
    let mut best = byron_canonical(&root, &None, &magic, typ);
    if best.len() < total {
        for d in 0..=total {
            let der: Vec<u8> = (0..d).map(|i| (i as u8).wrapping_mul(37) ^ root[0]).collect();
            let c = byron_canonical(&root, &Some(der), &magic, typ);
            if c.len() > total {
                break;
            }
            best = c;
            if best.len() == total {
                break;
            }
        }
    }
    if spoil_crc {
        let l = best.len();
        best[l - 1] ^= 0x01;
    }
    best.resize(total, 0x00);
    best
}

fn grid_make(t: Tier, i: u64) -> Vec<u8> {
    if i == 0 {
        return Vec::new();
    }
    let j = i - 1;
    let f = grid_fillings(t);
    let k = j % f;
    let cell = j / f;
    let len = (cell % 81) as usize;
    let hdr = (cell / 81) as u8;
    let mut x = Xs::new(j);
    let mut out = Vec::with_capacity(1 + len);
    out.push(hdr);
    match k {
        0 => out.resize(1 + len, 0x00),
        1 => out.resize(1 + len, 0xFF),
        2 => out.resize(1 + len, 0x80),
        3 => out.resize(1 + len, 0x7F),
        4 => out.resize(1 + len, 0x01),
        _ => {
            for _ in 0..len {
                out.push(x.byte());
            }
            match hdr >> 4 {
                4 | 5 if len > 28 => {
                    let tail = len - 28;
                    if k % 5 == 0 && (3..=30).contains(&tail) {
                        // three canonical naturals filling the tail exactly
                        let mut sizes = [1usize; 3];
                        let mut left = tail - 3;
                        while left > 0 {
                            let s = x.below(3) as usize;
                            if sizes[s] < 10 {
                                sizes[s] += 1;
                                left -= 1;
                            }
                        }
                        out.truncate(29);
                        for s in sizes {
                            out.extend(canonical_varint_of_size(&mut x, s));
                        }
                    } else if k % 5 != 1 {
                        for p in 29..1 + len {
                            let c = x.below(8) as usize;
                            if c < 6 {
                                out[p] = VARINT_ALPHABET[c];
                            }
                        }
                        if k % 5 >= 3 {
                            // terminate the last byte so that complete triples are frequent
                            let l = out.len();
                            out[l - 1] &= 0x7F;
                        }
                    }
                }
                8 if hdr == 0x82 => match k % 4 {
                    1 => out = byron_template(&mut x, 1 + len, false),
                    3 => out = byron_template(&mut x, 1 + len, true),
                    2 => {
                        let prefix: &[u8] = match x.below(4) {
                            0 => &[0xD8, 0x18],
                            1 => &[0xD8, 0x18, 0x58],
                            2 => &[0xD8, 0x18, 0x40],
                            _ => &[0xD8, 0x19, 0x41],
                        };
                        for (p, v) in prefix.iter().enumerate() {
                            if 1 + p < out.len() {
                                out[1 + p] = *v;
                            }
                        }
                    }
                    _ => {}
                },
                _ => {}
            }
        }
    }
    out
}

fn len_relation(b: &[u8]) -> &'static str {
    match exact_len_for(b[0]) {
        Some(n) if b.len() == n => "exact",
        Some(n) if b.len() + 2 >= n && b.len() < n => "short-by-1-2",
        Some(n) if b.len() > n && b.len() <= n + 2 => "long-by-1-2",
        Some(n) if b.len() < n => "short",
        Some(_) => "long",
        None => "variable",
    }
}

fn grid_case(ctx: &mut Ctx, input: &[u8]) -> CaseResult {
    if input.is_empty() {
        ctx.label("grid:empty-input");
    } else {
        ctx.label(&format!("grid:nibble:{:04b}:{}", input[0] >> 4, nibble_kind(input[0])));
        ctx.label(&format!("grid:length:{}", len_relation(input)));
    }
    check_bytes(ctx, input, "grid")
}

// ---------------------------------------------------------------------------------------------
// (b) typed addresses through the public constructors

/// structure choices come from the head of the tape, hash-like payload from its tail, so that a
/// short tape still pays for the structure
fn split_tape<'a>(tape: &'a [u8], structure: usize) -> (Tape<'a>, Tape<'a>) {
    let k = tape.len().min(structure);
    (Tape::new(&tape[..k]), Tape::new(&tape[k..]))
}

fn gen_cred(t: &mut Tape, pt: &mut Tape) -> RCred {
    let script = t.bool();
    let mut hash = [0u8; 28];
    match t.choose(8) {
        0..=4 => hash.copy_from_slice(&pt.bytes(28)),
        5 => {}
        6 => hash = [0xFF; 28],
        _ => hash = [0x80; 28],
    }
    RCred { script, hash }
}

fn gen_net(t: &mut Tape) -> u8 {
    t.choose(16) as u8
}

fn gen_shelley_reading(t: &mut Tape, pt: &mut Tape, kind: usize) -> Reading {
    let net = gen_net(t);
    match kind {
        0 => Reading::Base { net, pay: gen_cred(t, pt), stake: gen_cred(t, pt) },
        1 => Reading::Enterprise { net, pay: gen_cred(t, pt) },
        2 => Reading::Reward { net, cred: gen_cred(t, pt) },
        _ => Reading::Pointer { net, pay: gen_cred(t, pt), slot: t.u64_class(), tx: t.u64_class(), cert: t.u64_class() },
    }
}

fn build_shelley(r: &Reading, old_pointer_ctor: bool) -> Address {
    match r {
        Reading::Base { net, pay, stake } => BaseAddress::new(*net, &to_csl_cred(pay), &to_csl_cred(stake)).to_address(),
        Reading::Enterprise { net, pay } => EnterpriseAddress::new(*net, &to_csl_cred(pay)).to_address(),
        Reading::Reward { net, cred } => RewardAddress::new(*net, &to_csl_cred(cred)).to_address(),
        Reading::Pointer { net, pay, slot, tx, cert } => {
            let p = if old_pointer_ctor && *slot <= u32::MAX as u64 && *tx <= u32::MAX as u64 && *cert <= u32::MAX as u64 {
                Pointer::new(*slot as u32, *tx as u32, *cert as u32)
            } else {
                Pointer::new_pointer(&BigNum::from(*slot), &BigNum::from(*tx), &BigNum::from(*cert))
            };
            PointerAddress::new(*net, &to_csl_cred(pay), &p).to_address()
        }
        Reading::Byron { .. } => unreachable!("byron is built from a key"),
    }
}

fn gen_magic(t: &mut Tape) -> u32 {
    match t.choose(6) {
        0 => MAINNET_MAGIC,
        1 => 1,
        2 => 2,
        3 => 0,
        _ => t.u32_class(),
    }
}

/// a typed address of any kind with the reading it must have; Err = a constructor panicked
fn gen_typed(t: &mut Tape, pt: &mut Tape) -> Result<(Address, Reading), Failure> {
    let kind = t.choose(5);
    if kind < 4 {
        let r = gen_shelley_reading(t, pt, kind);
        let old = t.bool();
        match catch(|| build_shelley(&r, old)) {
            Ok(a) => Ok((a, r)),
            Err(p) => Err(Failure::new(format!("typed/constructor-panic/{}", p.cause()), format!("building {:?} panicked: {}", r, p.msg))),
        }
    } else {
        let xpub = pt.bytes(64);
        let magic = gen_magic(t);
        let a = match catch(|| ByronAddress::icarus_from_key(&Bip32PublicKey::from_bytes(&xpub).expect("64 bytes"), magic).to_address()) {
            Ok(a) => a,
            Err(p) => return Err(Failure::new(format!("typed/constructor-panic/{}", p.cause()), format!("icarus_from_key({}, {}) panicked: {}", hx(&xpub), magic, p.msg))),
        };
        let bytes = match catch(|| a.to_bytes()) {
            Ok(b) => b,
            Err(p) => return Err(Failure::new(format!("typed/to-bytes-panic/{}", p.cause()), format!("icarus_from_key({}, {}).to_bytes() panicked: {}", hx(&xpub), magic, p.msg))),
        };
        match classify(&bytes) {
            Class::Canonical(r @ Reading::Byron { .. }) => {
                let want_magic = if magic == MAINNET_MAGIC { None } else { Some(magic) };
                match &r {
                    Reading::Byron { derivation: None, magic: m, typ: 0, .. } if *m == want_magic => Ok((a, r)),
                    _ => Err(Failure::new("typed/icarus-wrong-content", format!("icarus_from_key(.., {}) encodes as {} = {:?}", magic, hx(&bytes), r))),
                }
            }
            other => Err(Failure::new("typed/icarus-encoding-not-canonical", format!("icarus_from_key(.., {}) encodes as {} which the reference reads as {}", magic, hx(&bytes), other.label()))),
        }
    }
}

fn typed_case(ctx: &mut Ctx, tape: &[u8]) -> CaseResult {
    let (mut t, mut pt) = split_tape(tape, 40);
    let (a, r) = gen_typed(&mut t, &mut pt)?;
    let kind = r.kind();
    ctx.label(&format!("typed:kind:{}", kind));
    let bytes = match catch(|| a.to_bytes()) {
        Ok(b) => b,
        Err(p) => fail!(format!("typed/to-bytes-panic/{}", p.cause()), "{:?}.to_bytes() panicked: {}", r, p.msg),
    };
    let expected = encode_reading(&r);
    ensure!(bytes == expected, format!("typed/to-bytes-wrong/{}", kind), "{:?} encodes as {} but header and payload must be {}", r, hx(&bytes), hx(&expected));
    match &r {
        Reading::Base { net, pay, stake } => {
            ctx.label(&format!("typed:net:{}", net));
            ctx.label(&format!("typed:creds:{}{}", if pay.script { "script" } else { "key" }, if stake.script { "+script" } else { "+key" }));
        }
        Reading::Enterprise { net, pay } | Reading::Reward { net, cred: pay } | Reading::Pointer { net, pay, .. } => {
            ctx.label(&format!("typed:net:{}", net));
            ctx.label(&format!("typed:creds:{}", if pay.script { "script" } else { "key" }));
        }
        Reading::Byron { magic, .. } => ctx.label(&format!("typed:byron-magic:{}", match magic {
            None => "mainnet(absent)",
            Some(0) => "0",
            Some(1) => "preprod",
            Some(2) => "preview",
            Some(m) if *m < 24 => "3..23",
            Some(m) if *m < 256 => "1-byte",
            Some(m) if *m < 65536 => "2-byte",
            Some(_) => "4-byte",
        })),
    }
    // getters of the constructed value
    match catch(|| compare_reading(&a, &r)) {
        Ok(Ok(())) => {}
        Ok(Err((field, d))) => fail!(format!("typed/wrong-{}/{}", field, kind), "{:?}: {}", r, d),
        Err(p) => fail!(format!("typed/getter-panic/{}", p.cause()), "{:?}: {}", r, p.msg),
    }
    // value -> bytes / hex / bech32 / base58 -> value
    let rt = catch(|| -> CaseResult {
        let a2 = Address::from_bytes(bytes.clone());
        ensure!(a2.as_ref().ok() == Some(&a), format!("typed/from-bytes-differs/{}", kind), "{:?}: from_bytes(to_bytes()) = {:?}", r, a2.map(|x| hx(&x.to_bytes())).map_err(|e| format!("{}", e)));
        let h = a.to_hex();
        ensure!(h == hx(&bytes), format!("typed/to-hex-differs/{}", kind), "{:?}: to_hex() = {}", r, h);
        for text in [h.clone(), h.to_uppercase()] {
            let a3 = Address::from_hex(&text);
            ensure!(a3.as_ref().ok() == Some(&a), format!("typed/from-hex-differs/{}", kind), "{:?}: from_hex({}) = {:?}", r, text, a3.map(|x| x.to_hex()).map_err(|e| format!("{:?}", e)));
        }
        let unknown_byron_net = matches!(&r, Reading::Byron { magic: Some(m), .. } if *m != MAINNET_MAGIC && *m != 1 && *m != 2);
        match a.to_bech32(None) {
            Ok(s) => {
                let a4 = Address::from_bech32(&s);
                ensure!(a4.as_ref().ok() == Some(&a), format!("typed/bech32-round-trip-differs/{}", kind), "{:?}: from_bech32({}) = {:?}", r, s, a4.map(|x| x.to_hex()).map_err(|e| format!("{:?}", e)));
                ensure!(s == bech32_encode(s.rsplit_once('1').map(|x| x.0).unwrap_or(""), &bytes), format!("typed/bech32-payload-differs/{}", kind), "{:?}: to_bech32(None) = {} does not carry the address bytes", r, s);
            }
            Err(e) => {
                if unknown_byron_net {
                    ctx.label("obs:byron-unknown-magic:to_bech32(None)-is-Err");
                } else {
                    fail!(format!("typed/to-bech32-fails/{}", kind), "{:?}: to_bech32(None) = Err({:?})", r, e)
                }
            }
        }
        if let Some(ba) = ByronAddress::from_address(&a) {
            ensure!(ba.to_bytes() == bytes && ba.to_address() == a, "typed/byron-wrapper-differs", "ByronAddress wrapper of {} disagrees with the address", hx(&bytes));
            let s58 = ba.to_base58();
            let back = ByronAddress::from_base58(&s58);
            ensure!(back.as_ref().ok() == Some(&ba), "typed/base58-round-trip-differs", "{}: from_base58({}) = {:?}", hx(&bytes), s58, back.map(|x| hx(&x.to_bytes())).map_err(|e| format!("{:?}", e)));
            ensure!(ByronAddress::is_valid(&s58), "typed/base58-is-valid-false", "is_valid({}) = false for the library's own encoding", s58);
            ensure!(s58 == base58_encode(&bytes), "typed/base58-payload-differs", "to_base58() = {} is not the Base58 form of {}", s58, hx(&bytes));
            let bb = ByronAddress::from_bytes(bytes.clone());
            ensure!(bb.as_ref().ok() == Some(&ba), "typed/byron-from-bytes-differs", "ByronAddress::from_bytes({}) = {:?}", hx(&bytes), bb.map(|x| hx(&x.to_bytes())).map_err(|e| format!("{:?}", e)));
        }
        Ok(())
    });
    match rt {
        Ok(r) => r?,
        Err(p) => fail!(format!("typed/round-trip-panic/{}", p.cause()), "{:?} ({}): {} at {}:{}", r, hx(&bytes), p.msg, p.file, p.line),
    }
    // the typed route through a container
    let out = catch(|| {
        let o = TransactionOutput::new(&a, &Value::new(&BigNum::from(1_000_000u64)));
        let ob = o.to_bytes();
        (extract_addr("output-legacy", &ob), TransactionOutput::from_bytes(ob).map(|o2| o2.address() == a).map_err(|e| format!("{}", e)))
    });
    match out {
        Ok((w, dec)) => {
            ensure!(w.as_deref() == Some(&bytes[..]), format!("typed/output-carries-other-bytes/{}", kind), "TransactionOutput::new({}) carries {:?}", hx(&bytes), w.map(|w| hx(&w)));
            ensure!(dec == Ok(true), format!("typed/output-round-trip-differs/{}", kind), "TransactionOutput with address {}: {:?}", hx(&bytes), dec);
        }
        Err(p) => fail!(format!("typed/output-panic/{}", p.cause()), "{}", p.msg),
    }
    check_bytes(ctx, &bytes, "typed")
}

// ---------------------------------------------------------------------------------------------
// (c) pointer addresses over width classes and encodings

/// pointer field values: CBOR width classes, base-128 group boundaries 2^(7k)-1 / 2^(7k), and values
/// of a chosen group count
fn gen_ptr_value(t: &mut Tape) -> u64 {
    match t.choose(3) {
        0 => t.u64_class(),
        1 => {
            let k = 1 + t.choose(9) as u32;
            if t.bool() {
                (1u64 << (7 * k)) - 1
            } else {
                1u64 << (7 * k)
            }
        }
        _ => {
            let g = 1 + t.choose(10) as u32;
            let lo = if g == 1 { 0 } else { 1u64 << (7 * (g - 1)) };
            let hi = if g == 10 { u64::MAX } else { (1u64 << (7 * g)) - 1 };
            t.range_u64(lo, hi)
        }
    }
}

fn pointer_case(ctx: &mut Ctx, tape: &[u8]) -> CaseResult {
    let (mut t, mut pt) = split_tape(tape, 56);
    // the cheap structural choices first, so that short tapes still vary them
    let tail = t.choose(8);
    let encs = [t.choose(12), t.choose(12), t.choose(12)];
    let net = gen_net(&mut t);
    let pay = gen_cred(&mut t, &mut pt);
    let mut b = vec![0x40 | ((pay.script as u8) << 4) | net];
    b.extend_from_slice(&pay.hash);
    let mut vals = [0u64; 3];
    let mut shape = "canonical";
    for (i, v) in vals.iter_mut().enumerate() {
        *v = gen_ptr_value(&mut t);
        ctx.label(&format!("ptr:groups:{}", varint(*v, 0).len()));
        match encs[i] {
            0..=8 => b.extend(varint(*v, 0)),
            9 => {
                let pad = match t.choose(4) {
                    0 => 1,
                    1 => 2,
                    2 => 10,
                    _ => 1 + t.choose(20),
                };
                b.extend(varint(*v, pad));
                shape = "padded";
            }
            10 => {
                // continuation bit left on the last group
                let mut e = varint(*v, 0);
                let l = e.len();
                e[l - 1] |= 0x80;
                b.extend(e);
                shape = "unterminated";
            }
            _ => {
                // a natural of 65..77 bits
                let mut e = varint(*v | (1 << 63), 0);
                if t.bool() {
                    e[0] = 0x82 | (t.byte() & 0x7E);
                } else {
                    e.insert(0, 0x81 + t.choose(0x7F) as u8);
                }
                b.extend(e);
                shape = "overflow";
            }
        }
    }
    match tail {
        0..=5 => {}
        6 => {
            let n = 1 + t.choose(3);
            b.extend(pt.bytes(n));
            if shape == "canonical" {
                shape = "trailing";
            }
        }
        _ => {
            let n = 1 + t.choose(3);
            b.truncate(b.len() - n);
            if shape == "canonical" {
                shape = "truncated";
            }
        }
    }
    ctx.label(&format!("ptr:shape:{}", shape));
    if shape == "canonical" {
        let r = Reading::Pointer { net, pay: pay.clone(), slot: vals[0], tx: vals[1], cert: vals[2] };
        assert_eq!(classify(&b), Class::Canonical(r.clone()), "engine: canonical pointer bytes are not read back by the reference");
        // typed direction: the library's encoder must produce exactly these bytes
        match catch(|| build_shelley(&r, false).to_bytes()) {
            Ok(lb) => ensure!(lb == b, "typed/to-bytes-wrong/Pointer", "{:?} encodes as {} but must be {}", r, hx(&lb), hx(&b)),
            Err(p) => fail!(format!("typed/to-bytes-panic/{}", p.cause()), "{:?}: {}", r, p.msg),
        }
        if vals.iter().any(|v| *v > u32::MAX as u64) {
            ctx.label("ptr:field-above-u32");
        }
    }
    check_bytes(ctx, &b, "pointer")
}

// ---------------------------------------------------------------------------------------------
// (d) hand-assembled Byron addresses

fn wider(t: &mut Tape, arg: u64) -> u8 {
    let min = cbor::min_width(arg);
    let options: Vec<u8> = [1u8, 2, 4, 8].iter().copied().filter(|w| *w > min).collect();
    if options.is_empty() {
        8
    } else {
        options[t.choose(options.len())]
    }
}

fn chunked(d: &[u8], t: &mut Tape) -> cbor::Node {
    let cut = if d.is_empty() { 0 } else { t.choose(d.len() + 1) };
    let chunks = if t.bool() { vec![(cut, 0u8), (d.len() - cut, 0u8)] } else { vec![(d.len(), 0u8)] };
    cbor::Node { kind: cbor::Kind::Bytes { data: d.to_vec(), chunks: Some(chunks) }, start: 0, end: 0, width: 0 }
}

const BYRON_MUTATIONS: [&str; 30] = [
    "none", "none", "none", "none", "none", "none", "none", "none",
    "crc-wrong", "crc-above-u32", "trailing", "truncated", "array-len-1", "array-len-3", "array-indefinite", "tag-other", "tag-missing",
    "root-length", "type-above-2", "inner-arity", "inner-trailing", "inner-indefinite", "magic-trailing", "magic-above-u32", "magic-not-uint",
    "attr-unknown-key", "attr-order-swapped", "attr-map-indefinite", "wide-head", "chunked-bytes",
];

fn byron_case(ctx: &mut Ctx, tape: &[u8]) -> CaseResult {
    let (mut t, mut pt) = split_tape(tape, 48);
    let mutation = BYRON_MUTATIONS[t.choose(BYRON_MUTATIONS.len())];
    let mut root = pt.bytes(28);
    let attrs_kind = ["none", "derivation", "magic", "both"][t.choose(4)];
    let derivation: Option<Vec<u8>> = if attrs_kind == "derivation" || attrs_kind == "both" {
        let n = match t.choose(6) {
            0 => 0,
            1 => 23,
            2 => 24,
            3 => 80,
            _ => t.choose(81),
        };
        Some(pt.bytes(n))
    } else {
        None
    };
    let magic: Option<u32> = if attrs_kind == "magic" || attrs_kind == "both" { Some(gen_magic(&mut t)) } else { None };
    let typ = t.choose(3) as u8;
    ctx.label(&format!("byron:attrs:{}", attrs_kind));
    ctx.label(&format!("byron:type:{}", typ));
    ctx.label(&format!("byron:mutation:{}", mutation));
    if let Some(m) = magic {
        ctx.label(&format!("byron:magic-width:{}", cbor::min_width(m as u64)));
    }
    if let Some(d) = &derivation {
        ctx.label(&format!("byron:derivation-len:{}", match d.len() {
            0 => "0",
            1..=23 => "1..23",
            24..=79 => "24..79",
            _ => "80",
        }));
    }

    let mut entries = byron_attr_entries(&derivation, &magic);
    let mut typ_node = cbor::uint(typ as u64);
    let mut attrs_indef = false;
    match mutation {
        "root-length" => {
            let n = [0usize, 27, 29, 32][t.choose(4)];
            root = pt.bytes(n);
        }
        "type-above-2" => typ_node = cbor::uint(3 + t.u64_class() / 2),
        "magic-trailing" => {
            let mut m = cbor::encode(&cbor::uint(magic.unwrap_or(7) as u64));
            m.push(t.byte());
            entries.retain(|(k, _)| k.as_u64() != Some(2));
            entries.push((cbor::uint(2), cbor::bytes(&m)));
        }
        "magic-above-u32" => {
            entries.retain(|(k, _)| k.as_u64() != Some(2));
            entries.push((cbor::uint(2), cbor::bytes(&cbor::encode(&cbor::uint((1u64 << 32) + t.u64_class() / 2)))));
        }
        "magic-not-uint" => {
            entries.retain(|(k, _)| k.as_u64() != Some(2));
            let v = match t.choose(3) {
                0 => cbor::nint(0),
                1 => cbor::text("1"),
                _ => cbor::bytes(&[1]),
            };
            entries.push((cbor::uint(2), cbor::bytes(&cbor::encode(&v))));
        }
        "attr-unknown-key" => {
            let k = 3 + t.choose(40) as u64;
            let v = if t.bool() { cbor::bytes(&t.bytes(3)) } else { cbor::uint(5) };
            entries.push((cbor::uint(k), v));
        }
        "attr-order-swapped" => {
            if entries.len() < 2 {
                entries = byron_attr_entries(&Some(vec![1, 2, 3]), &Some(magic.unwrap_or(42)));
            }
            entries.reverse();
        }
        "attr-map-indefinite" => attrs_indef = true,
        _ => {}
    }
    let attrs_node = cbor::Node { kind: cbor::Kind::Map { entries, indef: attrs_indef }, start: 0, end: 0, width: 0 };
    let mut inner_items = vec![cbor::bytes(&root), attrs_node, typ_node];
    match mutation {
        "inner-arity" => {
            if t.bool() {
                inner_items.pop();
            } else {
                inner_items.push(cbor::uint(0));
            }
        }
        "wide-head" => {
            let which = t.choose(3);
            if which == 0 {
                let w = wider(&mut t, 28);
                inner_items[0].width = w;
            } else if which == 1 {
                let w = wider(&mut t, typ as u64);
                inner_items[2].width = w;
            }
        }
        _ => {}
    }
    let inner_node = if mutation == "inner-indefinite" { cbor::array_indef(inner_items) } else { cbor::array(inner_items) };
    let mut inner = cbor::encode(&inner_node);
    if mutation == "inner-trailing" {
        let n = 1 + t.choose(3);
        inner.extend(t.bytes(n));
    }
    let good_crc = crc32(&inner) as u64;
    let crc = match mutation {
        "crc-wrong" => match t.choose(3) {
            0 => good_crc ^ 1,
            1 => good_crc ^ 0x8000_0000,
            _ => (good_crc + 1 + t.u64_class() % 0xFFFF_FFFE) & 0xFFFF_FFFF,
        },
        "crc-above-u32" => good_crc | (1 << 32),
        _ => good_crc,
    };
    let bytes_node = if mutation == "chunked-bytes" { chunked(&inner, &mut t) } else { cbor::bytes(&inner) };
    let mut first = match mutation {
        "tag-other" => cbor::tag([0u64, 23, 25, 30, 258][t.choose(5)], bytes_node),
        "tag-missing" => bytes_node,
        _ => cbor::tag(24, bytes_node),
    };
    let mut crc_node = cbor::uint(crc);
    if mutation == "wide-head" {
        match t.choose(3) {
            0 => first.width = wider(&mut t, 24),
            1 => crc_node.width = wider(&mut t, crc),
            _ => {
                if let cbor::Kind::Tag(_, inner_b) = &mut first.kind {
                    inner_b.width = wider(&mut t, inner.len() as u64);
                }
            }
        }
    }
    let outer = match mutation {
        "array-len-1" => cbor::array(vec![first]),
        "array-len-3" => cbor::array(vec![first, crc_node, cbor::uint(0)]),
        "array-indefinite" => cbor::array_indef(vec![first, crc_node]),
        _ => cbor::array(vec![first, crc_node]),
    };
    let mut b = cbor::encode(&outer);
    match mutation {
        "trailing" => {
            let n = 1 + t.choose(3);
            b.extend(t.bytes(n));
        }
        "truncated" => {
            let n = 1 + t.choose(b.len() - 1);
            b.truncate(b.len() - n);
        }
        _ => {}
    }
    if mutation == "none" {
        let mut r28 = [0u8; 28];
        r28.copy_from_slice(&root);
        let r = Reading::Byron { root: r28, derivation: derivation.clone(), magic, typ };
        assert_eq!(classify(&b), Class::Canonical(r.clone()), "engine: canonical Byron bytes are not read back by the reference");
        assert_eq!(encode_reading(&r), b, "engine: the two Byron assemblers disagree");
    }
    // "array-indefinite" starts with 0x9f, which is not a Byron header for `Address`: the Byron-only
    // parsers still see it through check_standalone
    check_bytes(ctx, &b, "byron")
}

// ---------------------------------------------------------------------------------------------
// (e) Bech32 with arbitrary human-readable parts

fn gen_hrp(t: &mut Tape) -> (String, &'static str, bool) {
    let len = match t.choose(8) {
        0 => 1,
        1 => 83,
        2 => 2 + t.choose(9),
        3 => 11 + t.choose(72),
        _ => 1 + t.choose(12),
    };
    let style = t.choose(10);
    let mut s = String::new();
    let pick = |t: &mut Tape, set: &[u8]| set[t.choose(set.len())] as char;
    const LOWER: &[u8] = b"abcdefghijklmnopqrstuvwxyz";
    const UPPER: &[u8] = b"ABCDEFGHIJKLMNOPQRSTUVWXYZ";
    const OTHER: &[u8] = b"0123456789!\"#$%&'()*+,-./:;<=>?@[\\]^_`{|}~";
    match style {
        0..=2 => {
            for _ in 0..len {
                s.push(pick(t, LOWER));
            }
            (s, "lower", true)
        }
        3 => {
            for _ in 0..len {
                s.push(pick(t, UPPER));
            }
            (s, "upper", true)
        }
        4 => {
            for _ in 0..len {
                s.push(pick(t, OTHER));
            }
            (s, "digits-symbols", true)
        }
        5 => {
            for _ in 0..len {
                s.push(if t.bool() { pick(t, LOWER) } else { pick(t, OTHER) });
            }
            (s, "lower+symbols", true)
        }
        6 => {
            // the separator character inside the prefix
            for i in 0..len {
                s.push(if i % 2 == 0 { '1' } else { pick(t, LOWER) });
            }
            (s, "contains-1", true)
        }
        7 => {
            for i in 0..len.max(2) {
                s.push(if i % 2 == 0 { pick(t, LOWER) } else { pick(t, UPPER) });
            }
            (s, "invalid:mixed-case", false)
        }
        8 => {
            let n = [0usize, 84, 85, 200][t.choose(4)];
            for _ in 0..n {
                s.push(pick(t, LOWER));
            }
            (s, "invalid:length", false)
        }
        _ => {
            for _ in 0..len {
                s.push(pick(t, LOWER));
            }
            s.push([' ', '\u{7f}', '\u{e9}', '\n', '\0'][t.choose(5)]);
            (s, "invalid:character", false)
        }
    }
}

fn bech32_case(ctx: &mut Ctx, tape: &[u8]) -> CaseResult {
    let (mut t, mut pt) = split_tape(tape, 120);
    let (a, r) = gen_typed(&mut t, &mut pt)?;
    let (hrp, style, valid) = gen_hrp(&mut t);
    ctx.label(&format!("bech32:hrp:{}", style));
    ctx.label(&format!("bech32:kind:{}", r.kind()));
    if valid {
        ctx.label(&format!("bech32:hrp-len:{}", match hrp.len() {
            1 => "1",
            2..=10 => "2..10",
            11..=82 => "11..82",
            _ => "83",
        }));
    }
    let bytes = encode_reading(&r);
    let enc = match catch(|| a.to_bech32(Some(hrp.clone()))) {
        Ok(e) => e,
        Err(p) => fail!(format!("bech32/to-bech32-panic/{}", p.cause()), "to_bech32(Some({:?})) of {} panicked: {}", hrp, hx(&bytes), p.msg),
    };
    if !valid {
        // nothing is promised for prefixes Bech32 does not allow, except that nothing blows up
        if let Ok(s) = &enc {
            if let Err(p) = catch(|| Address::from_bech32(s)) {
                fail!(format!("bech32/from-bech32-panic/{}", p.cause()), "from_bech32({:?}) panicked: {}", s, p.msg)
            }
            ctx.label("bech32:invalid-hrp-accepted");
        }
        return Ok(());
    }
    let s = match enc {
        Ok(s) => s,
        Err(e) => fail!("bech32/valid-hrp-rejected", "to_bech32(Some({:?})) of {} = Err({:?})", hrp, hx(&bytes), e),
    };
    let want = bech32_encode(&hrp.to_lowercase(), &bytes);
    ensure!(s == want, "bech32/string-differs", "to_bech32(Some({:?})) of {} = {} but Bech32 of these bytes is {}", hrp, hx(&bytes), s, want);
    match catch(|| Address::from_bech32(&s)) {
        Ok(Ok(a2)) => ensure!(a2 == a, format!("bech32/round-trip-differs/{}", r.kind()), "from_bech32({}) = {} but the address is {}", s, hx(&a2.to_bytes()), hx(&bytes)),
        Ok(Err(e)) => fail!(format!("bech32/own-string-rejected/{}", r.kind()), "from_bech32({}) = Err({:?}) for the library's own encoding of {}", s, e, hx(&bytes)),
        Err(p) => fail!(format!("bech32/from-bech32-panic/{}", p.cause()), "from_bech32({:?}) panicked: {}", s, p.msg),
    }
    // variants of the string: upper case (legal Bech32), a damaged character, a cut
    let variant = t.choose(4);
    let v: String = match variant {
        0 => s.to_uppercase(),
        1 => {
            let sep = s.rfind('1').unwrap_or(0);
            let pos = sep + 1 + t.choose(s.len() - sep - 1);
            let mut cs: Vec<char> = s.chars().collect();
            let old = cs[pos];
            let mut new = B32[t.choose(32)] as char;
            if new == old {
                new = if old == 'q' { 'p' } else { 'q' };
            }
            cs[pos] = new;
            cs.into_iter().collect()
        }
        2 => s[..s.len() - 1 - t.choose(6)].to_string(),
        _ => {
            // mixed case is not legal Bech32: raise the last lower-case letter only
            let mut cs: Vec<char> = s.chars().collect();
            let letters: Vec<usize> = cs.iter().enumerate().filter(|(_, c)| c.is_ascii_lowercase()).map(|(i, _)| i).collect();
            if letters.len() >= 2 {
                let i = letters[letters.len() - 1];
                cs[i] = cs[i].to_ascii_uppercase();
            }
            cs.into_iter().collect()
        }
    };
    ctx.label(&format!("bech32:variant:{}", ["upper", "damaged", "cut", "mixed-case"][variant]));
    match catch(|| Address::from_bech32(&v)) {
        Ok(Ok(a3)) => {
            // whatever is accepted must decode to the address that was encoded: anything else is a silent change
            ensure!(a3 == a, format!("bech32/variant-decodes-to-other-address/{}", ["upper", "damaged", "cut", "mixed-case"][variant]), "from_bech32({}) = {} but the string was made from {}", v, hx(&a3.to_bytes()), hx(&bytes));
            ctx.label(&format!("bech32:variant-accepted:{}", ["upper", "damaged", "cut", "mixed-case"][variant]));
        }
        Ok(Err(_)) => {}
        Err(p) => fail!(format!("bech32/from-bech32-panic/{}", p.cause()), "from_bech32({:?}) panicked: {}", v, p.msg),
    }
    ctx.nontrivial(fp_mix(fp64(&bytes), fp64(hrp.as_bytes())));
    ctx.sample(&format!("bech32:{}", style), || format!("{} with prefix {:?} -> {}", hx(&bytes), hrp, s));
    Ok(())
}

#[cfg(test)]
mod tests {
    use super::*;
    #[test]
    fn crc32_vector() {
        assert_eq!(crc32(b"123456789"), 0xCBF4_3926);
        assert_eq!(crc32(b""), 0);
    }
    #[test]
    fn bech32_vectors() {
        assert_eq!(bech32_encode("a", &[]), "a12uel5l");
        // BIP-173 segwit vector: witness version 0 is a 5-bit value, so compare a pure 8-bit one instead
        assert_eq!(bech32_encode("abcdef", &[0x00, 0x44, 0x32, 0x14, 0xc7, 0x42, 0x54, 0xb6, 0x35, 0xcf, 0x84, 0x65, 0x3a, 0x56, 0xd7, 0xc6, 0x75, 0xbe, 0x77, 0xdf]), "abcdef1qpzry9x8gf2tvdw0s3jn54khce6mua7lmqqqxw");
    }
    #[test]
    fn base58_vectors() {
        assert_eq!(base58_encode(b"Hello World..."), "TcgsE5dzphUWfjcb9i5");
        assert_eq!(base58_encode(b"\0\0abc"), "11ZiCa");
        assert_eq!(base58_encode(b"abcdefghijklmnopqrstuvwxyz"), "3yxU3u1igY8WkgtjK92fbJQCd4BZiiT1v25f");
        assert_eq!(base58_encode(b"\0\0\0\0"), "1111");
    }
    #[test]
    fn varints() {
        for v in [0u64, 1, 127, 128, 16383, 16384, u32::MAX as u64, u64::MAX] {
            for pad in [0usize, 1, 12] {
                let e = varint(v, pad);
                match read_varint(&e) {
                    VarRes::Ok { value, used, minimal } => {
                        assert_eq!((value, used, minimal), (v, e.len(), pad == 0));
                    }
                    _ => panic!("varint {}", v),
                }
            }
        }
        assert!(matches!(read_varint(&[0x80, 0x80]), VarRes::Unterminated));
        assert!(matches!(read_varint(&[]), VarRes::Missing));
        assert!(matches!(read_varint(&[0x82, 0x80, 0x80, 0x80, 0x80, 0x80, 0x80, 0x80, 0x80, 0x00]), VarRes::Overflow));
        assert_eq!(varint(u64::MAX, 0).len(), 10);
    }
    #[test]
    fn mainnet_byron_vector_is_canonical() {
        // Ae2tdPwUPEZ... style address from the library's tests, through the engine's own reader only
        let r = Reading::Byron { root: [7; 28], derivation: Some(vec![1, 2, 3]), magic: Some(42), typ: 0 };
        let b = encode_reading(&r);
        assert_eq!(b[0], 0x82);
        assert_eq!(classify(&b), Class::Canonical(r));
    }
}
