//! C09 — scenario-based check, see props/builder.rs and DESIGN.md §5.
use crate::cbor;
use crate::gen::{self, Gen};
use crate::ledger::language_views;
use crate::runner::*;
use crate::tape::*;
use cardano_serialization_lib as csl;
use csl::*;
use std::collections::{BTreeMap, BTreeSet};

pub fn property() -> Property {
    Property {
        id: "C09",
        rule: "builder scenarios with emphasis on Plutus spends / mints / certificates / withdrawals / votes / proposals, datums by value / reference / inline, extra datums, cost models for V1-V3 in varying insertion order; calc_script_data_hash is issued after the last script operation. Oracle: body key 11 equals blake2b256(redeemer bytes | datum bytes | language views of the languages in use) recomputed from the emitted witness set, body key 7 equals blake2b256 of the attached auxiliary-data bytes. Non-trivial = >= 2 redeemers, or >= 1 datum with >= 1 redeemer, or the no-redeemer form; distinct by built bytes",
        assumptions: vec!["scenarios: tape-decoded protocol parameters, keyring of 6 keys + 2 Byron roots, pools of 5 native and 5 Plutus scripts and 4 datums, each also decoded from a second, non-canonical encoding (overlaps between sources are common; the Redeemer objects handed to the builder carry placeholder tags and indices; a reference input may be registered twice, plainly and with its script size), a UTxO universe the scenario owns, and a sequence of builder operations (inputs by every public route, outputs, certificates of 17 shapes with key / native / Plutus credentials, withdrawals, mint and burn, votes, proposals, required signers, reference inputs, extra datums, auxiliary data, ttl, donation, collateral and its helper routes, fee requests, calc_script_data_hash, one of 7 balancing routes incl. the 4 coin-selection strategies), then build_tx / build / build_tx_unsafe".into(), "operations the library rejects with Err are recorded and skipped: the properties are conditional on success".into(), "UTxO values, owners and reference scripts come from the scenario's own map; sums, sizes, deposits, fees and hashes are recomputed from the emitted bytes by the engine (cbor.rs, ledger.rs), never asked from the library".into(), "a UTxO that carries a reference script is only spent through the add_regular_utxo route (the other input adders have no parameter to declare its script size)".into(), "stand-alone helpers (sub-check helpers): hash_script_data for 0-3 generated redeemers, no datums or 1-3 datums, and cost models for any subset of V1-V3 (0-166 values each, negative and 64-bit values included) is compared with blake2b256(redeemer bytes | datum bytes | language views) where the redeemer and datum bytes are cut out of a witness set holding the same values (engine's CBOR reader), the language views come from ledger.rs, and the documented no-redeemer form A0 | datums | A0 applies when there are no redeemers; hash_auxiliary_data / hash_plutus_data are compared with blake2b256 of the bytes cut out of a serialized transaction / witness set. An empty datum list is outside the generated domain (the witness set omits it)".into(), "language views are re-implemented in ledger.rs (V1: key 41 00, value = byte string wrapping an indefinite list; V2/V3: uint key, definite list; canonical key order)".into()],
        subchecks: vec![SubCheck { name: "scenario", kind: Kind::Tape { quick: 400000, thorough: 10000000, max_len: 500 }, run: super::builder::c09_case }, SubCheck { name: "helpers", kind: Kind::Tape { quick: 400_000, thorough: 12_000_000, max_len: 300 }, run: helpers }],
        crash_prone: false,
        max_reject_fraction: 0.1,
        required_label_fraction: vec![],
    }
}

fn blake(b: &[u8]) -> Vec<u8> {
    let mut out = [0u8; 32];
    cryptoxide::blake2b::Blake2b::blake2b(&mut out, b, &[]);
    out.to_vec()
}

fn bn(v: u64) -> BigNum {
    BigNum::from(v)
}

/// the stand-alone hashing helpers against the definitions, for arbitrary redeemers, datums and cost models
fn helpers(ctx: &mut Ctx, tape: &[u8]) -> CaseResult {
    let (plan, content) = split_plan(tape, 12);
    let mut t = Tape::new(plan);
    let mut g = Gen::new(content, 3, 4);
    let n_red = t.choose(4);
    let n_dat = t.choose(4); // 0 = none
    let lang_mask = t.choose(8) as u8;
    let sizes = [t.choose(6), t.choose(6), t.choose(6)];
    let value_mode = t.choose(4);
    let insertion = t.choose(3);
    // redeemers
    let mut reds = Redeemers::new();
    for i in 0..n_red {
        let tag = match g.t.choose(6) {
            0 => RedeemerTag::new_spend(),
            1 => RedeemerTag::new_mint(),
            2 => RedeemerTag::new_cert(),
            3 => RedeemerTag::new_reward(),
            4 => RedeemerTag::new_vote(),
            _ => RedeemerTag::new_voting_proposal(),
        };
        let data = gen::plutus_data(&mut g);
        let ex = ExUnits::new(&bn(g.t.u64_class()), &bn(g.t.u64_class()));
        reds.add(&Redeemer::new(&tag, &bn(i as u64 * 3 + g.t.choose(3) as u64), &data, &ex));
    }
    // datums
    let datums: Option<PlutusList> = if n_dat == 0 {
        None
    } else {
        let mut l = PlutusList::new();
        for _ in 0..n_dat {
            l.add(&gen::plutus_data(&mut g));
        }
        Some(l)
    };
    // cost models
    let mut cm = Costmdls::new();
    let mut values: BTreeMap<u8, Vec<i128>> = BTreeMap::new();
    let order: [u8; 3] = [[0, 1, 2], [2, 1, 0], [1, 2, 0]][insertion];
    for l in order {
        if lang_mask & (1 << l) == 0 {
            continue;
        }
        let n = [0usize, 1, 3, 24, 166, 40][sizes[l as usize]];
        let vals: Vec<i128> = (0..n)
            .map(|i| match value_mode {
                0 => i as i128,
                1 => (i as i128 + 1) * if i % 2 == 0 { -1 } else { 1 },
                2 => [0i128, 23, 24, 255, 256, 65535, 65536, 4294967295, 4294967296, i64::MAX as i128, -1, -24, -25, -256, -257, i64::MIN as i128][i % 16],
                _ => g.t.i128_class().clamp(-(1i128 << 64), (1i128 << 64) - 1),
            })
            .collect();
        let mut m = CostModel::new();
        let mut ok = true;
        for (i, v) in vals.iter().enumerate() {
            let iv = match Int::from_str(&v.to_string()) {
                Ok(x) => x,
                Err(_) => {
                    ok = false;
                    break;
                }
            };
            if m.set(i, &iv).is_err() {
                ok = false;
                break;
            }
        }
        if !ok {
            ctx.reject();
            return Ok(());
        }
        let lang = match l {
            0 => Language::new_plutus_v1(),
            1 => Language::new_plutus_v2(),
            _ => Language::new_plutus_v3(),
        };
        cm.insert(&lang, &m);
        values.insert(l, vals);
    }
    let langs: BTreeSet<u8> = values.keys().copied().collect();
    // the bytes "as present in the witness set"
    let mut ws = TransactionWitnessSet::new();
    if n_red > 0 {
        ws.set_redeemers(&reds);
    }
    if let Some(d) = &datums {
        ws.set_plutus_data(d);
    }
    let wbytes = ws.to_bytes();
    let wdoc = cbor::parse_document(&wbytes).map_err(|e| Failure::new("helpers/witness-set-unreadable", format!("{} {}", e, hex::encode(&wbytes))))?;
    let red_slice: Option<Vec<u8>> = wdoc.map_get(5).map(|n| n.slice(&wbytes).to_vec());
    let dat_slice: Option<Vec<u8>> = wdoc.map_get(4).map(|n| n.slice(&wbytes).to_vec());
    if (n_red > 0) != red_slice.is_some() || datums.is_some() != dat_slice.is_some() {
        // the witness set did not emit what it was given: not this sub-check's statement
        ctx.label("helpers:witness-set-omitted-a-field");
        ctx.reject();
        return Ok(());
    }
    let mut pre: Vec<u8> = Vec::new();
    if n_red == 0 && datums.is_some() {
        pre.push(0xa0);
        pre.extend(dat_slice.clone().unwrap());
        pre.push(0xa0);
    } else {
        match &red_slice {
            Some(r) => pre.extend(r.iter()),
            // no redeemers, no datums: the helper still answers; the definition's redeemer field is the empty map
            None => pre.push(0xa0),
        }
        if let Some(d) = &dat_slice {
            pre.extend(d.iter());
        }
        pre.extend(language_views(&langs, &values));
    }
    let want = blake(&pre);
    let got = match catch(|| hash_script_data(&reds, &cm, datums.clone()).to_bytes()) {
        Ok(h) => h,
        Err(p) => fail!(format!("helpers/hash_script_data-panic/{}", p.cause()), "{} at {}:{}", p.msg, p.file, p.line),
    };
    let describe = || format!("{} redeemers ({}), {} datums ({}), cost models {:?} (sizes {:?}, value mode {}, insertion {:?})", n_red, red_slice.as_ref().map(hex::encode).unwrap_or_default().chars().take(80).collect::<String>(), n_dat, dat_slice.as_ref().map(hex::encode).unwrap_or_default().chars().take(80).collect::<String>(), langs, values.iter().map(|(k, v)| (*k, v.len())).collect::<Vec<_>>(), value_mode, order);
    if n_red == 0 && datums.is_none() {
        // nothing to hash in the ledger's sense: only record what the helper does
        ctx.label("helpers:no-redeemers-no-datums(not judged)");
    } else {
        ensure!(
            got == want,
            if n_red == 0 { "helpers/hash_script_data-mismatch/no-redeemer-form".to_string() } else { format!("helpers/hash_script_data-mismatch/{}", if langs.contains(&0) { "with-v1" } else { "without-v1" }) },
            "hash_script_data = {} but the definition gives {} = blake2b256({}); {}",
            hex::encode(&got),
            hex::encode(&want),
            hex::encode(&pre).chars().take(300).collect::<String>(),
            describe()
        );
    }
    // hash_plutus_data / hash_auxiliary_data over the bytes as serialized inside a transaction
    if let (Some(d), Some(ds)) = (&datums, &dat_slice) {
        let first = d.get(0);
        let h = hash_plutus_data(&first).to_bytes();
        let set = cbor::parse_document(ds).ok();
        let item = set.as_ref().and_then(|n| match n.as_tag() {
            Some((258, inner)) => inner.as_array().and_then(|a| a.first().cloned()),
            _ => n.as_array().and_then(|a| a.first().cloned()),
        });
        if let Some(it) = item {
            let w = blake(it.slice(ds));
            ensure!(h == w, "helpers/hash_plutus_data-mismatch", "hash_plutus_data = {} but blake2b256 of the datum as serialized in the witness set ({}) = {}", hex::encode(&h), hex::encode(it.slice(ds)), hex::encode(&w));
        }
    }
    if t.chance(100) {
        let mut ga = Gen::new(content, 3, 4);
        let aux = gen::auxiliary_data(&mut ga);
        let body = TransactionBody::new_tx_body(&TransactionInputs::new(), &TransactionOutputs::new(), &bn(0));
        let tx = Transaction::new(&body, &TransactionWitnessSet::new(), Some(aux.clone()));
        let tb = tx.to_bytes();
        if let Ok(doc) = cbor::parse_document(&tb) {
            if let Some(items) = doc.as_array() {
                if let Some(a) = items.last() {
                    if !a.is_null() {
                        let w = blake(a.slice(&tb));
                        let h = hash_auxiliary_data(&aux).to_bytes();
                        ensure!(h == w, "helpers/hash_auxiliary_data-mismatch", "hash_auxiliary_data = {} but blake2b256 of the auxiliary data attached to the serialized transaction ({}) = {}", hex::encode(&h), hex::encode(a.slice(&tb)).chars().take(200).collect::<String>(), hex::encode(&w));
                        ctx.label("helpers:auxiliary-data-checked");
                    }
                }
            }
        }
    }
    ctx.label(&format!("helpers:redeemers:{}", n_red));
    ctx.label(&format!("helpers:datums:{}", n_dat));
    ctx.label(&format!("helpers:languages:{}", langs.len()));
    if n_red == 0 && datums.is_some() && !langs.is_empty() {
        ctx.label("helpers:no-redeemer-form-with-cost-models");
    }
    if (n_red >= 1 && (datums.is_some() || langs.len() >= 2)) || (n_red == 0 && datums.is_some()) {
        ctx.nontrivial(fp_mix(fp64(&pre), fp64(&got)));
        ctx.sample(&format!("helpers:{}red{}dat{}lang", n_red, n_dat.min(2), langs.len()), describe);
    }
    Ok(())
}
