//! C09 — scenario-based check, see props/builder.rs and DESIGN.md §5.
use crate::runner::*;

pub fn property() -> Property {
    Property {
        id: "C09",
        rule: "builder scenarios with emphasis on Plutus spends / mints / certificates / withdrawals / votes / proposals, datums by value / reference / inline, extra datums, cost models for V1-V3 in varying insertion order; calc_script_data_hash is issued after the last script operation. Oracle: body key 11 equals blake2b256(redeemer bytes | datum bytes | language views of the languages in use) recomputed from the emitted witness set, body key 7 equals blake2b256 of the attached auxiliary-data bytes. Non-trivial = >= 2 redeemers, or >= 1 datum with >= 1 redeemer, or the no-redeemer form; distinct by built bytes",
        assumptions: vec!["scenarios: tape-decoded protocol parameters, keyring of 6 keys + 2 Byron roots, pools of 5 native and 5 Plutus scripts and 4 datums (overlaps between sources are common), a UTxO universe the scenario owns, and a sequence of builder operations (inputs by every public route, outputs, certificates of 17 shapes with key / native / Plutus credentials, withdrawals, mint and burn, votes, proposals, required signers, reference inputs, extra datums, auxiliary data, ttl, donation, collateral and its helper routes, fee requests, calc_script_data_hash, one of 7 balancing routes incl. the 4 coin-selection strategies), then build_tx / build / build_tx_unsafe".into(), "operations the library rejects with Err are recorded and skipped: the properties are conditional on success".into(), "UTxO values, owners and reference scripts come from the scenario's own map; sums, sizes, deposits, fees and hashes are recomputed from the emitted bytes by the engine (cbor.rs, ledger.rs), never asked from the library".into(), "a UTxO that carries a reference script is only spent through the add_regular_utxo route (the other input adders have no parameter to declare its script size)".into(), "language views are re-implemented in ledger.rs (V1: key 41 00, value = byte string wrapping an indefinite list; V2/V3: uint key, definite list; canonical key order)".into()],
        subchecks: vec![SubCheck { name: "scenario", kind: Kind::Tape { quick: 400000, thorough: 10000000, max_len: 500 }, run: super::builder::c09_case }],
        crash_prone: false,
        max_reject_fraction: 0.1,
        required_label_fraction: vec![],
    }
}
