//! C18 — scenario-based check, see props/builder.rs and DESIGN.md §5.
use crate::runner::*;

pub fn property() -> Property {
    Property {
        id: "C18",
        rule: "builder scenarios with key / Byron / native / Plutus inputs, collateral, certificates, withdrawals, votes, proposals with policy scripts, mints, required signers, scripts and datums drawn from small pools (shared between sources), by value and by reference. Oracle: every script item has its script exactly once (witness set by hash, or its declared reference input in body key 18), Plutus items exactly one redeemer and their witness datum exactly once, nothing superfluous; with S = byte length of the transaction really signed by the required set: S <= full_size() < S + 101. Non-trivial = a script used twice, or a reference script, or >= 2 signers; distinct by built bytes",
        assumptions: vec!["scenarios: tape-decoded protocol parameters, keyring of 6 keys + 2 Byron roots, pools of 5 native and 5 Plutus scripts and 4 datums, each also decoded from a second, non-canonical encoding (overlaps between sources are common; the Redeemer objects handed to the builder carry placeholder tags and indices; a reference input may be registered twice, plainly and with its script size), a UTxO universe the scenario owns, and a sequence of builder operations (inputs by every public route, outputs, certificates of 17 shapes with key / native / Plutus credentials, withdrawals, mint and burn, votes, proposals, required signers, reference inputs, extra datums, auxiliary data, ttl, donation, collateral and its helper routes, fee requests, calc_script_data_hash, one of 7 balancing routes incl. the 4 coin-selection strategies), then build_tx / build / build_tx_unsafe".into(), "operations the library rejects with Err are recorded and skipped: the properties are conditional on success".into(), "UTxO values, owners and reference scripts come from the scenario's own map; sums, sizes, deposits, fees and hashes are recomputed from the emitted bytes by the engine (cbor.rs, ledger.rs), never asked from the library".into(), "a UTxO that carries a reference script is only spent through the add_regular_utxo route (the other input adders have no parameter to declare its script size)".into(), "signer conventions as in DESIGN.md C18: a Plutus source's signer hint is always accompanied by add_required_signer for the same keys; a referenced native script is always given its signer hint".into()],
        subchecks: vec![SubCheck { name: "scenario", kind: Kind::Tape { quick: 400000, thorough: 10000000, max_len: 500 }, run: super::builder::c18_case }],
        crash_prone: false,
        max_reject_fraction: 0.1,
        required_label_fraction: vec![],
    }
}
