//! C03 — emitted bytes conform to the Conway-era CDDL wire format.
use crate::cbor;
use crate::cddl;
use crate::gen::registry::{entries, Entry};
use crate::gen::*;
use crate::runner::*;
use crate::tape::*;

pub fn property() -> Property {
    Property {
        id: "C03",
        rule: "typed values of every registered type that has a schema rule, built through public (validating) constructors from a choice tape with integers kept inside the CDDL ranges where the API parameter type is wider; every transaction built by the builder scenarios (sub-check builder_tx). The emitted bytes are parsed by the engine's own CBOR reader and validated by the engine's Conway schema validator. Non-trivial = the tree has >= 8 nodes and the value has an optional field present / a non-empty collection / a non-trivial integer; distinct by hash of the emitted bytes",
        assumptions: vec![
            "the oracle is the engine's transcription of the Conway ledger CDDL (DESIGN.md Appendix A); pre-Conway forms the library still emits on purpose are accepted: body key 6, certificates 5 and 6, legacy array outputs, array-form redeemers, the Shelley / Shelley-MA auxiliary data forms".into(),
            "where the API parameter type is wider than the CDDL range and no validating constructor exists (u32 for uint .size 2, Int for int64 mint quantities / cost model entries, numerator <= denominator of unit intervals, donation 0) the generator stays inside the CDDL range".into(),
            "values are never obtained by decoding (decoded values replay their original bytes by design)".into(),
            "duplicate (tag,index) redeemers and the same policy twice in a Mint are meaningless inputs and are not generated".into(),
        ],
        subchecks: vec![
            SubCheck { name: "typed", kind: Kind::Tape { quick: 4_000_000, thorough: 30_000_000, max_len: 600 }, run: typed },
            SubCheck { name: "builder_tx", kind: Kind::Tape { quick: 300_000, thorough: 6_000_000, max_len: 500 }, run: super::builder::c03_builder_case },
            SubCheck { name: "typed_floor", kind: Kind::Enum { count: floor_count, make: floor_make, exhaustive_note: "" }, run: typed_floor },
        ],
        crash_prone: false,
        max_reject_fraction: 0.05,
        required_label_fraction: vec![],
    }
}

thread_local! {
    static RULED: Vec<Entry> = entries().into_iter().filter(|e| cddl::known_rule(e.rule)).collect();
}

pub fn check_value(ctx: &mut Ctx, name: &str, rule: &str, bytes: &[u8], interesting: bool, builder: bool, how: &str) -> CaseResult {
    let node = match cbor::parse_document(bytes) {
        Ok(n) => n,
        Err(e) => fail!(format!("conform/malformed-cbor/{}", name), "{} emits bytes that are not one well-formed CBOR item ({}): {}", name, e, hex::encode(&bytes[..bytes.len().min(300)])),
    };
    let v = cddl::validate_in(rule, &node, bytes, builder);
    if let Some(first) = v.issues.first() {
        // signature: the rule path without indices and numbers
        let cause: String = first.split(':').nth(1).unwrap_or("").trim().chars().filter(|c| !c.is_ascii_digit()).take(60).collect();
        fail!(format!("conform/{}/{}", name, cause.trim()), "{} [{}] violates the schema: {} (all: {:?}) bytes={} diag={}", name, how, first, v.issues, hex::encode(&bytes[..bytes.len().min(300)]), node.diag())
    }
    for r in &v.fired {
        ctx.label(&format!("rule:{}", r));
    }
    ctx.label(&format!("type:{}", name));
    if interesting && node.count_nodes() >= 8 {
        ctx.nontrivial(fp_mix(fp64(name.as_bytes()), fp64(bytes)));
        ctx.sample(name, || format!("{} [{}] {} bytes: {}", name, how, bytes.len(), node.diag()));
    }
    Ok(())
}

fn run_entry(ctx: &mut Ctx, e: &Entry, tape: &[u8], how: &str) -> CaseResult {
    let (d, c) = ctx.tier.pick((4, 25), (8, 40));
    let mut g = Gen::new(tape, d, c);
    g.cddl_ranges = true;
    let v = match catch(|| (e.make)(&mut g)) {
        Ok(v) => v,
        Err(p) => {
            if p.in_engine() {
                panic!("generator for {} panicked: {} at {}:{}", e.name, p.msg, p.file, p.line);
            }
            fail!(format!("conform/constructor-panic/{}", e.name), "building a {} panicked: {}", e.name, p.msg)
        }
    };
    let b = match catch(|| v.to_bytes()) {
        Ok(b) => b,
        Err(p) => fail!(format!("conform/to_bytes-panic/{}|{}", e.name, p.cause()), "{}::to_bytes panicked: {}", e.name, p.msg),
    };
    check_value(ctx, e.name, e.rule, &b, g.interesting, false, how)
}

fn typed(ctx: &mut Ctx, tape: &[u8]) -> CaseResult {
    RULED.with(|es| {
        let mut t = Tape::new(tape);
        let k = t.choose(es.len());
        run_entry(ctx, &es[k], &tape[t.consumed().min(tape.len())..], "tape")
    })
}

fn floor_count(t: Tier) -> u64 {
    RULED.with(|es| es.len() as u64) * t.pick(800, 16_000)
}
fn floor_make(_t: Tier, i: u64) -> Vec<u8> {
    let mut out = i.to_le_bytes().to_vec();
    let mut x = i.wrapping_mul(0x9E37_79B9_7F4A_7C15) ^ 0x0C03_0C03_1234_5678;
    let len = 6 + (i % 9) * 20;
    for _ in 0..len {
        x ^= x << 13;
        x ^= x >> 7;
        x ^= x << 17;
        out.push((x >> 32) as u8);
    }
    out
}
fn typed_floor(ctx: &mut Ctx, input: &[u8]) -> CaseResult {
    RULED.with(|es| {
        let i = u64::from_le_bytes(input[..8].try_into().unwrap());
        run_entry(ctx, &es[(i % es.len() as u64) as usize], &input[8..], "floor")
    })
}
