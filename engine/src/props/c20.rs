//! C20 — deposit and refund helpers agree with the ledger and with the builder.
//!
//! Oracle: the Conway deposit / refund table of DESIGN §3.3, applied in u128 to the *wire form* of every
//! certificate (read with the engine's own CBOR reader), plus the withdrawal amounts and proposal deposits
//! the generator chose. Observed: `get_deposit` / `get_implicit_input` on a body built with the public
//! setters, on the same body after a CBOR round trip (tagged sets and plain-array sets), and on the body the
//! `TransactionBuilder` emits; and
//! `TransactionBuilder::{get_deposit, get_implicit_input, get_total_input, get_total_output}` of a builder
//! fed the same certificates / withdrawals / proposals.
use crate::cbor;
use crate::gen::{self, Gen};
use crate::runner::*;
use crate::tape::*;
use cardano_serialization_lib as csl;
use csl::*;
use std::collections::BTreeSet;

const SIG_POOL_RETIREMENT: &str = "helper/implicit-input-counts-pool-retirement";
const SIG_IGNORES_PROPOSALS: &str = "helper/deposit-ignores-proposals";

pub fn property() -> Property {
    Property {
        id: "C20",
        rule: "tape-decoded bodies: certificate sequences over the 19 wire kinds (explicit and parameter-based amounts, key and script credentials), withdrawal maps, proposal lists, pool/key deposit parameters in CBOR width classes, sums steered to 2^64-1+d; plus exhaustive single-item and ordered-pair tables at boundary amounts; non-trivial = at least 2 distinct certificate kinds with a non-zero deposit/refund, or at least one proposal, or an exact deposit / implicit-input total within 2^16 of 2^64; distinct by hash of (parameters, (kind, effect) sequence, withdrawal amounts, proposal deposits)",
        assumptions: vec![
            "ledger table (DESIGN 3.3, Conway): certificate 0 -> deposit key_deposit; 7, 11, 12, 13, 16 -> deposit of the explicit coin; 3 -> deposit pool_deposit (every pool registration counted as a first registration, as the property fixes); 1 -> refund key_deposit; 8, 17 -> refund of the explicit coin; 2, 4, 5, 6, 9, 10, 14, 15, 18 -> nothing; every proposal -> its deposit; implicit input = withdrawals + refunds".into(),
            "the kind and explicit coin of a certificate are read from its emitted CBOR with the engine's own reader (cbor.rs), not from library getters; the body-level wire form is read the same way and must agree with the per-item reading".into(),
            "certificates, reward accounts and proposals inside one body are pairwise distinct (they are sets / map keys on the wire and in the builders), so 'the same items' can be fed to the body setters and to the builders".into(),
            "items with script credentials / policy hashes are given to the builders through add_with_native_script / add_with_plutus_witness; the witness has no influence on the amounts".into(),
            "a variant that cannot be produced for reasons outside this property (body serialization / parsing fails, builder.build() fails) is counted under a label and skipped, the other variants of the case are still checked".into(),
        ],
        subchecks: vec![
            SubCheck {
                name: "table",
                kind: Kind::Enum { count: table_count, make: table_make, exhaustive_note: "every single-item body: 19 certificate wire kinds + one withdrawal + one proposal, key and script credential, 14 boundary amounts (CBOR width points) x pool_deposit x key_deposit points (quick 5 x 5: 0, 1, mainnet value, 2^63, 2^64-1; thorough 15 x 15: all width points and the mainnet value)" },
                run: table_case,
            },
            SubCheck {
                name: "pairs",
                kind: Kind::Enum { count: pairs_count, make: pairs_make, exhaustive_note: "every ordered pair of the 21 item kinds (19 certificate wire kinds, withdrawal, proposal), both credential flavours, x amount pairs around 2^64 (quick: 10 pairs with sums 12 and 2^64-1 .. 2^65-2; thorough: all 49 pairs over {0, 1, 5, 2^63-1, 2^63, 2^64-2, 2^64-1} and (2^64-2, 2)), parameters tied to the amounts" },
                run: pairs_case,
            },
            SubCheck { name: "sequences", kind: Kind::Tape { quick: 1_000_000, thorough: 30_000_000, max_len: 480 }, run: sequences },
        ],
        crash_prone: false,
        max_reject_fraction: 0.02,
        required_label_fraction: vec![
            ("sequences", "seq:nontrivial", 0.5),
            ("sequences", "seq:deposit:near-2^64", 0.03),
            ("sequences", "seq:implicit:near-2^64", 0.03),
            ("sequences", "seq:deposit:overflow", 0.05),
            ("sequences", "seq:implicit:overflow", 0.05),
            ("sequences", "seq:builder-body:checked", 0.8),
            ("sequences", "seq:decoded-body:checked", 0.8),
        ],
    }
}

fn bn(v: u64) -> BigNum {
    BigNum::from(v)
}

// ---------------------------------------------------------------------------------------------
// ledger table on the wire form

const WIRE_NAMES: [&str; 19] = [
    "stake_registration",
    "stake_deregistration",
    "stake_delegation",
    "pool_registration",
    "pool_retirement",
    "genesis_key_delegation",
    "move_instantaneous_rewards",
    "reg_cert",
    "unreg_cert",
    "vote_deleg",
    "stake_vote_deleg",
    "stake_reg_deleg",
    "vote_reg_deleg",
    "stake_vote_reg_deleg",
    "auth_committee_hot",
    "resign_committee_cold",
    "reg_drep",
    "unreg_drep",
    "update_drep",
];

#[derive(Clone, Copy, PartialEq, Eq, Debug)]
enum Amt {
    KeyParam,
    PoolParam,
    Explicit(u64),
}

#[derive(Clone, Copy, PartialEq, Eq, Debug)]
enum Effect {
    Nothing,
    Deposit(Amt),
    Refund(Amt),
}

fn amt(a: Amt, pool: u64, key: u64) -> u128 {
    match a {
        Amt::KeyParam => key as u128,
        Amt::PoolParam => pool as u128,
        Amt::Explicit(v) => v as u128,
    }
}

/// (wire kind, ledger effect) of one certificate node
fn ledger_effect(n: &cbor::Node) -> Result<(u64, Effect), String> {
    let items = n.as_array().ok_or_else(|| format!("certificate is not an array: {}", n.diag()))?;
    let kind = items.get(0).and_then(|k| k.as_u64()).ok_or_else(|| format!("certificate without a kind number: {}", n.diag()))?;
    let coin_at = |i: usize| -> Result<u64, String> { items.get(i).and_then(|c| c.as_u64()).ok_or_else(|| format!("certificate kind {} has no coin at position {}: {}", kind, i, n.diag())) };
    let e = match kind {
        0 => Effect::Deposit(Amt::KeyParam),
        1 => Effect::Refund(Amt::KeyParam),
        3 => Effect::Deposit(Amt::PoolParam),
        7 => Effect::Deposit(Amt::Explicit(coin_at(2)?)),
        8 => Effect::Refund(Amt::Explicit(coin_at(2)?)),
        11 | 12 => Effect::Deposit(Amt::Explicit(coin_at(3)?)),
        13 => Effect::Deposit(Amt::Explicit(coin_at(4)?)),
        16 => Effect::Deposit(Amt::Explicit(coin_at(2)?)),
        17 => Effect::Refund(Amt::Explicit(coin_at(2)?)),
        2 | 4 | 5 | 6 | 9 | 10 | 14 | 15 | 18 => Effect::Nothing,
        k => return Err(format!("unknown certificate kind {}", k)),
    };
    Ok((kind, e))
}

#[derive(Clone, Default, PartialEq, Eq, Debug)]
struct Totals {
    dep_certs: u128,
    dep_props: u128,
    refunds: u128,
    withdrawals: u128,
    pool_retirements: u128,
    n_certs: usize,
    n_withdrawals: usize,
    n_proposals: usize,
}

impl Totals {
    fn cert(&mut self, kind: u64, e: Effect, pool: u64, key: u64) {
        self.n_certs += 1;
        if kind == 4 {
            self.pool_retirements += 1;
        }
        match e {
            Effect::Nothing => {}
            Effect::Deposit(a) => self.dep_certs += amt(a, pool, key),
            Effect::Refund(a) => self.refunds += amt(a, pool, key),
        }
    }
    fn deposit(&self) -> u128 {
        self.dep_certs + self.dep_props
    }
    fn implicit(&self) -> u128 {
        self.withdrawals + self.refunds
    }
}

/// the table applied to the emitted body bytes
fn wire_totals(bytes: &[u8], pool: u64, key: u64) -> Result<Totals, String> {
    let doc = cbor::parse_document(bytes).map_err(|e| format!("body bytes are not CBOR: {}", e))?;
    let mut t = Totals::default();
    if doc.as_map().is_none() {
        return Err("body is not a map".into());
    }
    if let Some(c) = doc.map_get(4) {
        for n in c.untag(258).as_array().ok_or("certificates (key 4) are not an array")? {
            let (k, e) = ledger_effect(n)?;
            t.cert(k, e, pool, key);
        }
    }
    if let Some(w) = doc.map_get(5) {
        for (_, v) in w.as_map().ok_or("withdrawals (key 5) are not a map")? {
            t.withdrawals += v.as_u64().ok_or("withdrawal amount is not a uint")? as u128;
            t.n_withdrawals += 1;
        }
    }
    if let Some(p) = doc.map_get(20) {
        for n in p.untag(258).as_array().ok_or("proposals (key 20) are not an array")? {
            let d = n.as_array().and_then(|a| a.get(0)).and_then(|d| d.as_u64()).ok_or("proposal without a deposit")?;
            t.dep_props += d as u128;
            t.n_proposals += 1;
        }
    }
    Ok(t)
}

/// the same body with the sets under keys 4 and 20 written as plain arrays; None when there is nothing to strip
fn strip_set_tags(bytes: &[u8]) -> Option<Vec<u8>> {
    let mut doc = cbor::parse_document(bytes).ok()?;
    let mut changed = false;
    if let cbor::Kind::Map { entries, .. } = &mut doc.kind {
        for (k, v) in entries.iter_mut() {
            if matches!(k.as_u64(), Some(4) | Some(20)) {
                let inner = match &v.kind {
                    cbor::Kind::Tag(258, inner) => Some((**inner).clone()),
                    _ => None,
                };
                if let Some(inner) = inner {
                    *v = inner;
                    changed = true;
                }
            }
        }
    }
    if changed {
        Some(cbor::encode(&doc))
    } else {
        None
    }
}

// ---------------------------------------------------------------------------------------------
// the case

#[derive(Clone)]
struct Item {
    cert: Certificate,
    wire: Vec<u8>,
    kind: u64,
    effect: Effect,
}

/// None when the certificate cannot be serialized (outside this property) or is not one of the 19 kinds
fn item_of(cert: Certificate) -> Option<Item> {
    let wire = catch(|| cert.to_bytes()).ok()?;
    let node = cbor::parse_document(&wire).ok()?;
    let (kind, effect) = ledger_effect(&node).ok()?;
    Some(Item { cert, wire, kind, effect })
}

struct Case {
    pool_dep: u64,
    key_dep: u64,
    certs: Vec<Item>,
    withdrawals: Vec<(RewardAddress, u64)>,
    proposals: Vec<(VotingProposal, u64)>,
    /// inputs / outputs / fee / unrelated fields
    base: TransactionBody,
    noise: Vec<&'static str>,
    /// call the setters / set the sub-builders also for empty collections
    set_empty: bool,
    /// feed the builder through the deprecated set_certs / set_withdrawals when they accept the items
    deprecated_setters: bool,
    /// script-credential items get a Plutus witness (else a native script)
    plutus_witness: bool,
    /// the builder is fed with a history in which earlier state is replaced: every withdrawal is first entered with
    /// another amount and then corrected (the same reward account again), every proposal is offered twice, and each
    /// sub-builder is set on the transaction builder twice (a decoy first). The figures must describe the final state.
    corrections: bool,
}

impl Case {
    fn new(pool_dep: u64, key_dep: u64) -> Case {
        Case {
            pool_dep,
            key_dep,
            certs: Vec::new(),
            withdrawals: Vec::new(),
            proposals: Vec::new(),
            base: TransactionBody::new_tx_body(&TransactionInputs::new(), &TransactionOutputs::new(), &bn(0)),
            noise: Vec::new(),
            set_empty: false,
            deprecated_setters: false,
            plutus_witness: false,
            corrections: false,
        }
    }
    fn push_cert(&mut self, c: Certificate) -> bool {
        match item_of(c) {
            Some(it) => {
                if self.certs.iter().any(|x| x.wire == it.wire) {
                    return false;
                }
                self.certs.push(it);
                true
            }
            None => false,
        }
    }
    fn push_withdrawal(&mut self, a: RewardAddress, v: u64) -> bool {
        let key = a.to_address().to_bytes();
        if self.withdrawals.iter().any(|(x, _)| x.to_address().to_bytes() == key) {
            return false;
        }
        self.withdrawals.push((a, v));
        true
    }
    fn push_proposal(&mut self, p: VotingProposal) -> bool {
        let wire = match catch(|| p.to_bytes()) {
            Ok(w) => w,
            Err(_) => return false,
        };
        // the deposit is read back from the wire form as well
        let dep = match cbor::parse_document(&wire).ok().and_then(|n| n.as_array().and_then(|a| a.get(0)).and_then(|d| d.as_u64())) {
            Some(d) => d,
            None => return false,
        };
        for (q, _) in &self.proposals {
            if catch(|| q.to_bytes()).ok().as_deref() == Some(&wire[..]) {
                return false;
            }
        }
        self.proposals.push((p, dep));
        true
    }
    fn totals(&self) -> Totals {
        let mut t = Totals::default();
        for it in &self.certs {
            t.cert(it.kind, it.effect, self.pool_dep, self.key_dep);
        }
        for (_, v) in &self.withdrawals {
            t.withdrawals += *v as u128;
            t.n_withdrawals += 1;
        }
        for (_, d) in &self.proposals {
            t.dep_props += *d as u128;
            t.n_proposals += 1;
        }
        t
    }
    fn effect_kinds(&self) -> BTreeSet<u64> {
        let mut s = BTreeSet::new();
        for it in &self.certs {
            let a = match it.effect {
                Effect::Nothing => 0,
                Effect::Deposit(a) | Effect::Refund(a) => amt(a, self.pool_dep, self.key_dep),
            };
            if a > 0 {
                s.insert(it.kind);
            }
        }
        s
    }
    fn canonical(&self) -> String {
        let certs: Vec<String> = self
            .certs
            .iter()
            .map(|it| match it.effect {
                Effect::Nothing => format!("{}", it.kind),
                Effect::Deposit(Amt::Explicit(v)) => format!("{}+{}", it.kind, v),
                Effect::Refund(Amt::Explicit(v)) => format!("{}-{}", it.kind, v),
                Effect::Deposit(_) => format!("{}+p", it.kind),
                Effect::Refund(_) => format!("{}-p", it.kind),
            })
            .collect();
        let ws: Vec<String> = self.withdrawals.iter().map(|(_, v)| v.to_string()).collect();
        let ps: Vec<String> = self.proposals.iter().map(|(_, v)| v.to_string()).collect();
        format!("pool={} key={} certs=[{}] wdr=[{}] prop=[{}]", self.pool_dep, self.key_dep, certs.join(","), ws.join(","), ps.join(","))
    }
    fn render(&self) -> String {
        let certs: Vec<String> = self
            .certs
            .iter()
            .map(|it| {
                let eff = match it.effect {
                    Effect::Nothing => "nothing".to_string(),
                    Effect::Deposit(Amt::Explicit(v)) => format!("deposit {}", v),
                    Effect::Refund(Amt::Explicit(v)) => format!("refund {}", v),
                    Effect::Deposit(Amt::KeyParam) => "deposit key_deposit".to_string(),
                    Effect::Deposit(Amt::PoolParam) => "deposit pool_deposit".to_string(),
                    Effect::Refund(Amt::KeyParam) => "refund key_deposit".to_string(),
                    Effect::Refund(Amt::PoolParam) => "refund pool_deposit".to_string(),
                };
                let hex = if it.wire.len() <= 120 { hex::encode(&it.wire) } else { format!("{}… ({} bytes)", hex::encode(&it.wire[..40]), it.wire.len()) };
                format!("{}:{} [{}] {}", it.kind, WIRE_NAMES[it.kind as usize], eff, hex)
            })
            .collect();
        let ws: Vec<String> = self.withdrawals.iter().map(|(a, v)| format!("{}={}", hex::encode(a.to_address().to_bytes()), v)).collect();
        let ps: Vec<String> = self.proposals.iter().map(|(_, v)| format!("deposit {}", v)).collect();
        format!("pool_deposit={} key_deposit={}; certificates: [{}]; withdrawals: [{}]; proposals: [{}]", self.pool_dep, self.key_dep, certs.join(" | "), ws.join(", "), ps.join(", "))
    }
}

// ---------------------------------------------------------------------------------------------
// observations

#[derive(Clone, Debug)]
enum Got {
    Num(u64),
    Error(String),
    Panic(String),
    /// coin plus a non-empty asset bundle
    Assets(u64),
}

impl Got {
    fn show(&self) -> String {
        match self {
            Got::Num(v) => v.to_string(),
            Got::Error(e) => format!("Err({})", e),
            Got::Panic(m) => format!("panic({})", m),
            Got::Assets(v) => format!("{} + a non-empty asset bundle", v),
        }
    }
}

fn got_coin(r: Result<Result<BigNum, JsError>, PanicInfo>) -> Got {
    match r {
        Ok(Ok(v)) => Got::Num(v.into()),
        Ok(Err(e)) => Got::Error(format!("{:?}", e)),
        Err(p) => Got::Panic(format!("{}:{} {}", p.file, p.line, p.msg)),
    }
}

fn got_value(r: Result<Result<Value, JsError>, PanicInfo>) -> Got {
    match r {
        Ok(Ok(v)) => {
            let c: u64 = v.coin().into();
            match v.multiasset() {
                Some(ma) if ma.len() > 0 => Got::Assets(c),
                _ => Got::Num(c),
            }
        }
        Ok(Err(e)) => Got::Error(format!("{:?}", e)),
        Err(p) => Got::Panic(format!("{}:{} {}", p.file, p.line, p.msg)),
    }
}

fn show_total(t: u128) -> String {
    if t > u64::MAX as u128 {
        format!("{} (exceeds 2^64-1, an error is required)", t)
    } else {
        t.to_string()
    }
}

/// None = agrees with the exact total; Some(what) otherwise
fn judge(g: &Got, exact: u128) -> Option<&'static str> {
    let fits = exact <= u64::MAX as u128;
    match g {
        Got::Num(v) if fits && *v as u128 == exact => None,
        Got::Num(_) if fits => Some("wrong-value"),
        Got::Num(_) => Some("number-instead-of-error"),
        Got::Error(_) if !fits => None,
        Got::Error(_) => Some("error-instead-of-number"),
        Got::Panic(_) => Some("panic"),
        Got::Assets(_) => Some("carries-assets"),
    }
}

struct Fails {
    list: Vec<(u8, Failure)>,
}

impl Fails {
    fn generic(&mut self, sig: String, detail: String) {
        self.list.push((0, Failure::new(sig, detail)));
    }
    fn narrow(&mut self, sig: &str, detail: String) {
        self.list.push((1, Failure::new(sig, detail)));
    }
    /// unexplained disagreements first; the two narrow causes only when nothing else is wrong in the case
    fn verdict(mut self) -> CaseResult {
        if let Some(i) = self.list.iter().position(|(r, _)| *r == 0) {
            return Err(self.list.swap_remove(i).1);
        }
        match self.list.into_iter().next() {
            Some((_, f)) => Err(f),
            None => Ok(()),
        }
    }
}

fn helper_checks(fails: &mut Fails, case: &Case, tot: &Totals, body: &TransactionBody, variant: &str) {
    let (pool, key) = (bn(case.pool_dep), bn(case.key_dep));
    let suffix = if variant == "setter-body" { String::new() } else { format!("/{}", variant) };
    // deposit
    let dep = got_coin(catch(|| get_deposit(body, &pool, &key)));
    if let Some(what) = judge(&dep, tot.deposit()) {
        let detail = format!(
            "get_deposit({}) = {}; ledger deposit = {} (certificates {} + proposals {}); {}",
            variant,
            dep.show(),
            show_total(tot.deposit()),
            tot.dep_certs,
            tot.dep_props,
            case.render()
        );
        if tot.dep_props > 0 && judge(&dep, tot.dep_certs).is_none() {
            fails.narrow(SIG_IGNORES_PROPOSALS, detail);
        } else {
            fails.generic(format!("helper/deposit-{}{}", what, suffix), detail);
        }
    }
    // implicit input
    let imp = got_value(catch(|| get_implicit_input(body, &pool, &key)));
    if let Some(what) = judge(&imp, tot.implicit()) {
        let with_retirements = tot.implicit() + tot.pool_retirements * case.pool_dep as u128;
        let detail = format!(
            "get_implicit_input({}) = {}; withdrawals + refunds paid inside the transaction = {} (withdrawals {} + refunds {}); pool retirements in the body: {}; {}",
            variant,
            imp.show(),
            show_total(tot.implicit()),
            tot.withdrawals,
            tot.refunds,
            tot.pool_retirements,
            case.render()
        );
        if with_retirements != tot.implicit() && judge(&imp, with_retirements).is_none() {
            fails.narrow(SIG_POOL_RETIREMENT, detail);
        } else {
            fails.generic(format!("helper/implicit-input-{}{}", what, suffix), detail);
        }
    }
}

fn native_witness() -> NativeScriptSource {
    NativeScriptSource::new(&NativeScript::new_timelock_start(&TimelockStart::new_timelockstart(&bn(0))))
}

fn plutus_witness(i: u64) -> PlutusWitness {
    let script = PlutusScript::new_v2(vec![0x4e, 0x4d, 0x01, 0x00, 0x00, 0x33, 0x22, 0x22, 0x00, 0x51, 0x20, 0x01, 0x20, 0x01, 0x11]);
    let red = Redeemer::new(&RedeemerTag::new_cert(), &bn(i), &PlutusData::new_integer(&BigInt::from(i)), &ExUnits::new(&bn(1), &bn(1)));
    PlutusWitness::new_without_datum(&script, &red)
}

/// the builder fed the same items; Err(text) when an item is refused by every entry point
fn feed_builder(ctx: &mut Ctx, case: &Case, lp: &str) -> Result<TransactionBuilder, Failure> {
    let cfg = TransactionBuilderConfigBuilder::new()
        .fee_algo(&LinearFee::new(&bn(44), &bn(155_381)))
        .coins_per_utxo_byte(&bn(4310))
        .pool_deposit(&bn(case.pool_dep))
        .key_deposit(&bn(case.key_dep))
        .max_value_size(5000)
        .max_tx_size(u32::MAX)
        .build()
        .map_err(|e| Failure::new("builder/config-refused", format!("{:?}", e)))?;
    let mut tb = TransactionBuilder::new(&cfg);

    // certificates
    if !case.certs.is_empty() || case.set_empty {
        let mut done = false;
        if case.deprecated_setters {
            let mut col = Certificates::new();
            for it in &case.certs {
                col.add(&it.cert);
            }
            if let Ok(Ok(())) = catch(|| tb.set_certs(&col)) {
                ctx.label(&format!("{}:builder:set_certs(deprecated)", lp));
                done = true;
            }
        }
        if !done {
            let mut cb = CertificatesBuilder::new();
            if case.corrections {
                let mut decoy = CertificatesBuilder::new();
                let _ = catch(|| decoy.add(&Certificate::new_stake_registration(&StakeRegistration::new(&Credential::from_keyhash(&Ed25519KeyHash::from_bytes(vec![0x5b; 28]).unwrap())))));
                tb.set_certs_builder(&decoy);
            }
            for (i, it) in case.certs.iter().enumerate() {
                let plain = catch(|| cb.add(&it.cert));
                if let Ok(Ok(())) = plain {
                    continue;
                }
                let second = if case.plutus_witness {
                    ctx.label(&format!("{}:builder:cert-plutus-witness", lp));
                    catch(|| cb.add_with_plutus_witness(&it.cert, &plutus_witness(i as u64)))
                } else {
                    ctx.label(&format!("{}:builder:cert-native-script-witness", lp));
                    catch(|| cb.add_with_native_script(&it.cert, &native_witness()))
                };
                match second {
                    Ok(Ok(())) => {}
                    other => {
                        return Err(Failure::new(
                            "builder/refuses-certificate",
                            format!("CertificatesBuilder refuses certificate #{} through add ({:?}) and through the script-witness entry point ({:?}); {}", i, plain.map_err(|p| p.msg), other.map_err(|p| p.msg), case.render()),
                        ))
                    }
                }
            }
            tb.set_certs_builder(&cb);
        }
    }
    // withdrawals
    if !case.withdrawals.is_empty() || case.set_empty {
        let mut done = false;
        if case.deprecated_setters {
            let mut w = Withdrawals::new();
            for (a, v) in &case.withdrawals {
                w.insert(a, &bn(*v));
            }
            if let Ok(Ok(())) = catch(|| tb.set_withdrawals(&w)) {
                ctx.label(&format!("{}:builder:set_withdrawals(deprecated)", lp));
                done = true;
            }
        }
        if !done {
            let mut wb = WithdrawalsBuilder::new();
            if case.corrections {
                ctx.label(&format!("{}:builder:corrected-history", lp));
                // a decoy set first: setting the real sub-builder afterwards replaces it
                let mut decoy = WithdrawalsBuilder::new();
                let _ = catch(|| decoy.add(&RewardAddress::new(1, &Credential::from_keyhash(&Ed25519KeyHash::from_bytes(vec![0x5a; 28]).unwrap())), &bn(5_000_000)));
                tb.set_withdrawals_builder(&decoy);
                // every account first with another amount (whichever entry point takes it), then corrected below
                for (i, (a, v)) in case.withdrawals.iter().enumerate() {
                    let wrong = if *v % 2 == 0 { v / 2 + 3 } else { v.wrapping_mul(3) | 1 };
                    if let Ok(Ok(())) = catch(|| wb.add(a, &bn(wrong))) {
                        continue;
                    }
                    let _ = if case.plutus_witness { catch(|| wb.add_with_plutus_witness(a, &bn(wrong), &plutus_witness(100 + i as u64))) } else { catch(|| wb.add_with_native_script(a, &bn(wrong), &native_witness())) };
                }
            }
            for (i, (a, v)) in case.withdrawals.iter().enumerate() {
                let plain = catch(|| wb.add(a, &bn(*v)));
                if let Ok(Ok(())) = plain {
                    continue;
                }
                let second = if case.plutus_witness { catch(|| wb.add_with_plutus_witness(a, &bn(*v), &plutus_witness(100 + i as u64))) } else { catch(|| wb.add_with_native_script(a, &bn(*v), &native_witness())) };
                match second {
                    Ok(Ok(())) => {}
                    other => {
                        return Err(Failure::new(
                            "builder/refuses-withdrawal",
                            format!("WithdrawalsBuilder refuses withdrawal #{} through add ({:?}) and through the script-witness entry point ({:?}); {}", i, plain.map_err(|p| p.msg), other.map_err(|p| p.msg), case.render()),
                        ))
                    }
                }
            }
            tb.set_withdrawals_builder(&wb);
        }
    }
    // proposals
    if !case.proposals.is_empty() || case.set_empty {
        let mut pb = VotingProposalBuilder::new();
        if case.corrections {
            if let Some((p, _)) = case.proposals.first() {
                let mut decoy = VotingProposalBuilder::new();
                let _ = catch(|| decoy.add(p));
                tb.set_voting_proposal_builder(&decoy);
            }
        }
        for (i, (p, _)) in case.proposals.iter().enumerate() {
            let plain = catch(|| pb.add(p));
            if let Ok(Ok(())) = plain {
                if case.corrections {
                    // the same proposal once more: the builder is a map keyed by the proposal
                    let _ = catch(|| pb.add(p));
                }
                continue;
            }
            match catch(|| pb.add_with_plutus_witness(p, &plutus_witness(200 + i as u64))) {
                Ok(Ok(())) => {}
                other => {
                    return Err(Failure::new(
                        "builder/refuses-proposal",
                        format!("VotingProposalBuilder refuses proposal #{} through add ({:?}) and add_with_plutus_witness ({:?}); {}", i, plain.map_err(|p| p.msg), other.map_err(|p| p.msg), case.render()),
                    ))
                }
            }
        }
        tb.set_voting_proposal_builder(&pb);
    }
    Ok(tb)
}

/// all observations of one case; `lp` = label prefix
fn check_case(ctx: &mut Ctx, case: &Case, lp: &str) -> CaseResult {
    let tot = case.totals();
    let mut fails = Fails { list: Vec::new() };

    // ---- body through the public setters
    let mut body = case.base.clone();
    if !case.certs.is_empty() || case.set_empty {
        let mut col = Certificates::new();
        for it in &case.certs {
            col.add(&it.cert);
        }
        ensure!(col.len() == case.certs.len(), "collection/certificates-dropped-a-distinct-item", "Certificates holds {} of {} pairwise distinct certificates; {}", col.len(), case.certs.len(), case.render());
        body.set_certs(&col);
    }
    if !case.withdrawals.is_empty() || case.set_empty {
        let mut w = Withdrawals::new();
        for (a, v) in &case.withdrawals {
            w.insert(a, &bn(*v));
        }
        ensure!(w.len() == case.withdrawals.len(), "collection/withdrawals-dropped-a-distinct-account", "Withdrawals holds {} of {} distinct reward accounts; {}", w.len(), case.withdrawals.len(), case.render());
        body.set_withdrawals(&w);
    }
    if !case.proposals.is_empty() || case.set_empty {
        let mut ps = VotingProposals::new();
        for (p, _) in &case.proposals {
            ps.add(p);
        }
        ensure!(ps.len() == case.proposals.len(), "collection/proposals-dropped-a-distinct-item", "VotingProposals holds {} of {} pairwise distinct proposals; {}", ps.len(), case.proposals.len(), case.render());
        body.set_voting_proposals(&ps);
    }
    helper_checks(&mut fails, case, &tot, &body, "setter-body");

    // ---- the same body after a CBOR round trip; the table applied to the emitted bytes
    let mut decoded_ok = false;
    if let Ok(bytes) = catch(|| body.to_bytes()) {
        match wire_totals(&bytes, case.pool_dep, case.key_dep) {
            Ok(wt) => {
                if wt != tot {
                    fails.generic("oracle/body-wire-differs-from-items".into(), format!("table on the emitted body: {:?}; table on the items: {:?}; body {}; {}", wt, tot, hex::encode(&bytes), case.render()));
                }
            }
            Err(e) => fails.generic("oracle/body-wire-unreadable".into(), format!("{}; body {}; {}", e, hex::encode(&bytes), case.render())),
        }
        if let Ok(Ok(back)) = catch(|| TransactionBody::from_bytes(bytes.clone())) {
            decoded_ok = true;
            helper_checks(&mut fails, case, &tot, &back, "decoded-body");
        }
        // the pre-Conway presentation of the same body: certificate / proposal sets as plain arrays (no tag 258)
        if let Some(legacy) = strip_set_tags(&bytes) {
            if let Ok(Ok(back)) = catch(|| TransactionBody::from_bytes(legacy.clone())) {
                ctx.label(&format!("{}:untagged-sets-body:checked", lp));
                helper_checks(&mut fails, case, &tot, &back, "untagged-sets-body");
            } else {
                ctx.label(&format!("{}:untagged-sets-body:unavailable", lp));
            }
        }
    }
    ctx.label(&format!("{}:decoded-body:{}", lp, if decoded_ok { "checked" } else { "unavailable" }));

    // ---- the builder fed the same items
    let mut tb = match feed_builder(ctx, case, lp) {
        Ok(tb) => tb,
        Err(f) => {
            fails.list.push((0, f));
            return fails.verdict();
        }
    };
    let b_dep = got_coin(catch(|| tb.get_deposit()));
    if let Some(what) = judge(&b_dep, tot.deposit()) {
        fails.generic(
            format!("builder/deposit-{}", what),
            format!("TransactionBuilder::get_deposit() = {}; ledger deposit = {} (certificates {} + proposals {}); {}", b_dep.show(), show_total(tot.deposit()), tot.dep_certs, tot.dep_props, case.render()),
        );
    }
    let b_imp = got_value(catch(|| tb.get_implicit_input()));
    if let Some(what) = judge(&b_imp, tot.implicit()) {
        fails.generic(
            format!("builder/implicit-input-{}", what),
            format!("TransactionBuilder::get_implicit_input() = {}; withdrawals + refunds = {} (withdrawals {} + refunds {}); {}", b_imp.show(), show_total(tot.implicit()), tot.withdrawals, tot.refunds, case.render()),
        );
    }
    // the figures that enter balancing: no inputs, outputs, mint or donation are set, so the totals are these two
    let b_tin = got_value(catch(|| tb.get_total_input()));
    if let Some(what) = judge(&b_tin, tot.implicit()) {
        fails.generic(
            format!("builder/total-input-{}", what),
            format!("TransactionBuilder::get_total_input() of a builder without inputs and mint = {}; withdrawals + refunds = {}; {}", b_tin.show(), show_total(tot.implicit()), case.render()),
        );
    }
    let b_tout = got_value(catch(|| tb.get_total_output()));
    if let Some(what) = judge(&b_tout, tot.deposit()) {
        fails.generic(
            format!("builder/total-output-{}", what),
            format!("TransactionBuilder::get_total_output() of a builder without outputs, burn and donation = {}; ledger deposit = {}; {}", b_tout.show(), show_total(tot.deposit()), case.render()),
        );
    }
    // the body the builder emits, given to the stand-alone helpers
    tb.set_fee(&bn(0));
    let mut built_ok = false;
    if let Ok(Ok(bb)) = catch(|| tb.build()) {
        // it must carry the same items (else the comparison is about something else)
        let same = match catch(|| bb.to_bytes()).ok().and_then(|b| wire_totals(&b, case.pool_dep, case.key_dep).ok()) {
            Some(wt) => {
                if wt != tot {
                    fails.generic("builder/built-body-carries-other-items".into(), format!("table on the body the builder emits: {:?}; table on the items it was fed: {:?}; {}", wt, tot, case.render()));
                }
                wt == tot
            }
            None => false,
        };
        if same {
            built_ok = true;
            helper_checks(&mut fails, case, &tot, &bb, "builder-body");
        }
    }
    ctx.label(&format!("{}:builder-body:{}", lp, if built_ok { "checked" } else { "unavailable" }));

    // ---- bookkeeping
    let near = |t: u128| t + 65536 > (1u128 << 64) && t < (1u128 << 64) + 65536;
    for (name, t) in [("deposit", tot.deposit()), ("implicit", tot.implicit())] {
        if t > u64::MAX as u128 {
            ctx.label(&format!("{}:{}:overflow", lp, name));
        } else if t > 0 {
            ctx.label(&format!("{}:{}:fits-nonzero", lp, name));
        } else {
            ctx.label(&format!("{}:{}:zero", lp, name));
        }
        if near(t) {
            ctx.label(&format!("{}:{}:near-2^64", lp, name));
        }
    }
    let ek = case.effect_kinds();
    let nontrivial = ek.len() >= 2 || !case.proposals.is_empty() || near(tot.deposit()) || near(tot.implicit());
    if nontrivial {
        ctx.label(&format!("{}:nontrivial", lp));
        ctx.nontrivial(fp64(case.canonical().as_bytes()));
        let class = if near(tot.deposit()) || near(tot.implicit()) { format!("{}-near-2^64", lp) } else { lp.to_string() };
        ctx.sample(&class, || format!("{} -> deposit {}, implicit input {}", case.canonical(), show_total(tot.deposit()), show_total(tot.implicit())));
    }
    fails.verdict()
}

fn label_items(ctx: &mut Ctx, case: &Case, lp: &str) {
    for it in &case.certs {
        ctx.label(&format!("{}:cert:{:02}-{}", lp, it.kind, WIRE_NAMES[it.kind as usize]));
    }
    ctx.label(&format!("{}:n-certs:{}", lp, match case.certs.len() { 0 => "0", 1 => "1", 2..=3 => "2-3", 4..=7 => "4-7", _ => "8+" }));
    ctx.label(&format!("{}:n-effect-kinds:{}", lp, match case.effect_kinds().len() { 0 => "0", 1 => "1", 2 => "2", 3..=4 => "3-4", _ => "5+" }));
    ctx.label(&format!("{}:n-withdrawals:{}", lp, case.withdrawals.len().min(3)));
    ctx.label(&format!("{}:n-proposals:{}", lp, case.proposals.len().min(3)));
    for n in &case.noise {
        ctx.label(&format!("{}:noise:{}", lp, n));
    }
    let class = |v: u64| match v {
        0 => "0",
        1..=23 => "1..23",
        24..=0xFFFF_FFFF => "24..2^32-1",
        0x1_0000_0000..=0x7FFF_FFFF_FFFF_FFFF => "2^32..2^63-1",
        _ => ">=2^63",
    };
    ctx.label(&format!("{}:pool_deposit:{}", lp, class(case.pool_dep)));
    ctx.label(&format!("{}:key_deposit:{}", lp, class(case.key_dep)));
}

// ---------------------------------------------------------------------------------------------
// item constructors

/// a certificate of the given wire kind; kinds with an explicit coin carry `amount`; `alt` selects the other
/// constructor flavour where there are two (reg_cert vs stake_registration with a coin, with / without anchor, MIR form)
fn make_cert(g: &mut Gen, wire: u64, script_cred: bool, amount: u64, alt: bool) -> Certificate {
    let cred = if script_cred { Credential::from_scripthash(&gen::script_hash(g)) } else { Credential::from_keyhash(&gen::key_hash(g)) };
    let a = bn(amount);
    match wire {
        0 => Certificate::new_stake_registration(&StakeRegistration::new(&cred)),
        1 => Certificate::new_stake_deregistration(&StakeDeregistration::new(&cred)),
        2 => Certificate::new_stake_delegation(&StakeDelegation::new(&cred, &gen::key_hash(g))),
        3 => Certificate::new_pool_registration(&PoolRegistration::new(&gen::pool_params(g))),
        4 => Certificate::new_pool_retirement(&PoolRetirement::new(&gen::key_hash(g), g.t.u32_class())),
        5 => Certificate::new_genesis_key_delegation(&GenesisKeyDelegation::new(&gen::genesis_hash(g), &gen::genesis_delegate_hash(g), &gen::vrf_key_hash(g))),
        6 => {
            let pot = if amount & 1 == 1 { MIRPot::Reserves } else { MIRPot::Treasury };
            if alt {
                let mut m = MIRToStakeCredentials::new();
                m.insert(&cred, &Int::new(&a));
                Certificate::new_move_instantaneous_rewards_cert(&MoveInstantaneousRewardsCert::new(&MoveInstantaneousReward::new_to_stake_creds(pot, &m)))
            } else {
                Certificate::new_move_instantaneous_rewards_cert(&MoveInstantaneousRewardsCert::new(&MoveInstantaneousReward::new_to_other_pot(pot, &a)))
            }
        }
        7 => {
            let r = StakeRegistration::new_with_explicit_deposit(&cred, &a);
            if alt {
                Certificate::new_reg_cert(&r).expect("reg_cert with a coin")
            } else {
                Certificate::new_stake_registration(&r)
            }
        }
        8 => {
            let r = StakeDeregistration::new_with_explicit_refund(&cred, &a);
            if alt {
                Certificate::new_unreg_cert(&r).expect("unreg_cert with a coin")
            } else {
                Certificate::new_stake_deregistration(&r)
            }
        }
        9 => Certificate::new_vote_delegation(&VoteDelegation::new(&cred, &gen::drep(g))),
        10 => Certificate::new_stake_and_vote_delegation(&StakeAndVoteDelegation::new(&cred, &gen::key_hash(g), &gen::drep(g))),
        11 => Certificate::new_stake_registration_and_delegation(&StakeRegistrationAndDelegation::new(&cred, &gen::key_hash(g), &a)),
        12 => Certificate::new_vote_registration_and_delegation(&VoteRegistrationAndDelegation::new(&cred, &gen::drep(g), &a)),
        13 => Certificate::new_stake_vote_registration_and_delegation(&StakeVoteRegistrationAndDelegation::new(&cred, &gen::key_hash(g), &gen::drep(g), &a)),
        14 => Certificate::new_committee_hot_auth(&CommitteeHotAuth::new(&cred, &gen::credential(g))),
        15 => {
            if alt {
                Certificate::new_committee_cold_resign(&CommitteeColdResign::new_with_anchor(&cred, &gen::anchor(g)))
            } else {
                Certificate::new_committee_cold_resign(&CommitteeColdResign::new(&cred))
            }
        }
        16 => {
            if alt {
                Certificate::new_drep_registration(&DRepRegistration::new_with_anchor(&cred, &a, &gen::anchor(g)))
            } else {
                Certificate::new_drep_registration(&DRepRegistration::new(&cred, &a))
            }
        }
        17 => Certificate::new_drep_deregistration(&DRepDeregistration::new(&cred, &a)),
        _ => {
            if alt {
                Certificate::new_drep_update(&DRepUpdate::new_with_anchor(&cred, &gen::anchor(g)))
            } else {
                Certificate::new_drep_update(&DRepUpdate::new(&cred))
            }
        }
    }
}

fn make_withdrawal_address(g: &mut Gen, script_cred: bool) -> RewardAddress {
    let cred = if script_cred { Credential::from_scripthash(&gen::script_hash(g)) } else { Credential::from_keyhash(&gen::key_hash(g)) };
    RewardAddress::new(gen::network_nibble(g), &cred)
}

fn make_proposal(g: &mut Gen, action_kind: usize, deposit: u64) -> VotingProposal {
    let action = gen::governance_action_kind(g, action_kind % 7);
    VotingProposal::new(&action, &gen::anchor(g), &gen::reward_address(g), &bn(deposit))
}

// ---------------------------------------------------------------------------------------------
// exhaustive tables

const ITEM_KINDS: u64 = 21; // 0..=18 certificate wire kinds, 19 withdrawal, 20 proposal
const POOL_POINTS_QUICK: [u64; 5] = [0, 1, 500_000_000, 1 << 63, u64::MAX];
const KEY_POINTS_QUICK: [u64; 5] = [0, 1, 2_000_000, 1 << 63, u64::MAX];

/// parameter points: quick = 5 each, thorough = all CBOR width points plus the mainnet value
fn param_points(t: Tier, pool: bool) -> Vec<u64> {
    match t {
        Tier::Quick => (if pool { POOL_POINTS_QUICK } else { KEY_POINTS_QUICK }).to_vec(),
        Tier::Thorough => {
            let mut v = U64_POINTS.to_vec();
            v.push(if pool { 500_000_000 } else { 2_000_000 });
            v
        }
    }
}

fn table_count(t: Tier) -> u64 {
    ITEM_KINDS * 2 * U64_POINTS.len() as u64 * param_points(t, true).len() as u64 * param_points(t, false).len() as u64
}

/// the input is self-describing (replays do not depend on the tier): kind, credential flavour, amount, pool_deposit, key_deposit
fn table_make(t: Tier, mut i: u64) -> Vec<u8> {
    let keys = param_points(t, false);
    let pools = param_points(t, true);
    let key = keys[(i % keys.len() as u64) as usize];
    i /= keys.len() as u64;
    let pool = pools[(i % pools.len() as u64) as usize];
    i /= pools.len() as u64;
    let amount = U64_POINTS[(i % U64_POINTS.len() as u64) as usize];
    i /= U64_POINTS.len() as u64;
    let script_cred = (i % 2) as u8;
    i /= 2;
    let item_kind = (i % ITEM_KINDS) as u8;
    let mut out = vec![item_kind, script_cred];
    out.extend_from_slice(&amount.to_le_bytes());
    out.extend_from_slice(&pool.to_le_bytes());
    out.extend_from_slice(&key.to_le_bytes());
    out
}

fn u64_at(input: &[u8], at: usize) -> u64 {
    let mut b = [0u8; 8];
    for (i, x) in b.iter_mut().enumerate() {
        *x = input.get(at + i).copied().unwrap_or(0);
    }
    u64::from_le_bytes(b)
}

fn push_item(g: &mut Gen, case: &mut Case, item_kind: u64, script_cred: bool, amount: u64, alt: bool) -> bool {
    match item_kind {
        0..=18 => {
            let c = make_cert(g, item_kind, script_cred, amount, alt);
            case.push_cert(c)
        }
        19 => {
            let a = make_withdrawal_address(g, script_cred);
            case.push_withdrawal(a, amount)
        }
        _ => {
            // script_cred selects an action that carries a policy hash (needs the witness entry point of the builder)
            let p = if script_cred {
                let mut w = TreasuryWithdrawals::new();
                w.insert(&gen::reward_address(g), &bn(1));
                let action = GovernanceAction::new_treasury_withdrawals_action(&TreasuryWithdrawalsAction::new_with_policy_hash(&w, &gen::script_hash(g)));
                VotingProposal::new(&action, &gen::anchor(g), &gen::reward_address(g), &bn(amount))
            } else {
                make_proposal(g, 6, amount)
            };
            case.push_proposal(p)
        }
    }
}

fn table_case(ctx: &mut Ctx, input: &[u8]) -> CaseResult {
    let item_kind = input.first().copied().unwrap_or(0) as u64 % ITEM_KINDS;
    let script_cred = input.get(1).copied().unwrap_or(0) & 1 == 1;
    let amount = u64_at(input, 2);
    let pool = u64_at(input, 10);
    let key = u64_at(input, 18);
    let mut g = Gen::new(&[], 1, 1);
    let mut case = Case::new(pool, key);
    case.plutus_witness = (amount ^ pool) & 1 == 1;
    case.deprecated_setters = (amount ^ key) & 2 == 2;
    let alt = (amount % 3 == 1) ^ (pool == 1) ^ (key == 1);
    if !push_item(&mut g, &mut case, item_kind, script_cred, amount, alt) {
        fail!("table/item-not-constructible", "item kind {} amount {} cannot be constructed / serialized", item_kind, amount);
    }
    if let Some(it) = case.certs.get(0) {
        ensure!(it.kind == item_kind, "table/constructor-emits-other-kind", "constructor for wire kind {} emitted kind {}: {}", item_kind, it.kind, hex::encode(&it.wire));
    }
    label_items(ctx, &case, "table");
    check_case(ctx, &case, "table")
}

/// sums from 2^64-2 to 2^65-2
const AMOUNT_PAIRS: [(u64, u64); 10] = [
    (1 << 63, 1 << 63),
    ((1 << 63) - 1, 1 << 63),
    (1 << 63, (1 << 63) - 1),
    (u64::MAX, 1),
    (1, u64::MAX),
    (u64::MAX - 1, 1),
    (u64::MAX, 0),
    (u64::MAX, u64::MAX),
    (u64::MAX - 1, 2),
    (5, 7),
];

const PAIR_POINTS_THOROUGH: [u64; 7] = [0, 1, 5, (1 << 63) - 1, 1 << 63, u64::MAX - 1, u64::MAX];

fn amount_pairs(t: Tier) -> Vec<(u64, u64)> {
    match t {
        Tier::Quick => AMOUNT_PAIRS.to_vec(),
        Tier::Thorough => {
            let mut v = Vec::new();
            for a in PAIR_POINTS_THOROUGH {
                for b in PAIR_POINTS_THOROUGH {
                    v.push((a, b));
                }
            }
            v.push((u64::MAX - 1, 2));
            v
        }
    }
}

fn pairs_count(t: Tier) -> u64 {
    ITEM_KINDS * ITEM_KINDS * amount_pairs(t).len() as u64 * 2
}

/// self-describing input: first kind, second kind, credential flavour, the two amounts
fn pairs_make(t: Tier, mut i: u64) -> Vec<u8> {
    let pairs = amount_pairs(t);
    let script_cred = (i % 2) as u8;
    i /= 2;
    let (a, b) = pairs[(i % pairs.len() as u64) as usize];
    i /= pairs.len() as u64;
    let k2 = (i % ITEM_KINDS) as u8;
    i /= ITEM_KINDS;
    let k1 = (i % ITEM_KINDS) as u8;
    let mut out = vec![k1, k2, script_cred];
    out.extend_from_slice(&a.to_le_bytes());
    out.extend_from_slice(&b.to_le_bytes());
    out
}

fn param_role(item_kind: u64) -> u8 {
    match item_kind {
        0 | 1 => 1, // key_deposit
        3 | 4 => 2, // pool_deposit (4: the amount the stand-alone helper is known to add)
        _ => 0,
    }
}

fn pairs_case(ctx: &mut Ctx, input: &[u8]) -> CaseResult {
    let k1 = input.first().copied().unwrap_or(0) as u64 % ITEM_KINDS;
    let k2 = input.get(1).copied().unwrap_or(0) as u64 % ITEM_KINDS;
    let script_cred = input.get(2).copied().unwrap_or(0) & 1 == 1;
    let a = u64_at(input, 3);
    let b = u64_at(input, 11);
    // parameters tied to the amounts of the parameter-based items
    let mut key = 2_000_000u64;
    let mut pool = 500_000_000u64;
    for (k, v) in [(k2, b), (k1, a)] {
        match param_role(k) {
            1 => key = v,
            2 => pool = v,
            _ => {}
        }
    }
    let mut g = Gen::new(&[], 1, 1);
    let mut case = Case::new(pool, key);
    case.plutus_witness = (a ^ b) & 1 == 1;
    let alt = (k1 + k2) % 2 == 1;
    if !push_item(&mut g, &mut case, k1, script_cred, a, alt) || !push_item(&mut g, &mut case, k2, !script_cred, b, !alt) {
        fail!("pairs/item-not-constructible", "item kinds {} {} amounts {} {} cannot be constructed / serialized", k1, k2, a, b);
    }
    label_items(ctx, &case, "pairs");
    check_case(ctx, &case, "pairs")
}

// ---------------------------------------------------------------------------------------------
// generated sequences

#[derive(Clone, Copy, PartialEq)]
enum Regime {
    Moderate,
    Classes,
    Huge,
}

fn amount(t: &mut Tape, r: Regime) -> u64 {
    match r {
        Regime::Moderate => match t.choose(6) {
            0 => 0,
            1 => 2_000_000,
            2 => 500_000_000,
            3 => t.range_u64(1, 23),
            4 => t.range_u64(24, 1_000_000_000_000),
            _ => t.u64_class_max(1 << 40),
        },
        Regime::Classes => t.u64_class(),
        Regime::Huge => match t.choose(6) {
            0 => 1 << 62,
            1 => (1 << 63) - 1,
            2 => 1 << 63,
            3 => u64::MAX,
            4 => u64::MAX - 1,
            _ => t.range_u64(1 << 62, u64::MAX),
        },
    }
}

const EFFECT_KINDS: [u64; 10] = [0, 1, 3, 7, 8, 11, 12, 13, 16, 17];
const EXPLICIT_DEPOSIT_KINDS: [u64; 5] = [7, 11, 12, 13, 16];
const EXPLICIT_REFUND_KINDS: [u64; 2] = [8, 17];

/// slot kinds in tape order: 0 certificate (20), 1 withdrawal (4), 2 proposal (3); interleaved so that short
/// tapes still carry some of each
const SLOT_ORDER: [u8; 27] = [0, 1, 2, 0, 0, 1, 2, 0, 0, 1, 2, 0, 0, 1, 0, 0, 0, 0, 0, 0, 0, 0, 0, 0, 0, 0, 0];
const PLAN_BYTES: usize = 7;
const SLOT_BYTES: usize = 4;
/// a slot holds an item when its first byte is above this (0 = absent, so zeroing tape bytes deletes items)
const PRESENT_ABOVE: u8 = 96;

/// `head` (bytes the tape controls directly) followed by `n` pseudo-random bytes that are a pure function of
/// (salt, head): the first choices of a consumer are steered by the tape, the payload behind them is derived
fn derived(head: &[u8], salt: &[u8], n: usize) -> Vec<u8> {
    let mut seed = salt.to_vec();
    seed.extend_from_slice(head);
    seed.push(0x5a);
    let mut out = head.to_vec();
    out.extend(expand(&seed, n));
    out
}

fn sequences(ctx: &mut Ctx, tape: &[u8]) -> CaseResult {
    // layout: byte 0 salts all derived payload; bytes 1..7 are the plan (regime, steering, flags, parameter
    // selectors); then 27 fixed-width item slots of 4 bytes [presence+flavour, kind, amount selector, extra].
    // Bytes missing from the tape are 0 = slot empty, so shorter / zeroed tapes describe sub-cases and the
    // shrinker can delete items one by one without disturbing the others.
    let byte = |i: usize| tape.get(i).copied().unwrap_or(0);
    let seed = byte(0);
    let plan: Vec<u8> = (1..PLAN_BYTES).map(|i| byte(i)).collect();
    let mut pt = Tape::new(&plan);
    let regime_choice = pt.choose(5);
    let steer = pt.choose(14);
    let dsel = pt.byte();
    let flags = pt.byte();
    let pool_sel = pt.byte();
    let key_sel = pt.byte();
    let steering = steer >= 5;
    let regime_of = |t: &mut Tape| -> Regime {
        match regime_choice {
            0 => Regime::Moderate,
            1 => Regime::Classes,
            2 => [Regime::Moderate, Regime::Classes, Regime::Huge][t.choose(3)],
            3 => {
                if t.chance(40) {
                    Regime::Huge
                } else {
                    Regime::Moderate
                }
            }
            _ => Regime::Moderate,
        }
    };
    // steered cases keep the base amounts moderate (mostly) so that the steering item decides the total
    let steer_keeps_moderate = steering && flags & 0xC0 != 0xC0;
    let pick_regime = |t: &mut Tape| -> Regime {
        if steer_keeps_moderate {
            Regime::Moderate
        } else {
            regime_of(t)
        }
    };
    let param = |sel: u8, salt: u8| -> u64 {
        let buf = derived(&[sel], &[seed, salt], 24);
        let mut t = Tape::new(&buf);
        // the selector byte decides the regime's first choice; 0 = 0
        let r = if steer_keeps_moderate { Regime::Moderate } else { regime_of(&mut Tape::new(&buf[1..])) };
        amount(&mut t, r)
    };
    let pool_dep = param(pool_sel, 0xA1);
    let key_dep = param(key_sel, 0xA2);
    let mut case = Case::new(pool_dep, key_dep);
    case.set_empty = flags & 1 == 1;
    case.deprecated_setters = flags & 2 == 2;
    case.plutus_witness = flags & 4 == 4;
    case.corrections = flags & 0x10 == 0x10;
    ctx.label(match regime_choice {
        0 | 4 => "seq:regime:moderate",
        1 => "seq:regime:width-classes",
        2 => "seq:regime:mixed",
        _ => "seq:regime:moderate+few-huge",
    });

    // ---- items
    let mut via_gen = 0u32;
    for (slot, slot_kind) in SLOT_ORDER.iter().enumerate() {
        let at = PLAN_BYTES + slot * SLOT_BYTES;
        let a = byte(at);
        if a <= PRESENT_ABOVE {
            continue;
        }
        let fl = (a - PRESENT_ABOVE - 1) as u32; // 0..=158
        let buf = derived(&[byte(at + 1), byte(at + 2), byte(at + 3)], &[seed, slot as u8, a], 360);
        let mut g = Gen::new(&buf, 2, 3);
        match slot_kind {
            0 => {
                if fl % 3 == 0 {
                    // the registry's own constructor: free width classes, any credential
                    let j = g.t.choose(gen::CERT_KINDS);
                    let c = gen::certificate_kind(&mut g, j);
                    if case.push_cert(c) {
                        via_gen += 1;
                    } else {
                        ctx.label("seq:skipped:duplicate-or-unserializable-certificate");
                    }
                } else {
                    let b = g.t.byte();
                    let wire = if b < 128 { ((b as usize * 19) >> 7) as u64 } else { EFFECT_KINDS[((b - 128) as usize * EFFECT_KINDS.len()) >> 7] };
                    let script = (fl / 3) % 3 == 0;
                    let alt = (fl / 9) % 2 == 1;
                    let r = pick_regime(&mut g.t);
                    let v = amount(&mut g.t, r);
                    let c = make_cert(&mut g, wire, script, v, alt);
                    if !case.push_cert(c) {
                        ctx.label("seq:skipped:duplicate-or-unserializable-certificate");
                    }
                }
            }
            1 => {
                let _ = g.t.byte();
                let r = pick_regime(&mut g.t);
                let v = amount(&mut g.t, r);
                let addr = make_withdrawal_address(&mut g, fl % 4 == 0);
                if !case.push_withdrawal(addr, v) {
                    ctx.label("seq:skipped:duplicate-reward-account");
                }
            }
            _ => {
                let k = g.t.choose(7);
                let r = pick_regime(&mut g.t);
                let d = amount(&mut g.t, r);
                let p = make_proposal(&mut g, k, d);
                if !case.push_proposal(p) {
                    ctx.label("seq:skipped:duplicate-or-unserializable-proposal");
                }
            }
        }
    }
    if via_gen > 0 {
        ctx.label("seq:uses-registry-certificate-constructor");
    }

    // ---- steering one total to 2^64 - 1 + d
    if steering {
        let buf = derived(&[dsel], &[seed, 0x57, steer as u8], 400);
        let mut g = Gen::new(&buf, 2, 3);
        let d: i128 = match g.t.choose(9) {
            0 => 0,
            1 => 1,
            2 => -1,
            3 => 2,
            4 => -2,
            5 => g.t.range_u64(3, 65535) as i128,
            6 => -(g.t.range_u64(3, 65535) as i128),
            7 => g.t.range_u64(65536, u32::MAX as u64) as i128,
            _ => -(g.t.range_u64(65536, u32::MAX as u64) as i128),
        };
        let target = ((u64::MAX as i128) + d) as u128;
        let script = g.t.chance(64);
        let mode = steer - 5; // 0..=8
        let applied = steer_case(&mut g, &mut case, mode, target, script);
        ctx.label(&format!("seq:steer:{}:{}", ["deposit-by-certificate", "deposit-by-proposal", "implicit-by-certificate", "implicit-by-withdrawal", "deposit-by-key_deposit", "implicit-by-key_deposit", "deposit-by-pool_deposit", "deposit-by-two-certificates", "implicit-by-two-items"][mode], if applied { "applied" } else { "moot" }));
    } else {
        ctx.label("seq:steer:none");
    }

    // ---- unrelated body fields (must not influence the figures)
    if flags & 8 == 8 {
        let buf = derived(&[], &[seed, 0x4e, flags], 900);
        let mut g = Gen::new(&buf, 2, 3);
        g.cddl_ranges = true; // mint quantities inside int64
        let outs = gen::tx_outputs(&mut g);
        let fee = g.coin();
        let mut b = TransactionBody::new_tx_body(&TransactionInputs::new(), &outs, &fee);
        case.noise.push("outputs+fee");
        for (i, name) in [(0usize, "ttl"), (4, "aux-data-hash"), (5, "validity-start"), (6, "mint"), (7, "script-data-hash"), (9, "required-signers"), (10, "network-id"), (12, "total-collateral"), (16, "donation"), (17, "treasury-value")] {
            if g.t.chance(70) {
                gen::body_set_field(&mut g, &mut b, i);
                case.noise.push(name);
            }
        }
        case.base = b;
    }

    label_items(ctx, &case, "seq");
    if case.set_empty {
        ctx.label("seq:empty-collections-are-set-too");
    }
    check_case(ctx, &case, "seq")
}

/// adds one item / tunes one parameter so that the deposit (or implicit-input) total becomes `target`
fn steer_case(g: &mut Gen, case: &mut Case, mode: usize, target: u128, script: bool) -> bool {
    let room = |cur: u128| -> Option<u64> {
        if cur <= target && target - cur <= u64::MAX as u128 {
            Some((target - cur) as u64)
        } else {
            None
        }
    };
    let room2 = |cur: u128| -> Option<u128> {
        if cur <= target && target - cur <= 2 * (u64::MAX as u128) {
            Some(target - cur)
        } else {
            None
        }
    };
    match mode {
        0 => {
            // deposit by one certificate with an explicit coin
            let Some(a) = room(case.totals().deposit()) else { return false };
            let k = EXPLICIT_DEPOSIT_KINDS[g.t.choose(5)];
            let alt = g.t.bool();
            let c = make_cert(g, k, script, a, alt);
            case.push_cert(c)
        }
        1 => {
            let Some(a) = room(case.totals().deposit()) else { return false };
            let k = g.t.choose(7);
            let p = make_proposal(g, k, a);
            case.push_proposal(p)
        }
        2 => {
            let Some(a) = room(case.totals().implicit()) else { return false };
            let k = EXPLICIT_REFUND_KINDS[g.t.choose(2)];
            let alt = g.t.bool();
            let c = make_cert(g, k, script, a, alt);
            case.push_cert(c)
        }
        3 => {
            let Some(a) = room(case.totals().implicit()) else { return false };
            let addr = make_withdrawal_address(g, script);
            case.push_withdrawal(addr, a)
        }
        4 | 5 => {
            // by key_deposit: make sure a parameter-based (de)registration exists, then solve for the parameter
            let want_deposit = mode == 4;
            let is_param = |it: &Item| if want_deposit { it.effect == Effect::Deposit(Amt::KeyParam) } else { it.effect == Effect::Refund(Amt::KeyParam) };
            if !case.certs.iter().any(|it| is_param(it)) {
                let c = make_cert(g, if want_deposit { 0 } else { 1 }, script, 0, false);
                if !case.push_cert(c) {
                    return false;
                }
            }
            let n = case.certs.iter().filter(|it| is_param(it)).count() as u128;
            case.key_dep = 0;
            let t = case.totals();
            let others = if want_deposit { t.deposit() } else { t.implicit() };
            if others > target {
                return false;
            }
            let v = (target - others) / n;
            if v > u64::MAX as u128 {
                return false;
            }
            case.key_dep = v as u64;
            true
        }
        6 => {
            if !case.certs.iter().any(|it| it.effect == Effect::Deposit(Amt::PoolParam)) {
                let c = make_cert(g, 3, false, 0, false);
                if !case.push_cert(c) {
                    return false;
                }
            }
            let n = case.certs.iter().filter(|it| it.effect == Effect::Deposit(Amt::PoolParam)).count() as u128;
            case.pool_dep = 0;
            let others = case.totals().deposit();
            if others > target {
                return false;
            }
            let v = (target - others) / n;
            if v > u64::MAX as u128 {
                return false;
            }
            case.pool_dep = v as u64;
            true
        }
        7 => {
            // two certificates share the rest (which may exceed one u64): first about half, second the remainder
            let Some(a) = room2(case.totals().deposit()) else { return false };
            let first = ((a / 2) as u64).saturating_add(g.t.range_u64(0, 1000)).min(a.min(u64::MAX as u128) as u64);
            let second = a - first as u128;
            if second > u64::MAX as u128 {
                return false;
            }
            let k1 = EXPLICIT_DEPOSIT_KINDS[g.t.choose(5)];
            let c1 = make_cert(g, k1, script, first, false);
            if !case.push_cert(c1) {
                return false;
            }
            let k2 = EXPLICIT_DEPOSIT_KINDS[g.t.choose(5)];
            let c2 = make_cert(g, k2, !script, second as u64, true);
            case.push_cert(c2)
        }
        _ => {
            // a refund certificate and a withdrawal share the rest
            let Some(a) = room2(case.totals().implicit()) else { return false };
            let first = (a / 2) as u64;
            let second = a - first as u128;
            if second > u64::MAX as u128 {
                return false;
            }
            let k = EXPLICIT_REFUND_KINDS[g.t.choose(2)];
            let c = make_cert(g, k, script, first, false);
            if !case.push_cert(c) {
                return false;
            }
            let addr = make_withdrawal_address(g, !script);
            case.push_withdrawal(addr, second as u64)
        }
    }
}
