//! C06 — scenario-based check, see props/builder.rs and DESIGN.md §5.
use crate::runner::*;

pub fn property() -> Property {
    Property {
        id: "C06",
        rule: "builder scenarios; oracle: the built fee is compared with the ledger minimum fee (a*size+b + ceil(ex-unit cost) + floor(tiered reference-script fee), exact arithmetic) of the transaction really signed by the ledger's required witness set (size recomputed by the engine after adding real vkey witnesses / bootstrap witnesses); set_fee is used exactly, set_min_fee is a lower bound. Non-trivial = built, >= 1 signature required, and an amount within 3 of a CBOR width boundary or >= 2 witness kinds; distinct by hash of the built bytes",
        assumptions: vec!["scenarios: tape-decoded protocol parameters, keyring of 6 keys + 2 Byron roots, pools of 5 native and 5 Plutus scripts and 4 datums, each also decoded from a second, non-canonical encoding (overlaps between sources are common; the Redeemer objects handed to the builder carry placeholder tags and indices; a reference input may be registered twice, plainly and with its script size), a UTxO universe the scenario owns, and a sequence of builder operations (inputs by every public route, outputs, certificates of 17 shapes with key / native / Plutus credentials, withdrawals, mint and burn, votes, proposals, required signers, reference inputs, extra datums, auxiliary data, ttl, donation, collateral and its helper routes, fee requests, calc_script_data_hash, one of 7 balancing routes incl. the 4 coin-selection strategies), then build_tx / build / build_tx_unsafe".into(), "operations the library rejects with Err are recorded and skipped: the properties are conditional on success".into(), "UTxO values, owners and reference scripts come from the scenario's own map; sums, sizes, deposits, fees and hashes are recomputed from the emitted bytes by the engine (cbor.rs, ledger.rs), never asked from the library".into(), "a UTxO that carries a reference script is only spent through the add_regular_utxo route (the other input adders have no parameter to declare its script size)".into(), "required witnesses: payment keys of key-locked inputs and collateral, certificate authors per kind, withdrawal key credentials, voter key hashes, the body's required signers, hinted signers of a native script source or else every key hash in the script (the upper bound the builder documents), one bootstrap witness per distinct Byron address".into()],
        subchecks: vec![SubCheck { name: "scenario", kind: Kind::Tape { quick: 400000, thorough: 10000000, max_len: 500 }, run: super::builder::c06_case }],
        crash_prone: false,
        max_reject_fraction: 0.1,
        required_label_fraction: vec![],
    }
}
