//! C02 — parsers are total: malformed input yields an error, never a panic.
use crate::cbor;
use crate::gen::registry::{entries, Entry, Val};
use crate::gen::*;
use crate::mutate;
use crate::runner::*;
use crate::tape::*;
use cardano_serialization_lib as csl;
use csl::*;

pub fn property() -> Property {
    Property {
        id: "C02",
        rule: "four input families per entry point: (1) every byte string of length 0..2 for every byte-level decoder (exhaustive) and every string of length <= 2 over a 40-symbol alphabet for text parsers; (2) valid encodings of generated values of every registered type, parsed by the engine's CBOR reader and mutated by 1-4 tree / byte edits, fed to the decoder of that type and to a second decoder; (3) grammar-generated adversarial CBOR nested up to 256; (4) malformed hex / bech32 / base58 / decimal / JSON text, the latter by mutating to_json output of generated values. Non-trivial = the input is a mutation of a valid encoding, or the parser returned Ok, or the input passed the outer codec (hex/bech32/base58/JSON syntax); distinct by hash of (entry point, input)",
        assumptions: vec![
            "inputs in which a definite string declares more than 2^32 bytes beyond the remaining input are excluded and counted: cbor_event allocates the declared length before reading (known finding F-C02-declared-length-allocation), which aborts the process or panics with 'capacity overflow'".into(),
            "nesting deeper than 256 is outside the explored domain (unbounded recursion is an explicit assumption of the property)".into(),
            "non-termination can only be observed as a watchdog expiry, reported as inconclusive (exit 2), never as a violation".into(),
            "round-trip equality is not demanded of decoded values (decoders may normalise); only that re-serialization returns and, for CBOR types, is well-formed".into(),
        ],
        subchecks: vec![
            SubCheck { name: "short_bytes", kind: Kind::Enum { count: short_count, make: idx_make, exhaustive_note: "every byte string of length 0, 1 and 2 (65 793) for every byte-level decoder" }, run: short_bytes },
            SubCheck { name: "short_text", kind: Kind::Enum { count: short_text_count, make: idx_make, exhaustive_note: "every string of length 0..2 over a 40-symbol alphabet for every text parser" }, run: short_text },
            SubCheck { name: "mutate", kind: Kind::Tape { quick: 1_500_000, thorough: 60_000_000, max_len: 500 }, run: mutated },
            SubCheck { name: "grammar", kind: Kind::Tape { quick: 600_000, thorough: 20_000_000, max_len: 300 }, run: grammar },
            SubCheck { name: "text", kind: Kind::Tape { quick: 600_000, thorough: 20_000_000, max_len: 400 }, run: text },
            // replay-only entry points: input = kind byte ('B' bytes / 'T' text) + parser name + 0x00 + payload
            SubCheck { name: "direct", kind: Kind::Enum { count: |_| 0, make: idx_make, exhaustive_note: "" }, run: direct },
            SubCheck { name: "direct_unfiltered", kind: Kind::Enum { count: |_| 0, make: idx_make, exhaustive_note: "" }, run: direct_unfiltered },
        ],
        crash_prone: true,
        max_reject_fraction: 0.2,
        required_label_fraction: vec![],
    }
}

fn idx_make(_t: Tier, i: u64) -> Vec<u8> {
    i.to_le_bytes().to_vec()
}
fn idx(input: &[u8]) -> u64 {
    u64::from_le_bytes(input[..8].try_into().unwrap())
}

// ------------------------------------------------------------------------------------------
// entry point tables

pub struct ByteParser {
    pub name: String,
    /// returns Ok(true) if the parser accepted, Ok(false) if it returned Err; Err(Failure) on violation
    pub call: Box<dyn Fn(&[u8]) -> Result<bool, Failure>>,
}

/// 'capacity overflow' is the panic of an allocation sized by a declared length. The known finding is about
/// declared *string* lengths (cbor_event); anything else that reserves memory from a declared count (a container
/// head, a length field of the library's own) gets another signature, so it is not hidden behind the finding.
fn panic_signature(cause: &str, input: &[u8]) -> String {
    if cause.contains("capacity overflow") {
        let decoded;
        let raw: &[u8] = if !input.is_empty() && input.len() % 2 == 0 && input.iter().all(|c| c.is_ascii_hexdigit()) {
            decoded = hex::decode(input).unwrap_or_default();
            &decoded
        } else {
            input
        };
        if cbor::scan(raw).max_overdeclared_string > isize::MAX as u64 {
            format!("panic/{}/declared-string-length", cause)
        } else {
            format!("panic/{}/no-oversized-string-in-input", cause)
        }
    } else {
        format!("panic/{}", cause)
    }
}

fn guard<T>(name: &str, what: &str, input: &[u8], f: impl FnOnce() -> T) -> Result<T, Failure> {
    catch(f).map_err(|p| {
        Failure::new(
            panic_signature(&p.cause(), input),
            format!("{} on {} ({} bytes: {}) panicked at {}:{}: {}", name, what, input.len(), hex::encode(&input[..input.len().min(200)]), p.file, p.line, p.msg),
        )
    })
}

/// the C02 oracle for a decoded registry value: re-serialization returns and is well-formed
fn check_decoded(name: &str, cbor_type: bool, input: &[u8], v: &dyn Val) -> Result<(), Failure> {
    let b = guard(name, "reserialize", input, || v.to_bytes())?;
    if cbor_type {
        if let Err(e) = cbor::parse_document(&b) {
            if let Some(f) = replayed_malformed_input(name, input, &b, &e) {
                return Err(f);
            }
            let cause = match e {
                cbor::CborError::Truncated(_) => "truncated",
                cbor::CborError::Trailing(_) => "trailing",
                _ => "other",
            };
            return Err(Failure::new(
                format!("reserialize/malformed-cbor/{}/{}", name, cause),
                format!("{}::from_bytes accepted {} but re-serializes to {} which is not well-formed CBOR ({})", name, hex::encode(&input[..input.len().min(200)]), hex::encode(&b[..b.len().min(200)]), e),
            ));
        }
    }
    let _ = guard(name, "to_hex", input, || v.to_hex())?;
    let _ = guard(name, "to_json", input, || v.to_json())?;
    Ok(())
}

/// Known-finding class F-C02-replays-malformed-input: a byte-preserving type (PlutusData, FixedTransaction raw parts)
/// was handed CBOR that is itself not well-formed, a lenient decoder accepted it, and the stored bytes are replayed.
/// Recognised by: input not well-formed, output not well-formed, and the bytes around the output's defect occur
/// verbatim in the input. Any other malformed output keeps its own signature.
fn replayed_malformed_input(name: &str, input: &[u8], out: &[u8], e: &cbor::CborError) -> Option<Failure> {
    // text entry points hand over hex text
    let decoded;
    let input: &[u8] = if !input.is_empty() && input.iter().all(|c| c.is_ascii_hexdigit()) && input.len() % 2 == 0 {
        decoded = hex::decode(input).unwrap_or_default();
        &decoded
    } else {
        input
    };
    if cbor::parse_document(input).is_ok() {
        return None;
    }
    // the bytes at the output's defect occur verbatim in the (malformed) input
    let off = e.offset().min(out.len().saturating_sub(1));
    let a = &out[off..(off + 3).min(out.len())];
    let b = &out[off.saturating_sub(1)..(off + 1).min(out.len())];
    let occurs = |w: &[u8]| w.len() >= 2 && input.windows(w.len()).any(|x| x == w);
    // ... or the whole malformed input is embedded verbatim in the output (byte-preserving types: the defect
    // may then be reported far from the stored bytes, e.g. as a truncation at the very end of the output)
    let embedded = input.len() >= 2 && out.len() >= input.len() && out.windows(input.len()).any(|x| x == input);
    if occurs(a) || occurs(b) || embedded {
        return Some(Failure::new(
            "reserialize/replays-malformed-input",
            format!("{} accepted {} (not well-formed CBOR) and replays the stored bytes: {} ({})", name, hex::encode(&input[..input.len().min(200)]), hex::encode(&out[..out.len().min(200)]), e),
        ));
    }
    None
}

fn registry_parser(e: &'static Entry) -> ByteParser {
    let cborish = e.is_cbor();
    ByteParser {
        name: format!("{}::from_bytes", e.name),
        call: Box::new(move |input: &[u8]| {
            let r = guard(e.name, "from_bytes", input, || (e.from_bytes)(input.to_vec()))?;
            match r {
                Ok(v) => {
                    check_decoded(e.name, cborish, input, v.as_ref())?;
                    Ok(true)
                }
                Err(_) => Ok(false),
            }
        }),
    }
}

macro_rules! bp {
    ($name:expr, |$i:ident| $body:expr) => {
        ByteParser {
            name: $name.to_string(),
            call: Box::new(move |$i: &[u8]| {
                let r: Result<bool, Failure> = (|| {
                    let ok: bool = guard($name, "parse", $i, || $body)?;
                    Ok(ok)
                })();
                r
            }),
        }
    };
}

fn well_formed(name: &str, input: &[u8], out: &[u8]) -> bool {
    // used inside bp! bodies: a malformed re-serialization panics with a recognisable message
    if let Err(e) = cbor::parse_document(out) {
        if replayed_malformed_input(name, input, out, &e).is_some() {
            panic!("VERIF-REPLAY {} accepted {} (not well-formed CBOR) and replays the stored bytes: {}", name, hex::encode(&input[..input.len().min(100)]), hex::encode(&out[..out.len().min(100)]));
        }
        let full = std::env::var("VERIF_FULL").is_ok();
        let (li, lo) = if full { (input.len(), out.len()) } else { (input.len().min(100), out.len().min(100)) };
        panic!("VERIF-MALFORMED {} re-serializes {} to {} ({}; input {} bytes, output {} bytes)", name, hex::encode(&input[..li]), hex::encode(&out[..lo]), e, input.len(), out.len());
    }
    true
}

fn extra_byte_parsers() -> Vec<ByteParser> {
    let v1 = Language::new_plutus_v1();
    let _ = v1;
    vec![
        bp!("ByronAddress::from_bytes", |i| ByronAddress::from_bytes(i.to_vec()).map(|a| {
            let _ = a.to_bytes();
            let _ = a.to_base58();
            let _ = a.byron_protocol_magic();
            let _ = a.attributes();
            let _ = a.network_id();
        }).is_ok()),
        bp!("PrivateKey::from_normal_bytes", |i| PrivateKey::from_normal_bytes(i).map(|k| {
            let _ = k.as_bytes();
            let _ = k.to_bech32();
        }).is_ok()),
        bp!("PrivateKey::from_extended_bytes", |i| PrivateKey::from_extended_bytes(i).map(|k| {
            let _ = k.as_bytes();
            let _ = k.to_bech32();
            let _ = k.to_hex();
        }).is_ok()),
        bp!("PublicKey::from_bytes", |i| PublicKey::from_bytes(i).map(|k| {
            let _ = k.hash();
            let _ = k.to_bech32();
        }).is_ok()),
        bp!("Bip32PrivateKey::from_bytes", |i| Bip32PrivateKey::from_bytes(i).map(|k| {
            let _ = k.to_public().as_bytes();
            let _ = k.to_128_xprv();
        }).is_ok()),
        bp!("Bip32PrivateKey::from_128_xprv", |i| Bip32PrivateKey::from_128_xprv(i).map(|k| {
            let _ = k.as_bytes();
        }).is_ok()),
        bp!("Bip32PublicKey::from_bytes", |i| Bip32PublicKey::from_bytes(i).map(|k| {
            let _ = k.to_raw_key().hash();
            let _ = k.derive(0);
        }).is_ok()),
        bp!("LegacyDaedalusPrivateKey::from_bytes", |i| LegacyDaedalusPrivateKey::from_bytes(i).map(|k| {
            let _ = k.as_bytes();
        }).is_ok()),
        bp!("FixedTransaction::from_bytes", |i| FixedTransaction::from_bytes(i.to_vec()).map(|t| {
            let _ = t.transaction_hash();
            let _ = t.body();
            let _ = t.witness_set();
            let _ = t.auxiliary_data();
            let out = t.to_bytes();
            well_formed("FixedTransaction", i, &out);
        }).is_ok()),
        bp!("FixedTransaction::new_from_body_bytes", |i| FixedTransaction::new_from_body_bytes(i).map(|t| {
            let out = t.to_bytes();
            well_formed("FixedTransaction::new_from_body_bytes", i, &out);
        }).is_ok()),
        bp!("FixedTransaction::new(body,witness_set)", |i| {
            let cut = if i.is_empty() { 0 } else { (i[0] as usize).min(i.len() - 1) };
            let (a, b) = i[1.min(i.len())..].split_at(cut.min(i.len().saturating_sub(1)));
            // the declared-length pre-filter has to see the two byte strings the library is handed
            if excluded_by_prefilter(a) || excluded_by_prefilter(b) {
                return false;
            }
            FixedTransaction::new(a, b, true).map(|t| {
                let out = t.to_bytes();
                well_formed("FixedTransaction::new", i, &out);
            }).is_ok()
        }),
        bp!("FixedTransaction::set_witness_set", |i| {
            let mut t = FixedTransaction::new_from_body_bytes(&hex::decode("a300d9010280018002 00".replace(' ', "")).unwrap()).unwrap();
            t.set_witness_set(i).map(|_| {
                let out = t.to_bytes();
                well_formed("FixedTransaction::set_witness_set", i, &out);
            }).is_ok()
        }),
        bp!("FixedTransaction::set_auxiliary_data", |i| {
            let mut t = FixedTransaction::new_from_body_bytes(&hex::decode("a300d901028001800200").unwrap()).unwrap();
            t.set_auxiliary_data(i).map(|_| {
                let out = t.to_bytes();
                well_formed("FixedTransaction::set_auxiliary_data", i, &out);
            }).is_ok()
        }),
        bp!("FixedBlock::from_bytes", |i| FixedBlock::from_bytes(i.to_vec()).map(|b| {
            let _ = b.block_hash();
            let _ = b.transaction_bodies().len();
        }).is_ok()),
        bp!("FixedVersionedBlock::from_bytes", |i| FixedVersionedBlock::from_bytes(i.to_vec()).map(|b| {
            let _ = b.block().block_hash();
        }).is_ok()),
        bp!("FixedTransactionBody::from_bytes", |i| FixedTransactionBody::from_bytes(i.to_vec()).map(|b| {
            let _ = b.tx_hash();
            let _ = b.original_bytes();
        }).is_ok()),
        bp!("FixedTransactionBodies::from_bytes", |i| FixedTransactionBodies::from_bytes(i.to_vec()).map(|b| {
            let _ = b.len();
        }).is_ok()),
        bp!("FixedTxWitnessesSet::from_bytes", |i| FixedTxWitnessesSet::from_bytes(i.to_vec()).map(|w| {
            let out = w.to_bytes();
            well_formed("FixedTxWitnessesSet", i, &out);
        }).is_ok()),
        bp!("PlutusScript::from_bytes_v2", |i| PlutusScript::from_bytes_v2(i.to_vec()).map(|s| {
            let _ = s.hash();
        }).is_ok()),
        bp!("PlutusScript::from_bytes_v3", |i| PlutusScript::from_bytes_v3(i.to_vec()).map(|s| {
            let _ = s.hash();
        }).is_ok()),
        bp!("has_transaction_set_tag", |i| has_transaction_set_tag(i.to_vec()).is_ok()),
        bp!("TransactionMetadatum::from_bytes+decode_helpers", |i| TransactionMetadatum::from_bytes(i.to_vec()).map(|m| {
            let _ = decode_arbitrary_bytes_from_metadatum(&m);
            let _ = decode_metadatum_to_json_str(&m, MetadataJsonSchema::NoConversions);
            let _ = decode_metadatum_to_json_str(&m, MetadataJsonSchema::BasicConversions);
            let _ = decode_metadatum_to_json_str(&m, MetadataJsonSchema::DetailedSchema);
        }).is_ok()),
        bp!("PlutusData::from_bytes+decode_helpers", |i| PlutusData::from_bytes(i.to_vec()).map(|d| {
            let _ = decode_plutus_datum_to_json_str(&d, PlutusDatumSchema::BasicConversions);
            let _ = decode_plutus_datum_to_json_str(&d, PlutusDatumSchema::DetailedSchema);
            let _ = d.as_address(&NetworkInfo::mainnet());
            let _ = hash_plutus_data(&d);
        }).is_ok()),
        bp!("Bip32PrivateKey::from_bip39_entropy", |i| {
            let cut = i.len() / 2;
            let k = Bip32PrivateKey::from_bip39_entropy(&i[..cut], &i[cut..]);
            let _ = k.as_bytes();
            true
        }),
    ]
}

pub struct TextParser {
    pub name: String,
    pub call: Box<dyn Fn(&str) -> Result<bool, Failure>>,
}

fn tguard<T>(name: &str, input: &str, f: impl FnOnce() -> T) -> Result<T, Failure> {
    catch(f).map_err(|p| {
        let shown: String = input.chars().take(200).collect();
        Failure::new(panic_signature(&p.cause(), input.as_bytes()), format!("{}({:?}) panicked at {}:{}: {}", name, shown, p.file, p.line, p.msg))
    })
}

macro_rules! tp {
    ($name:expr, |$i:ident| $body:expr) => {
        TextParser {
            name: $name.to_string(),
            call: Box::new(move |$i: &str| {
                let ok: bool = tguard($name, $i, || $body)?;
                Ok(ok)
            }),
        }
    };
}

macro_rules! bech32_hash {
    ($($T:ident),*) => { vec![ $( tp!(concat!(stringify!($T), "::from_bech32"), |i| $T::from_bech32(i).map(|h| { let _ = h.to_bech32("x"); }).is_ok()) ),* ] };
}

/// the largest char boundary of `s` that is <= k (the harness splits text inputs; the text may hold any UTF-8)
fn floor_boundary(s: &str, mut k: usize) -> usize {
    while k > 0 && !s.is_char_boundary(k) {
        k -= 1;
    }
    k
}

fn extra_text_parsers() -> Vec<TextParser> {
    let mut v = bech32_hash!(AnchorDataHash, AuxiliaryDataHash, BlockHash, DataHash, Ed25519KeyHash, GenesisDelegateHash, GenesisHash, KESVKey, PoolMetadataHash, ScriptDataHash, ScriptHash, TransactionHash, VRFKeyHash, VRFVKey);
    v.extend(vec![
        tp!("Address::from_bech32", |i| Address::from_bech32(i).map(|a| {
            let _ = a.to_bytes();
            let _ = a.to_bech32(None);
        }).is_ok()),
        tp!("PrivateKey::from_bech32", |i| PrivateKey::from_bech32(i).is_ok()),
        tp!("PublicKey::from_bech32", |i| PublicKey::from_bech32(i).is_ok()),
        tp!("Bip32PrivateKey::from_bech32", |i| Bip32PrivateKey::from_bech32(i).is_ok()),
        tp!("Bip32PublicKey::from_bech32", |i| Bip32PublicKey::from_bech32(i).is_ok()),
        tp!("Ed25519Signature::from_bech32", |i| Ed25519Signature::from_bech32(i).is_ok()),
        tp!("DRep::from_bech32", |i| DRep::from_bech32(i).map(|d| {
            let _ = d.to_bech32(true);
            let _ = d.to_bech32(false);
        }).is_ok()),
        tp!("ByronAddress::from_base58", |i| ByronAddress::from_base58(i).map(|a| {
            let _ = a.to_base58();
        }).is_ok()),
        tp!("ByronAddress::is_valid", |i| ByronAddress::is_valid(i)),
        tp!("BigNum::from_str", |i| BigNum::from_str(i).is_ok()),
        tp!("Int::from_str", |i| Int::from_str(i).map(|x| {
            let _ = x.to_bytes();
        }).is_ok()),
        tp!("BigInt::from_str", |i| BigInt::from_str(i).map(|x| {
            let _ = x.to_bytes();
        }).is_ok()),
        tp!("PrivateKey::from_hex", |i| PrivateKey::from_hex(i).is_ok()),
        tp!("PublicKey::from_hex", |i| PublicKey::from_hex(i).is_ok()),
        tp!("Bip32PrivateKey::from_hex", |i| Bip32PrivateKey::from_hex(i).is_ok()),
        tp!("Bip32PublicKey::from_hex", |i| Bip32PublicKey::from_hex(i).is_ok()),
        tp!("PlutusScript::from_hex_with_version", |i| PlutusScript::from_hex_with_version(i, &Language::new_plutus_v2()).is_ok()),
        tp!("encode_json_str_to_metadatum(NoConversions)", |i| encode_json_str_to_metadatum(i.to_string(), MetadataJsonSchema::NoConversions).map(|m| {
            let _ = m.to_bytes();
        }).is_ok()),
        tp!("encode_json_str_to_metadatum(BasicConversions)", |i| encode_json_str_to_metadatum(i.to_string(), MetadataJsonSchema::BasicConversions).map(|m| {
            let _ = m.to_bytes();
        }).is_ok()),
        tp!("encode_json_str_to_metadatum(DetailedSchema)", |i| encode_json_str_to_metadatum(i.to_string(), MetadataJsonSchema::DetailedSchema).map(|m| {
            let _ = m.to_bytes();
        }).is_ok()),
        tp!("encode_json_str_to_plutus_datum(Basic)", |i| encode_json_str_to_plutus_datum(i, PlutusDatumSchema::BasicConversions).map(|m| {
            let _ = m.to_bytes();
        }).is_ok()),
        tp!("encode_json_str_to_plutus_datum(Detailed)", |i| encode_json_str_to_plutus_datum(i, PlutusDatumSchema::DetailedSchema).map(|m| {
            let _ = m.to_bytes();
        }).is_ok()),
        tp!("PlutusData::from_json(Detailed)", |i| PlutusData::from_json(i, PlutusDatumSchema::DetailedSchema).is_ok()),
        tp!("encode_json_str_to_native_script(Wallet)", |i| encode_json_str_to_native_script(i, "", ScriptSchema::Wallet).map(|s| {
            let _ = s.to_bytes();
        }).is_ok()),
        tp!("encode_json_str_to_native_script(Node)", |i| encode_json_str_to_native_script(i, "", ScriptSchema::Node).is_ok()),
        tp!("decrypt_with_password", |i| {
            let (a, b) = i.split_at(floor_boundary(i, i.len().min(8)));
            decrypt_with_password(a, b).is_ok()
        }),
        tp!("encrypt_with_password", |i| {
            // salt / nonce of any length, data from the input
            let n = i.len();
            let (a, rest) = i.split_at(floor_boundary(i, (n / 4) & !1));
            let (b, rest) = rest.split_at(floor_boundary(rest, (rest.len() / 3) & !1));
            let (c, d) = rest.split_at(floor_boundary(rest, (rest.len() / 2) & !1));
            if a.len() > 200 {
                return false;
            }
            encrypt_with_password(a, b, c, d).is_ok()
        }),
    ]);
    v
}

thread_local! {
    static ENTRIES: &'static Vec<Entry> = Box::leak(Box::new(entries()));
    static BYTE_PARSERS: Vec<ByteParser> = {
        let es: &'static Vec<Entry> = ENTRIES.with(|e| *e);
        let mut v: Vec<ByteParser> = es.iter().map(registry_parser).collect();
        v.extend(extra_byte_parsers());
        v
    };
    static TEXT_PARSERS: Vec<TextParser> = {
        let es: &'static Vec<Entry> = ENTRIES.with(|e| *e);
        let mut v: Vec<TextParser> = Vec::new();
        for e in es.iter() {
            let name = e.name;
            let fh = e.from_hex;
            let cborish = e.is_cbor();
            v.push(TextParser {
                name: format!("{}::from_hex", name),
                call: Box::new(move |i: &str| {
                    let r = tguard(&format!("{}::from_hex", name), i, || fh(i))?;
                    match r {
                        Ok(val) => {
                            check_decoded(name, cborish, i.as_bytes(), val.as_ref())?;
                            Ok(true)
                        }
                        Err(_) => Ok(false),
                    }
                }),
            });
            if e.has_json {
                let fj = e.from_json;
                v.push(TextParser {
                    name: format!("{}::from_json", name),
                    call: Box::new(move |i: &str| {
                        let r = tguard(&format!("{}::from_json", name), i, || fj(i))?;
                        match r {
                            Some(Ok(val)) => {
                                check_decoded(name, cborish, i.as_bytes(), val.as_ref())?;
                                Ok(true)
                            }
                            _ => Ok(false),
                        }
                    }),
                });
            }
        }
        v.extend(extra_text_parsers());
        v
    };
}

fn malformed_to_failure(f: Failure) -> Failure {
    // re-serializations judged inside bp! bodies panic with a marker; turn them into their own signature
    if f.detail.contains("VERIF-REPLAY") {
        Failure::new("reserialize/replays-malformed-input", f.detail)
    } else if f.detail.contains("VERIF-MALFORMED") {
        let name = f.detail.split("VERIF-MALFORMED ").nth(1).unwrap_or("").split(' ').next().unwrap_or("").to_string();
        Failure::new(format!("reserialize/malformed-cbor/{}", name), f.detail)
    } else {
        f
    }
}

/// the declared-length pre-filter (see assumptions)
fn excluded_by_prefilter(input: &[u8]) -> bool {
    cbor::scan(input).max_overdeclared_string > (1u64 << 32)
}

fn run_bytes(ctx: &mut Ctx, p: &ByteParser, input: &[u8], nontrivial_hint: bool, class: &str) -> CaseResult {
    if excluded_by_prefilter(input) {
        ctx.label("excluded:declared-length-over-2^32");
        ctx.reject();
        return Ok(());
    }
    if ctx.journal.is_some() {
        ctx.journal("direct", &direct_input(b'B', &p.name, input));
    }
    let accepted = (p.call)(input).map_err(malformed_to_failure)?;
    ctx.label(if accepted { "accepted" } else { "rejected-by-parser" });
    if nontrivial_hint || accepted {
        ctx.nontrivial(fp_mix(fp64(p.name.as_bytes()), fp64(input)));
        ctx.sample(class, || format!("{} <- {} ({})", p.name, hex::encode(&input[..input.len().min(100)]), if accepted { "Ok" } else { "Err" }));
    }
    Ok(())
}

pub fn direct_input(kind: u8, name: &str, payload: &[u8]) -> Vec<u8> {
    let mut v = vec![kind];
    v.extend_from_slice(name.as_bytes());
    v.push(0);
    v.extend_from_slice(payload);
    v
}

/// Seed corpus of the raw-bytes fuzz campaign over `direct`: valid encodings (bytes, and JSON where the type
/// has it) of every registry type, produced from a few fixed tapes, each wrapped as a `direct` input.
pub fn direct_seeds(seed: u64) -> Vec<Vec<u8>> {
    let es: &'static Vec<Entry> = ENTRIES.with(|e| *e);
    let mut out = Vec::new();
    for (k, e) in es.iter().enumerate() {
        for (round, len) in [0usize, 48, 300].iter().enumerate() {
            let mut state = fp_mix(fp_mix(seed, k as u64), round as u64);
            let tape: Vec<u8> = (0..*len)
                .map(|i| {
                    state = fp_mix(state, i as u64);
                    state as u8
                })
                .collect();
            let mut g = Gen::new(&tape, 4, 10);
            let v = match catch(|| (e.make)(&mut g)) {
                Ok(v) => v,
                Err(_) => continue,
            };
            if let Ok(b) = catch(|| v.to_bytes()) {
                if b.len() <= 4000 {
                    let name = BYTE_PARSERS.with(|ps| ps[k].name.clone());
                    out.push(direct_input(b'B', &name, &b));
                }
            }
            if e.has_json {
                if let Ok(Some(Ok(j))) = catch(|| v.to_json()) {
                    if j.len() <= 4000 {
                        out.push(direct_input(b'T', &format!("{}::from_json", e.name), j.as_bytes()));
                    }
                }
            }
        }
    }
    // one empty payload for every other entry point so the fuzzer knows their names
    BYTE_PARSERS.with(|ps| {
        for p in ps.iter().skip(es.len()) {
            out.push(direct_input(b'B', &p.name, &[]));
        }
    });
    TEXT_PARSERS.with(|ps| {
        for p in ps.iter() {
            if !p.name.ends_with("::from_json") {
                out.push(direct_input(b'T', &p.name, &[]));
            }
        }
    });
    out
}

fn run_direct(ctx: &mut Ctx, input: &[u8], filtered: bool) -> CaseResult {
    if input.is_empty() {
        return Ok(());
    }
    let kind = input[0];
    let z = match input.iter().skip(1).position(|b| *b == 0) {
        Some(z) => z + 1,
        None => return Ok(()),
    };
    let name = String::from_utf8_lossy(&input[1..z]).into_owned();
    let payload = &input[z + 1..];
    if kind == b'B' {
        BYTE_PARSERS.with(|ps| match ps.iter().find(|p| p.name == name) {
            Some(p) => {
                if filtered {
                    run_bytes(ctx, p, payload, true, "direct")
                } else {
                    (p.call)(payload).map_err(malformed_to_failure).map(|_| ())
                }
            }
            None => Ok(()),
        })
    } else {
        let text = String::from_utf8_lossy(payload).into_owned();
        TEXT_PARSERS.with(|ps| match ps.iter().find(|p| p.name == name) {
            Some(p) => {
                if filtered {
                    run_text(ctx, p, &text, true, "direct")
                } else {
                    (p.call)(&text).map(|_| ())
                }
            }
            None => Ok(()),
        })
    }
}
fn direct(ctx: &mut Ctx, input: &[u8]) -> CaseResult {
    run_direct(ctx, input, true)
}
fn direct_unfiltered(ctx: &mut Ctx, input: &[u8]) -> CaseResult {
    run_direct(ctx, input, false)
}

fn short_count(_t: Tier) -> u64 {
    BYTE_PARSERS.with(|p| p.len() as u64) * 65_793
}

fn short_bytes(ctx: &mut Ctx, input: &[u8]) -> CaseResult {
    let i = idx(input);
    BYTE_PARSERS.with(|ps| {
        let p = &ps[(i / 65_793) as usize];
        let j = i % 65_793;
        // key stretching (PBKDF2, 4096 rounds) makes this entry point ~2 ms per call: sample every 97th input
        if p.name.contains("bip39") && j % 97 != 0 {
            ctx.reject();
            return Ok(());
        }
        let bytes: Vec<u8> = if j == 0 {
            vec![]
        } else if j <= 256 {
            vec![(j - 1) as u8]
        } else {
            let k = j - 257;
            vec![(k >> 8) as u8, k as u8]
        };
        run_bytes(ctx, p, &bytes, false, "short_bytes")
    })
}

const TEXT_ALPHABET: &[u8; 40] = b"0123456789abcdefAFgz\"'{}[]:,-+. \\ux1!_Z\n";

fn short_text_count(_t: Tier) -> u64 {
    TEXT_PARSERS.with(|p| p.len() as u64) * (1 + 40 + 1600)
}

fn run_text(ctx: &mut Ctx, p: &TextParser, input: &str, nontrivial_hint: bool, class: &str) -> CaseResult {
    if ctx.journal.is_some() {
        ctx.journal("direct", &direct_input(b'T', &p.name, input.as_bytes()));
    }
    // hex text that decodes to an over-declaring CBOR string is excluded like its byte form
    if p.name.ends_with("from_hex") || p.name.contains("from_hex_with") {
        if let Ok(b) = hex::decode(input) {
            if excluded_by_prefilter(&b) {
                ctx.label("excluded:declared-length-over-2^32");
                ctx.reject();
                return Ok(());
            }
        }
    }
    let accepted = (p.call)(input)?;
    ctx.label(if accepted { "accepted" } else { "rejected-by-parser" });
    if nontrivial_hint || accepted {
        ctx.nontrivial(fp_mix(fp64(p.name.as_bytes()), fp64(input.as_bytes())));
        ctx.sample(class, || format!("{} <- {:?} ({})", p.name, input.chars().take(120).collect::<String>(), if accepted { "Ok" } else { "Err" }));
    }
    Ok(())
}

fn short_text(ctx: &mut Ctx, input: &[u8]) -> CaseResult {
    let i = idx(input);
    TEXT_PARSERS.with(|ps| {
        let p = &ps[(i / 1641) as usize];
        let j = i % 1641;
        let s: String = if j == 0 {
            String::new()
        } else if j <= 40 {
            (TEXT_ALPHABET[(j - 1) as usize] as char).to_string()
        } else {
            let k = (j - 41) as usize;
            format!("{}{}", TEXT_ALPHABET[k / 40] as char, TEXT_ALPHABET[k % 40] as char)
        };
        run_text(ctx, p, &s, false, "short_text")
    })
}

// registry entry k plus the extra byte parsers share one index space in BYTE_PARSERS
fn mutated(ctx: &mut Ctx, tape: &[u8]) -> CaseResult {
    let es: &'static Vec<Entry> = ENTRIES.with(|e| *e);
    let (d, c) = ctx.tier.pick((3, 8), (6, 25));
    // edits are planned from the head of the tape so they do not starve when the value eats the tape
    let (plan, content) = split_plan(tape, 24);
    let mut g = Gen::new(content, d, c);
    let mut t = Tape::new(plan);
    let k = t.choose(es.len());
    let e = &es[k];
    let v = match catch(|| (e.make)(&mut g)) {
        Ok(v) => v,
        Err(_) => {
            ctx.reject();
            return Ok(());
        }
    };
    let valid = match catch(|| v.to_bytes()) {
        Ok(b) => b,
        Err(_) => {
            ctx.reject();
            return Ok(());
        }
    };
    let mut bytes = valid.clone();
    let n_edits = 1 + t.choose(4);
    let mut labels: Vec<&'static str> = Vec::new();
    if e.is_cbor() {
        if let Ok(mut tree) = cbor::parse_document(&valid) {
            let tree_edits = t.choose(n_edits + 1);
            for _ in 0..tree_edits {
                labels.push(mutate::edit_tree(&mut tree, &mut t));
            }
            bytes = cbor::encode(&tree);
            for _ in tree_edits..n_edits {
                labels.push(mutate::edit_bytes(&mut bytes, &mut t));
            }
        }
    } else {
        for _ in 0..n_edits {
            labels.push(mutate::edit_bytes(&mut bytes, &mut t));
        }
    }
    for l in &labels {
        ctx.label(&format!("edit:{}", l));
    }
    if bytes.len() > 70_000 {
        ctx.reject();
        return Ok(());
    }
    BYTE_PARSERS.with(|ps| {
        run_bytes(ctx, &ps[k], &bytes, true, &format!("mutate:{}", e.name))?;
        // a second decoder: containers of this type or an unrelated one
        let k2 = t.choose(ps.len());
        run_bytes(ctx, &ps[k2], &bytes, true, "mutate:other-decoder")?;
        Ok(())
    })
}

fn grammar(ctx: &mut Ctx, tape: &[u8]) -> CaseResult {
    let mut t = Tape::new(tape);
    let depth = [2usize, 4, 8, 60, 250][t.choose(5)];
    let mut tree = mutate::grammar(&mut t, depth.min(6));
    if depth > 8 {
        // wrap into a deep chain
        for i in 0..depth {
            tree = if i % 2 == 0 { cbor::array(vec![tree]) } else { cbor::tag([24u64, 258, 121, 102][i / 2 % 4], tree) };
        }
    }
    let mut bytes = cbor::encode(&tree);
    if t.chance(80) {
        mutate::edit_bytes(&mut bytes, &mut t);
    }
    if bytes.len() > 70_000 {
        ctx.reject();
        return Ok(());
    }
    ctx.label(&format!("grammar-depth:{}", depth));
    BYTE_PARSERS.with(|ps| {
        for _ in 0..3 {
            let k = t.choose(ps.len());
            run_bytes(ctx, &ps[k], &bytes, tree.depth() > 3, "grammar")?;
        }
        Ok(())
    })
}

fn mutate_json(j: &mut serde_json::Value, t: &mut Tape, budget: &mut u32) {
    use serde_json::Value as J;
    if *budget == 0 {
        return;
    }
    let hit = t.chance(60);
    match j {
        J::Object(o) => {
            if hit && !o.is_empty() {
                *budget -= 1;
                let keys: Vec<String> = o.keys().cloned().collect();
                let k = keys[t.choose(keys.len())].clone();
                match t.choose(4) {
                    0 => {
                        o.remove(&k);
                    }
                    1 => {
                        let v = o.remove(&k).unwrap();
                        o.insert(format!("{}x", k), v);
                    }
                    2 => {
                        o.insert(k, J::Null);
                    }
                    _ => {
                        o.insert("unexpected".into(), J::Bool(true));
                    }
                }
            }
            for (_, v) in o.iter_mut() {
                mutate_json(v, t, budget);
            }
        }
        J::Array(a) => {
            if hit {
                *budget -= 1;
                match t.choose(3) {
                    0 => a.clear(),
                    1 => {
                        if let Some(x) = a.first().cloned() {
                            a.push(x);
                        }
                    }
                    _ => a.push(J::Null),
                }
            }
            for v in a.iter_mut() {
                mutate_json(v, t, budget);
            }
        }
        J::String(s) => {
            if hit {
                *budget -= 1;
                *s = match t.choose(8) {
                    0 => String::new(),
                    1 => format!("{}0", s),
                    2 => "zz".into(),
                    3 => "18446744073709551616".into(),
                    4 => "-18446744073709551617".into(),
                    5 => "\u{fffd}\u{0}".to_string(),
                    6 => s.to_uppercase(),
                    _ => s.chars().rev().collect(),
                };
            }
        }
        J::Number(_) => {
            if hit {
                *budget -= 1;
                *j = match t.choose(5) {
                    0 => serde_json::from_str("-9223372036854775808").unwrap(),
                    1 => serde_json::from_str("18446744073709551616").unwrap(),
                    2 => serde_json::from_str("1.5").unwrap(),
                    3 => J::String("1".into()),
                    _ => serde_json::from_str("1e400").unwrap_or(J::Null),
                };
            }
        }
        J::Bool(b) => {
            if hit {
                *budget -= 1;
                *b = !*b;
            }
        }
        J::Null => {
            if hit {
                *budget -= 1;
                *j = J::Array(vec![]);
            }
        }
    }
}

/// characters that text decoders with table lookups, byte offsets or case mapping get wrong: the first code points
/// of every UTF-8 length, the last ones, NUL / DEL, characters whose case mapping changes their length
const ODD_CHARS: [&str; 16] = ["\u{80}", "\u{e9}", "\u{df}", "\u{7ff}", "\u{800}", "\u{20ac}", "\u{ffff}", "\u{1f600}", "\u{10ffff}", "\0", "\u{7f}", "\u{130}", "\u{1c5}", "\t", "\n", "\u{feff}"];

fn random_text(t: &mut Tape) -> String {
    let n = t.choose(80);
    (0..n)
        .map(|_| {
            let k = t.choose(44);
            if k < 40 {
                (TEXT_ALPHABET[k] as char).to_string()
            } else {
                ODD_CHARS[t.choose(ODD_CHARS.len())].to_string()
            }
        })
        .collect()
}

/// generic damage of an otherwise well-formed text: an odd character inserted, put in place of a character, or
/// appended (character positions, so the text stays valid UTF-8 as every Rust / JS caller's text is)
fn text_damage(s: &mut String, t: &mut Tape) -> &'static str {
    let odd = ODD_CHARS[t.choose(ODD_CHARS.len())];
    let positions: Vec<(usize, usize)> = s.char_indices().map(|(i, c)| (i, c.len_utf8())).collect();
    match t.choose(3) {
        0 if !positions.is_empty() => {
            let (i, l) = positions[t.choose(positions.len())];
            s.replace_range(i..i + l, odd);
            "odd-char-replaces"
        }
        1 if !positions.is_empty() => {
            let (i, _) = positions[t.choose(positions.len())];
            s.insert_str(i, odd);
            "odd-char-inserted"
        }
        _ => {
            s.push_str(odd);
            "odd-char-appended"
        }
    }
}

fn text(ctx: &mut Ctx, tape: &[u8]) -> CaseResult {
    let es: &'static Vec<Entry> = ENTRIES.with(|e| *e);
    let mut g = Gen::new(tape, 3, 6);
    let family = g.t.choose(7);
    match family {
        0 | 1 => {
            // JSON of a generated value, mutated, into the same type's from_json
            let with_json: Vec<&Entry> = es.iter().filter(|e| e.has_json).collect();
            let e = with_json[g.t.choose(with_json.len())];
            let v = match catch(|| (e.make)(&mut g)) {
                Ok(v) => v,
                Err(_) => {
                    ctx.reject();
                    return Ok(());
                }
            };
            let js = match catch(|| v.to_json()) {
                Ok(Some(Ok(s))) => s,
                _ => {
                    ctx.reject();
                    return Ok(());
                }
            };
            let mut t = g.t;
            let mut j: serde_json::Value = match serde_json::from_str(&js) {
                Ok(j) => j,
                Err(_) => {
                    ctx.reject();
                    return Ok(());
                }
            };
            let mut budget = 1 + t.choose(3) as u32;
            mutate_json(&mut j, &mut t, &mut budget);
            let mut s = j.to_string();
            if t.chance(30) {
                // syntactic damage
                let mut b = s.into_bytes();
                mutate::edit_bytes(&mut b, &mut t);
                s = String::from_utf8_lossy(&b).into_owned();
            }
            if t.chance(50) {
                ctx.label(text_damage(&mut s, &mut t));
            }
            let name = format!("{}::from_json", e.name);
            TEXT_PARSERS.with(|ps| {
                let p = ps.iter().find(|p| p.name == name).expect("json parser");
                run_text(ctx, p, &s, true, "json-mutation")
            })
        }
        2 => {
            // hex of a (possibly mutated) valid encoding, damaged as text
            let e = &es[g.t.choose(es.len())];
            let v = match catch(|| (e.make)(&mut g)) {
                Ok(v) => v,
                Err(_) => {
                    ctx.reject();
                    return Ok(());
                }
            };
            let mut t = g.t;
            let mut hx = match catch(|| v.to_hex()) {
                Ok(h) => h,
                Err(_) => {
                    ctx.reject();
                    return Ok(());
                }
            };
            match t.choose(6) {
                0 => {
                    hx.pop();
                }
                1 => hx.push('g'),
                2 => hx = hx.to_uppercase(),
                3 => hx.insert(t.choose(hx.len() + 1), ' '),
                4 => hx = format!("0x{}", hx),
                _ => {
                    if !hx.is_empty() {
                        let p = t.choose(hx.len());
                        hx.replace_range(p..p + 1, "z");
                    }
                }
            }
            if t.chance(60) {
                ctx.label(text_damage(&mut hx, &mut t));
            }
            let name = format!("{}::from_hex", e.name);
            TEXT_PARSERS.with(|ps| {
                let p = ps.iter().find(|p| p.name == name).expect("hex parser");
                run_text(ctx, p, &hx, true, "hex-damage")
            })
        }
        3 => {
            // bech32 / base58 of valid values, damaged
            let mut t = g.t;
            let kind = t.choose(4);
            let mut s = match kind {
                0 => {
                    let mut g2 = Gen::new(&tape[tape.len() / 2..], 2, 3);
                    address(&mut g2).to_bech32(None).unwrap_or_else(|_| "addr1".into())
                }
                1 => {
                    let mut g2 = Gen::new(&tape[tape.len() / 2..], 2, 3);
                    byron_address(&mut g2).to_base58()
                }
                2 => {
                    let mut g2 = Gen::new(&tape[tape.len() / 2..], 2, 3);
                    key_hash(&mut g2).to_bech32("pool").unwrap_or_default()
                }
                _ => {
                    let mut g2 = Gen::new(&tape[tape.len() / 2..], 2, 3);
                    drep(&mut g2).to_bech32(t.bool()).unwrap_or_else(|_| "drep1".into())
                }
            };
            match t.choose(7) {
                0 => {
                    s.pop();
                }
                1 => s = s.to_uppercase(),
                2 => {
                    if s.len() > 2 {
                        let p = t.choose(s.len() - 1) + 1;
                        let c = if s.as_bytes()[p] == b'q' { "p" } else { "q" };
                        s.replace_range(p..p + 1, c);
                    }
                }
                3 => s = format!("1{}", s),
                4 => {
                    if let Some(p) = s.rfind('1') {
                        s.truncate(p + 1);
                    }
                }
                5 => s.push_str("qqqqqq"),
                _ => {}
            }
            if t.chance(110) {
                ctx.label(text_damage(&mut s, &mut t));
            }
            TEXT_PARSERS.with(|ps| {
                for _ in 0..2 {
                    let cands: Vec<&TextParser> = ps.iter().filter(|p| p.name.contains("bech32") || p.name.contains("base58") || p.name.contains("is_valid")).collect();
                    let p = cands[t.choose(cands.len())];
                    run_text(ctx, p, &s, true, "bech32-base58-damage")?;
                }
                Ok(())
            })
        }
        6 => {
            // a valid schema document (metadata: 3 schemas, Plutus data: 2 schemas) of a generated value, then one to
            // three structural edits (member renamed / removed / nulled / added, array emptied / grown), into every
            // schema helper: documents that are almost what the helpers expect
            let mut t;
            let doc: Option<String> = if g.t.bool() {
                let m = metadatum(&mut g);
                t = g.t;
                let schema = [MetadataJsonSchema::NoConversions, MetadataJsonSchema::BasicConversions, MetadataJsonSchema::DetailedSchema][t.choose(3)];
                catch(|| decode_metadatum_to_json_str(&m, schema)).ok().and_then(|r| r.ok())
            } else {
                let d = plutus_data(&mut g);
                t = g.t;
                let schema = if t.bool() { PlutusDatumSchema::BasicConversions } else { PlutusDatumSchema::DetailedSchema };
                catch(|| decode_plutus_datum_to_json_str(&d, schema)).ok().and_then(|r| r.ok())
            };
            let doc = match doc {
                Some(d) => d,
                None => {
                    ctx.reject();
                    return Ok(());
                }
            };
            let mut j: serde_json::Value = match serde_json::from_str(&doc) {
                Ok(j) => j,
                Err(_) => {
                    ctx.reject();
                    return Ok(());
                }
            };
            let mut budget = 1 + t.choose(3) as u32;
            mutate_json(&mut j, &mut t, &mut budget);
            let s = j.to_string();
            TEXT_PARSERS.with(|ps| {
                let cands: Vec<&TextParser> = ps.iter().filter(|p| p.name.starts_with("encode_json_str_to_metadatum") || p.name.starts_with("encode_json_str_to_plutus_datum") || p.name.starts_with("PlutusData::from_json") || p.name == "GeneralTransactionMetadata::from_json" || p.name == "TransactionMetadatum::from_json").collect();
                for p in cands {
                    run_text(ctx, p, &s, true, "schema-json-mutation")?;
                }
                Ok(())
            })
        }
        4 => {
            // schema JSON helpers with structured junk
            let mut t = g.t;
            let depth = [1usize, 3, 40, 200][t.choose(4)];
            let mut s = match t.choose(8) {
                0 => "{\"int\": -9223372036854775808}".to_string(),
                1 => "{\"map\": [{\"k\": {\"int\": 1}}]}".to_string(),
                2 => "{\"constructor\": 18446744073709551615, \"fields\": []}".to_string(),
                3 => "{\"bytes\": \"abc\"}".to_string(),
                4 => "{\"cosigners\": {\"a\": \"self\"}, \"template\": {\"all\": [\"a\", {\"active_from\": -1}]}}".to_string(),
                5 => "{\"cosigners\": {}, \"template\": {\"some\": {\"at_least\": 300, \"from\": [\"x\"]}}}".to_string(),
                6 => format!("{}", t.i128_class()),
                _ => random_text(&mut t),
            };
            for _ in 0..depth.min(220) {
                s = if t.bool() { format!("[{}]", s) } else { format!("{{\"list\": [{}]}}", s) };
                if s.len() > 4000 {
                    break;
                }
            }
            TEXT_PARSERS.with(|ps| {
                let cands: Vec<&TextParser> = ps.iter().filter(|p| p.name.starts_with("encode_json") || p.name.starts_with("PlutusData::from_json")).collect();
                for p in cands {
                    run_text(ctx, p, &s, true, "schema-json")?;
                }
                Ok(())
            })
        }
        _ => {
            // free text into any text parser
            let mut t = g.t;
            let s = random_text(&mut t);
            TEXT_PARSERS.with(|ps| {
                for _ in 0..3 {
                    let p = &ps[t.choose(ps.len())];
                    run_text(ctx, p, &s, false, "free-text")?;
                }
                Ok(())
            })
        }
    }
}
